#!/usr/bin/env python3
"""mkround.py <round-name> <wt-base> <out-base> ids...: create scratch worktrees of /repo (HEAD) and the prompts for a round of sub-agent mutants.
The prompt carries only the property text and one-line descriptions of earlier ideas (from DESIGN.md section 8), nothing else from /verif."""
import json,re,os,subprocess,sys
rnd,wtb,outb=sys.argv[1:4]; ids=sys.argv[4:]
props={json.loads(l)['id']:json.loads(l) for l in open('/verif/properties.jsonl')}
design=open('/verif/DESIGN.md').read()
rows={}
for m in re.finditer(r'^\| (C\d\d)-m(\d+) \| (.*?) \|', design, re.M):
    rows.setdefault(m.group(1),[]).append(re.sub(r'`','',m.group(3)))
T=open('/verif/tools/round_prompt.txt').read()
for pid in ids:
    p=props[pid]; wt=wtb+'/'+pid; out=outb+'/'+pid
    os.makedirs(out,exist_ok=True)
    if not os.path.exists(wt): subprocess.run(['git','-C','/repo','worktree','add','--detach',wt,'HEAD'],check=True,capture_output=True)
    ptxt='Property %s: %s\n\nStatement: %s\n\nQuantified over: %s\n\nCode anchors (files): %s\n'%(pid,p['title'],p['statement'],p['quantifier']['text'],', '.join(p['anchors']['files']))
    open(out+'/PROPERTY.txt','w').write(ptxt)
    t=T.replace('@WT@',wt).replace('@OUT@',out).replace('@PROPERTY@',ptxt).replace('@ROUND@',rnd).replace('@EARLIER@','; '.join(rows.get(pid,[])))
    if pid in ('C08','C09'): t=t.replace('@EXTRA@','(Inputs are non-empty sequences: do not rely on empty references or queries. The affine aligners of the unmodified library already deviate in two known ways - no direct transition between the two gap layers, and a traceback that can follow a transition of another layer on score ties - so prefer the linear aligners or effects clearly different from those.) ')
    else: t=t.replace('@EXTRA@','')
    open(out+'/PROMPT.txt','w').write(t)
    print(pid,len(rows.get(pid,[])))
