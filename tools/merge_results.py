#!/usr/bin/env python3
"""merge_results.py <subset-file> <backup-of-full-file>: after sweeping a subset with par_sweep.sh (which rewrites the
result file), put the other lines back from the backup; the subset's lines win. Result written to <subset-file>."""
import sys,re
new,bak=sys.argv[1],sys.argv[2]
d={}
for f in (bak,new):
    for l in open(f,newline='\n'):
        if l.strip(): d[l.split()[0]]=l
key=lambda n:[int(t) if t.isdigit() else t for t in re.split(r'(\d+)',n)]
open(new,'w',newline='\n').writelines(d[k] for k in sorted(d,key=key))
