#!/bin/bash
# par_sweep.sh [tier] [workers] [names...]: the seeded sweep (seeded/Cxx-mK and seeded/handmade/*.diff) on private copies, in parallel.
# Each worker owns a git worktree of /repo (at HEAD) and a copy of /verif whose harness module points at that worktree, so
# neither /repo's working tree nor /verif's evidence is touched. Results: seeded/RESULTS_<tier>.txt and
# seeded/RESULTS_handmade_<tier>.txt (same format as the serial tools). The copies live under /tmp and are removed at the end.
tier=${1:-quick}; N=${2:-4}; shift 2 2>/dev/null
cd /verif
sfx=""; [ -n "${VERIF_SEED:-}" ] && [ "${VERIF_SEED}" != 1 ] && sfx="_seed${VERIF_SEED}" 
base=$(mktemp -d /tmp/verif-par-XXXXXX)
jobs=$base/jobs.txt; : > $jobs
names=${@:-$(ls seeded | grep '^C[0-9][0-9]-'; ls seeded/handmade | sed 's/\.diff$//' | sed 's#^#handmade/#')}
for n in $names; do
  case $n in
    handmade/*) b=${n#handmade/}; echo "$n /verif/seeded/handmade/$b.diff ${b%%-*}" >> $jobs ;;
    *) id=${n%%-*}
       gone=$(python3 -c "import json;print(json.load(open('seeded/$n/meta.json')).get('no_longer_valid','')[:150])" 2>/dev/null)
       if [ -n "$gone" ]; then echo "$n SUPERSEDED $gone" >> $base/out.0; continue; fi
       other=$(python3 -c "import json;print(json.load(open('seeded/$n/meta.json')).get('caught_by_other_check',''))" 2>/dev/null)
       [ -n "$other" ] && id=$other
       echo "$n /verif/seeded/$n/patch.diff $id" >> $jobs ;;
  esac
done
worker() {
  k=$1; repo=$base/repo$k; ver=$base/verif$k
  git -C /repo worktree add --detach $repo HEAD >/dev/null 2>&1 || { echo "worker $k: cannot make a worktree" >&2; return; }
  rsync -a --exclude replay --exclude .git --exclude 'seeded' /verif/ $ver/
  sed -i "s#=> /repo#=> $repo#" $ver/harness/go.mod
  awk -v k=$k -v n=$N 'NR%n==k%n' $jobs | while read name patch id; do
    if ! git -C $repo apply --check $patch 2>/dev/null; then echo "$name patch does not apply" >> $base/out.$k; continue; fi
    git -C $repo apply $patch
    out=$(cd $ver && ./check $id $tier 2>&1); code=$?
    git -C $repo checkout -- . ; git -C $repo clean -fdq
    case $code in 0) v=MISSED ;; 1) v=CAUGHT ;; *) v=INCONCLUSIVE ;; esac
    echo "$name $v $id $tier: $(echo "$out" | grep -a '^VIOLATION\|^INCONCLUSIVE' | head -1 | cut -c1-200)" >> $base/out.$k
  done
  git -C /repo worktree remove --force $repo >/dev/null 2>&1
}
for k in $(seq 1 $N); do worker $k & done
wait
git -C /repo worktree prune
cat $base/out.* 2>/dev/null | grep -v '^handmade/' | sed 's#/tmp/verif-par-[A-Za-z0-9]*/verif[0-9]*/#/verif/#g' | sort -V > seeded/RESULTS_$tier$sfx.txt
cat $base/out.* 2>/dev/null | grep '^handmade/' | sed 's#^handmade/##' | sed 's#/tmp/verif-par-[A-Za-z0-9]*/verif[0-9]*/#/verif/#g' | sort > seeded/RESULTS_handmade_$tier$sfx.txt
rm -rf $base
echo "seeded: $(grep -c . seeded/RESULTS_$tier$sfx.txt) lines, not caught: $(grep -vc ' CAUGHT \| SUPERSEDED ' seeded/RESULTS_$tier$sfx.txt); handmade: $(grep -c . seeded/RESULTS_handmade_$tier$sfx.txt) lines, not caught: $(grep -vc ' CAUGHT ' seeded/RESULTS_handmade_$tier$sfx.txt)"
