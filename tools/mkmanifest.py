#!/usr/bin/env python3
"""Regenerates /verif/MANIFEST.json from the table below (keeps it valid at all times)."""
import json, subprocess, sys, os
V = os.path.dirname(os.path.dirname(os.path.abspath(__file__)))
ALL = ["C%02d" % i for i in range(1, 21)]
ENV = "GOFLAGS=-mod=mod GOPROXY=off GOSUMDB=off GOTOOLCHAIN=local"
# id -> (category, technique, level text, level note, design ref)
CLAIMED = json.load(open(os.path.join(V, "tools", "claims.json")))
hooks_commits = [l.strip() for l in open(os.path.join(V, "tools", "hook_commits.txt")) if l.strip() and not l.startswith("#")]
checks = []
for pid in ALL:
    if pid not in CLAIMED:
        continue
    c = CLAIMED[pid]
    checks.append({
        "property_id": pid,
        "quick_cmd": "./check %s quick" % pid,
        "thorough_cmd": "./check %s thorough" % pid,
        "evidence_file": "/verif/evidence/%s.json" % pid,
        "replay_cmd_template": "./check %s --replay {path}" % pid,
        "engine": "mon",
        "level_claimed": {"category": c["category"], "text": c["text"], "design_ref": c.get("design_ref", "DESIGN.md §4 " + pid)},
        "level_note": c["note"],
        "technique": c["technique"],
    })
na = json.load(open(os.path.join(V, "tools", "not_applicable.json")))
na = [x for x in na if x["property_id"] not in CLAIMED]
missing = [p for p in ALL if p not in CLAIMED and p not in [x["property_id"] for x in na]]
for p in missing:
    na.append({"property_id": p, "reason": "monitor not built yet in this round (runtime monitoring applies; see DESIGN.md §4)"})
m = {
    "version": 1,
    "setup_cmd": "./setup.sh",
    "hooks": {
        "guard": "verif",
        "enable": "go build -tags verif (the harness module replaces github.com/biogo/biogo with /repo, so every check compiles /repo's working tree with the tag on)",
        "baseline_off_cmd": "cd /repo && %s go test -json -vet=off -count=1 -timeout 25m ./..." % ENV,
        "source_commits": hooks_commits,
        "add_only": True,
    },
    "engines": [{
        "name": "mon", "path": "/verif/harness/cmd/mon", "serves_properties": sorted(CLAIMED.keys()),
        "kind_free_text": "Go runtime monitors: one child process per batch runs the real biogo code (built from /repo with -tags verif, -race where stated) under seeded hostile workloads; oracles are reference models, invariant/history checkers, the Go race detector, checkptr and the runtime deadlock detector; the parent merges observations into evidence",
    }],
    "checks": checks,
    "notes": "Verdicts: exit 0 held on everything observed; exit 1 + VIOLATION line; exit 2 + INCONCLUSIVE line (floors on observed events not met, watchdog fired, harness does not build). known_findings.txt lists open findings (class predicates) and fixed ones.",
    "not_applicable": na,
}
json.dump(m, open(os.path.join(V, "MANIFEST.json"), "w"), indent=1)
print("claimed:", sorted(CLAIMED.keys()))
