#!/bin/bash
# confirm_mutant.sh <id> <mK>: confirm a sub-agent's mutant in its scratch worktree:
#   patch applies, library builds, existing suite passes, demo fails with the patch and passes without it.
id=$1; k=$2
wt=${WT:-/tmp/wt}/$id; outbase=${OUT:-/tmp/wt-out}; out=$outbase/$id/$k
tags=""; grep -q -- "-tags verif" $out/NOTES.md 2>/dev/null && tags="-tags verif"
export GOFLAGS=-mod=mod GOPROXY=off GOSUMDB=off GOTOOLCHAIN=local
cd $wt || exit 2
git checkout -q -- . ; git clean -fdq
[ -f $out/patch.diff ] || { echo "$id/$k NO-PATCH"; exit 2; }
git apply --check $out/patch.diff 2>/dev/null || { echo "$id/$k PATCH-DOES-NOT-APPLY"; exit 2; }
git apply $out/patch.diff
b=ok; go build ./... >/dev/null 2>&1 || b=BUILD-FAILS
t=ok; go test -vet=off -count=1 ./... >$outbase/$id/$k.suite.log 2>&1 || t=SUITE-FAILS
demo=$out/demo
d1=?; d2=?
if [ -d $demo ]; then
  if ls $demo/*_test.go >/dev/null 2>&1; then cmd="go test $tags -count=1 ./..."; else cmd="go run ."; fi
  (cd $demo && timeout 300 $cmd >$outbase/$id/$k.demo_mut.log 2>&1) && d1=PASSES-WITH-PATCH || d1=fails-with-patch
  git checkout -q -- . ; git clean -fdq
  (cd $demo && timeout 300 $cmd >$outbase/$id/$k.demo_clean.log 2>&1) && d2=passes-clean || d2=FAILS-CLEAN
fi
git checkout -q -- . ; git clean -fdq
echo "$id/$k build=$b suite=$t demo:$d1,$d2 files=$(grep -c '^diff --git' $out/patch.diff)"
