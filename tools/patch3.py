#!/usr/bin/env python3
"""patch3.py <base> <old-file> <new-file>: apply the same textual replacement to align/<base>_type.got,
<base>_letters.go and <base>_qletters.go (templates and generated files are changed together)."""
import sys
base, oldf, newf = sys.argv[1:4]
old, new = open(oldf).read(), open(newf).read()
import re
def q(t):
    # the qletters files index the sequences through .L (gofmt -r 'rSeq[i] -> rSeq[i].L' in genCode.sh)
    return re.sub(r"\b(rSeq|qSeq)\[([^\]]+)\]", r"\1[\2].L", t)
for suffix in ("_type.got", "_letters.go", "_qletters.go"):
    p = "/repo/align/" + base + suffix
    s = open(p).read()
    o, nw = (q(old), q(new)) if suffix == "_qletters.go" else (old, new)
    n = s.count(o)
    if n != 1:
        sys.exit("%s: %d occurrences" % (p, n))
    open(p, "w").write(s.replace(o, nw))
print("patched", base)
