#!/bin/bash
# seeded_sweep.sh [tier] [names...]: run every seeded change against the check of the property it breaks; writes seeded/RESULTS_<tier>.txt
tier=${1:-quick}; shift
cd /verif
names=${@:-$(ls seeded | grep '^C[0-9][0-9]-')}
sfx=""; [ -n "${VERIF_SEED:-}" ] && [ "${VERIF_SEED}" != 1 ] && sfx="_seed${VERIF_SEED}"
out=seeded/RESULTS_$tier$sfx.txt; : > $out.tmp
for n in $names; do
  id=${n%%-*}
  gone=$(python3 -c "import json;print(json.load(open('seeded/$n/meta.json')).get('no_longer_valid','')[:150])" 2>/dev/null)
  if [ -n "$gone" ]; then echo "$n SUPERSEDED $gone" | tee -a $out.tmp; continue; fi
  other=$(python3 -c "import json;print(json.load(open('seeded/$n/meta.json')).get('caught_by_other_check',''))" 2>/dev/null)
  [ -n "$other" ] && id=$other
  line=$(./tools/try_mutant.sh seeded/$n/patch.diff $tier $id 2>&1 | grep -a "^CAUGHT\|^MISSED\|^INCONCLUSIVE\|patch does not apply\|not clean" | head -1 | cut -c1-260)
  echo "$n $line" | tee -a $out.tmp
done
mv $out.tmp $out
# the runs above rewrote evidence files with the mutated tree: restore the committed ones
git checkout -- evidence 2>/dev/null
