#!/bin/bash
# handmade_sweep.sh [tier]: run every hand-made break (seeded/handmade/<id>-<what>.diff) against the check of its property; writes seeded/RESULTS_handmade_<tier>.txt
tier=${1:-quick}
cd /verif
out=seeded/RESULTS_handmade_$tier.txt; : > $out.tmp
for b in seeded/handmade/*.diff; do
  n=$(basename $b .diff); id=${n%%-*}
  line=$(./tools/try_mutant.sh $b $tier $id 2>&1 | grep -a "^CAUGHT\|^MISSED\|^INCONCLUSIVE\|patch does not apply\|not clean" | head -1 | cut -c1-240)
  echo "$n $line" | tee -a $out.tmp
done
mv $out.tmp $out
git checkout -- evidence 2>/dev/null
