#!/bin/bash
# try_mutant.sh <patch.diff> <tier> <property-id>...   apply a seeded change to /repo, run the named checks, undo it.
# Prints one line per check: CAUGHT (exit 1 with VIOLATION), MISSED (exit 0) or INCONCLUSIVE (exit 2).
patch=$(readlink -f "$1"); tier=$2; shift 2
cd /repo || exit 2
if [ -n "$(git status --porcelain)" ]; then echo "/repo is not clean"; exit 2; fi
if ! git apply --check "$patch" 2>/dev/null; then echo "patch does not apply: $patch"; exit 2; fi
# evidence files are rewritten by every run: keep the ones from the unchanged tree and put them back afterwards
bak=$(mktemp -d /tmp/verif-evbak-XXXXXX)
cp /verif/evidence/*.json "$bak"/ 2>/dev/null
git apply "$patch"
trap 'git -C /repo checkout -- . ; git -C /repo clean -fdq; cp "$bak"/*.json /verif/evidence/ 2>/dev/null; rm -rf "$bak"' EXIT
for id in "$@"; do
  out=$(cd /verif && ./check $id $tier 2>&1); code=$?
  case $code in
    0) v=MISSED ;;
    1) v=CAUGHT ;;
    *) v=INCONCLUSIVE ;;
  esac
  echo "$v $id $tier: $(echo "$out" | grep -a '^VIOLATION\|^INCONCLUSIVE' | head -1 | cut -c1-220)"
done
