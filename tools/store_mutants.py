#!/usr/bin/env python3
"""store_mutants.py <outdir> <src-suffixes e.g. m1,m2> <dst-suffixes e.g. m3,m4> <base-commit> ids...: copy confirmed sub-agent mutants into /verif/seeded"""
import os, shutil, json, re, sys
outdir, srcs, dsts, base = sys.argv[1:5]
ids = sys.argv[5:]
titles = {}
for l in open('/verif/properties.jsonl'):
    p = json.loads(l); titles[p['id']] = p['title']
notes_extra = json.load(open('/verif/tools/seeded_notes.json')) if os.path.exists('/verif/tools/seeded_notes.json') else {}
for pid in ids:
    for sk, dk in zip(srcs.split(','), dsts.split(',')):
        src = '%s/%s/%s' % (outdir, pid, sk)
        if not os.path.exists(src + '/patch.diff'):
            print('skip', src); continue
        name = '%s-%s' % (pid, dk)
        dst = '/verif/seeded/' + name
        if os.path.exists(dst): shutil.rmtree(dst)
        os.makedirs(dst)
        shutil.copy(src + '/patch.diff', dst + '/patch.diff')
        shutil.copy(src + '/NOTES.md', dst + '/NOTES.md')
        shutil.copytree(src + '/demo', dst + '/demo')
        gm = dst + '/demo/go.mod'
        if os.path.exists(gm):
            t = open(gm).read()
            t = re.sub(r'=> /tmp/wt[-\w]*/C\d\d', '=> /repo', t)
            open(gm, 'w').write(t)
        for root, _, files in os.walk(dst + '/demo'):
            for f in files:
                if f.startswith('out_') and f.endswith('.txt'): os.remove(os.path.join(root, f))
        files = sorted(set(re.findall(r'^diff --git a/(\S+)', open(src + '/patch.diff').read(), re.M)))
        meta = {"name": name, "property": pid, "property_title": titles[pid],
                "origin": "fresh sub-agent given only the property text (rounds 2 and later: plus a one-line list of the earlier ideas to avoid) and a scratch worktree of /repo at %s (nothing from /verif)" % base,
                "files_changed": files, "what_it_needs_to_manifest": "see NOTES.md (section on trigger)",
                "confirmed_by_me": {"commands": ["tools/confirm_mutant.sh %s %s  (scratch worktree: git apply; go build ./...; go test -vet=off -count=1 ./...; demo with the patch; git checkout; demo without)" % (pid, sk)],
                                    "result": "patch applies, library builds, existing suite passes, demo fails with the patch and passes without it"},
                "demo": "demo/ (go.mod replace points at /repo: apply patch.diff to /repo, run `go test -count=1 ./...` (add -tags verif if NOTES.md says so) or `go run .` in demo/, undo with git -C /repo checkout -- .)",
                "checked_with": "tools/try_mutant.sh seeded/%s/patch.diff quick <check>" % name}
        if name in notes_extra: meta.update(notes_extra[name])
        json.dump(meta, open(dst + '/meta.json', 'w'), indent=1)
        print('stored', name)
