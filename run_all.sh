#!/bin/bash
# run_all.sh <quick|thorough> [ids...]: run the checks one after another and print one line per check
tier=${1:-quick}; shift
ids=${@:-C01 C02 C03 C04 C05 C06 C07 C08 C09 C10 C11 C12 C13 C14 C15 C16 C17 C18 C19 C20}
cd "$(dirname "$0")"
rc=0
for id in $ids; do
  s=$(date +%s.%N)
  out=$(./check $id $tier 2>&1); code=$?
  e=$(date +%s.%N)
  printf "%s %s exit=%d %.1fs %s\n" "$id" "$tier" "$code" "$(echo "$e - $s" | bc)" "$(echo "$out" | grep -a "^HELD\|^VIOLATION\|^INCONCLUSIVE" | head -2 | cut -c1-160 | tr '\n' ' ')"
  [ $code -ne 0 ] && rc=1
done
exit $rc
