#!/bin/bash
# Offline setup: compile the harness once (plain and -race) so the build cache is warm.
set -e
cd "$(dirname "$0")/harness"
export GOFLAGS=-mod=mod GOPROXY=off GOSUMDB=off GOTOOLCHAIN=local
go vet -tags verif ./... >/dev/null 2>&1 || true
go build -tags verif -o /dev/null ./cmd/mon
go build -tags verif -race -o /dev/null ./cmd/mon
echo setup ok
