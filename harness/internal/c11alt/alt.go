// Package c11alt holds a second element type for the external sorter whose name, c11S, is the
// name of the struct type the C11 monitor declares in its own package: two distinct types that
// differ only in the package they come from.
package c11alt

type c11S struct {
	K int
	P int
}

func (s c11S) Less(j interface{}) bool { return s.K < j.(c11S).K }

// New returns an element.
func New(k, p int) interface {
	Less(interface{}) bool
} {
	return c11S{K: k, P: p}
}

// Proto returns the value handed to morass.New.
func Proto() interface{} { return c11S{} }

// Ptr returns a pointer to a fresh element for Pull.
func Ptr() interface {
	Less(interface{}) bool
} {
	return &c11S{}
}

// Fields reads an element back from the pointer Ptr returned.
func Fields(p interface{}) (k, payload int) {
	v := p.(*c11S)
	return v.K, v.P
}
