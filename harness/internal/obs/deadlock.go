package obs

import (
	"fmt"
	"regexp"
	"runtime"
	"sort"
	"strings"
	"sync/atomic"
	"time"
)

// Tick records progress of the workload (the framework ticks at every case start;
// monitors may tick more often).
func (r *Run) Tick() { atomic.AddInt64(&r.ticks, 1) }

var gHeader = regexp.MustCompile(`(?m)^goroutine (\d+) \[([^\],]+)(?:, [^\]]*)?\]:`)

// blockedStates are goroutine states in which a goroutine cannot make progress on its own.
var blockedStates = []string{"chan receive", "chan send", "select", "sync.Cond.Wait", "semacquire", "sync.Mutex.Lock", "sync.RWMutex", "sync.WaitGroup.Wait",
	"finalizer wait", "GC worker", "GC sweep wait", "GC scavenge wait", "force gc", "GC assist", "cleanup wait"}

func allStacks() string {
	buf := make([]byte, 1<<20)
	for {
		n := runtime.Stack(buf, true)
		if n < len(buf) {
			return string(buf[:n])
		}
		buf = make([]byte, 2*len(buf))
	}
}

// quiescent parses a dump and reports whether every goroutine except self is blocked, and a canonical state listing.
func quiescent(dump string, self string) (bool, string, bool) {
	ms := gHeader.FindAllStringSubmatch(dump, -1)
	var states []string
	all := true
	for _, m := range ms {
		if m[1] == self {
			continue
		}
		states = append(states, m[1]+":"+m[2])
		ok := false
		for _, b := range blockedStates {
			if strings.HasPrefix(m[2], b) {
				ok = true
				break
			}
		}
		if !ok {
			all = false
		}
	}
	sort.Strings(states)
	return all, strings.Join(states, ","), strings.Contains(dump, "github.com/biogo/biogo/")
}

// WatchDeadlock starts a goroutine that decides, logically, whether the workload is deadlocked:
// when no progress has been ticked for quiet it takes two goroutine dumps one second apart and reports
// a violation of class "deadlock" only if, in both, every goroutine other than the watcher is parked in
// a channel, mutex, condition or wait-group operation (nothing runnable, sleeping or in a system call, so
// nothing can ever wake them), the two listings are identical and a biogo frame is on some stack.
// Any other prolonged stall is reported as inconclusive after giveUp.
func (r *Run) WatchDeadlock(quiet, giveUp time.Duration) {
	go func() {
		self := ""
		{
			buf := make([]byte, 64)
			n := runtime.Stack(buf, false)
			if m := gHeader.FindStringSubmatch(string(buf[:n])); m != nil {
				self = m[1]
			}
		}
		last := atomic.LoadInt64(&r.ticks)
		since := time.Now()
		for {
			time.Sleep(250 * time.Millisecond)
			now := atomic.LoadInt64(&r.ticks)
			if now != last {
				last, since = now, time.Now()
				continue
			}
			if time.Since(since) < quiet {
				continue
			}
			d1 := allStacks()
			q1, s1, biogo := quiescent(d1, self)
			time.Sleep(time.Second)
			if atomic.LoadInt64(&r.ticks) != last {
				continue
			}
			d2 := allStacks()
			q2, s2, _ := quiescent(d2, self)
			if q1 && q2 && s1 == s2 && biogo {
				r.Violate("deadlock", "every workload goroutine is parked in a channel/mutex/condition operation and none is runnable, sleeping or in a system call (two identical goroutine dumps one second apart)",
					map[string]interface{}{"crumb": r.lastCrumb(), "goroutine_states": s2, "dump": truncate(d2, 20000)})
				r.FinishEarly(0)
			}
			if time.Since(since) > giveUp {
				r.Inconclusive(fmt.Sprintf("no progress for %v but not a quiescent blocked state (%s); crumb: %s", giveUp, truncate(s2, 300), r.lastCrumb()))
				r.FinishEarly(0)
			}
		}
	}()
}

func truncate(s string, n int) string {
	if len(s) > n {
		return s[:n] + "...[truncated]"
	}
	return s
}
