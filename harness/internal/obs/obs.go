// Package obs holds the bookkeeping shared by every monitor: per-case PRNGs,
// signature sets, samples, counters, violation/known-finding classification,
// replay files, breadcrumbs for crashes, and the parent/child protocol.
package obs

import (
	"encoding/json"
	"fmt"
	"hash/fnv"
	"math/rand"
	"os"
	"path/filepath"
	"sort"
	"strings"
	"sync"
	"sync/atomic"
	"time"
)

// Monitor describes one property check.
type Monitor struct {
	ID    string
	Level string // "exploration" | "fault_enumeration"
	Rule  string
	// Batches returns the number of child processes' worth of work for a tier.
	Batches func(tier string) int
	// MaxPar limits how many children run at once (0 = 16).
	MaxPar int
	// Cases returns the number of cases in this batch.
	Cases func(r *Run) int
	// Case runs case i. r.Rng is seeded from (seed, id, batch, i).
	Case func(r *Run, i int)
	// Setup, if set, runs once per child before the cases.
	Setup func(r *Run)
	// Teardown, if set, runs once per child after the cases.
	Teardown func(r *Run)
	// MinDistinct is the floor on distinct_nontrivial for the whole run (per tier).
	MinDistinct func(tier string) int
	// Floors: counters that must be at least the given value over the whole run, else inconclusive.
	Floors func(tier string) map[string]int64
	// Assumptions for the evidence file.
	Assumptions []string
	// ChildTimeout for one child (generous wall-clock watchdog; firing = inconclusive).
	ChildTimeout func(tier string) time.Duration
	// Env adds environment variables for children.
	Env []string
	// Aggregate, if set, judges the merged counters of the whole run (population-level oracles).
	Aggregate func(tier string, counters map[string]int64) []Violation
}

// Violation is one recorded spec violation.
type Violation struct {
	Class  string `json:"class"`
	Replay string `json:"replay"`
	Brief  string `json:"brief"`
}

// State is what a child hands to the parent.
type State struct {
	Evaluations int64             `json:"evaluations"`
	Distinct    []uint64          `json:"distinct"`
	Samples     []json.RawMessage `json:"samples"`
	Counters    map[string]int64  `json:"counters"`
	Violations  []Violation       `json:"violations"`
	Known       map[string]int64  `json:"known"`
	KnownBrief  map[string]string `json:"known_brief"`
	Inconcl     []string          `json:"inconclusive"`
	Done        bool              `json:"done"`
}

// Run is the per-child run context.
type Run struct {
	M       *Monitor
	ID      string
	Tier    string
	Seed    int64
	Batch   int
	NBatch  int
	Rng     *rand.Rand
	CaseIdx int
	Replay  bool // single-case replay mode: be verbose
	Dir     string

	mu         sync.Mutex
	evals      int64
	distinct   map[uint64]struct{}
	samples    []json.RawMessage
	counters   map[string]int64
	violations []Violation
	known      map[string]int64
	knownBrief map[string]string
	inconcl    []string
	open       map[string]string // class -> description of open findings for this property
	crumb      *os.File
	nviolFiles int
	statePath  string
	perClass   map[string]int
	ticks      int64
	crumbText  atomic.Value
}

func (r *Run) lastCrumb() string {
	s, _ := r.crumbText.Load().(string)
	return s
}

// FinishEarly writes the state gathered so far (marked done) and exits the
// child. Used by in-process watchdogs after they have recorded their verdict.
func (r *Run) FinishEarly(code int) {
	st := r.state(true)
	b, _ := json.Marshal(st)
	if r.statePath != "" {
		os.WriteFile(r.statePath, b, 0o644)
	}
	os.Exit(code)
}

// Thorough reports whether the tier is "thorough".
func (r *Run) Thorough() bool { return r.Tier == "thorough" }

// Pick returns q for quick, t for thorough.
func (r *Run) Pick(q, t int) int {
	if r.Thorough() {
		return t
	}
	return q
}

// Share splits a total number of cases across batches; returns this batch's share.
func (r *Run) Share(total int) int {
	n := total / r.NBatch
	if r.Batch < total%r.NBatch {
		n++
	}
	return n
}

func hash64(parts ...string) uint64 {
	h := fnv.New64a()
	for _, p := range parts {
		h.Write([]byte(p))
		h.Write([]byte{0})
	}
	return h.Sum64()
}

// CaseSeed derives the PRNG seed for case i of this batch.
func (r *Run) CaseSeed(i int) int64 {
	return int64(hash64(r.ID, fmt.Sprint(r.Seed), fmt.Sprint(r.Batch), fmt.Sprint(i)) >> 1)
}

// Note registers one evaluated case with its canonical signature.
func (r *Run) Note(sig string, nontrivial bool) {
	r.mu.Lock()
	r.evals++
	if nontrivial {
		r.distinct[hash64(sig)] = struct{}{}
	}
	r.mu.Unlock()
}

// Eval counts an evaluation without a signature.
func (r *Run) Eval(n int64) {
	r.mu.Lock()
	r.evals += n
	r.mu.Unlock()
}

// Count adds n to a named observation counter.
func (r *Run) Count(key string, n int64) {
	r.mu.Lock()
	r.counters[key] += n
	r.mu.Unlock()
}

// Sample keeps up to 4 samples per child (parent keeps 5 overall).
func (r *Run) Sample(v interface{}) {
	r.mu.Lock()
	defer r.mu.Unlock()
	if len(r.samples) >= 4 {
		return
	}
	b, err := json.Marshal(v)
	if err != nil {
		b, _ = json.Marshal(fmt.Sprintf("%+v", v))
	}
	r.samples = append(r.samples, b)
}

// WantSample reports whether another sample would be kept.
func (r *Run) WantSample() bool {
	r.mu.Lock()
	defer r.mu.Unlock()
	return len(r.samples) < 4
}

// Inconclusive records a reason why the run cannot be decided.
func (r *Run) Inconclusive(reason string) {
	r.mu.Lock()
	r.inconcl = append(r.inconcl, reason)
	r.mu.Unlock()
}

// Crumb records free text about the case about to be executed so that a fatal
// crash leaves the witness on disk.
func (r *Run) Crumb(s string) {
	if s != "" {
		r.crumbText.Store(fmt.Sprintf("batch %d case %d: %s", r.Batch, r.CaseIdx, s))
	}
	if r.crumb == nil {
		return
	}
	const size = 1 << 16
	b := []byte(fmt.Sprintf("{\"property\":%q,\"seed\":%d,\"tier\":%q,\"batch\":%d,\"nbatch\":%d,\"case\":%d,\"detail\":%q}\n", r.ID, r.Seed, r.Tier, r.Batch, r.NBatch, r.CaseIdx, s))
	if len(b) > size {
		b = b[:size]
	}
	r.crumb.Truncate(0)
	r.crumb.WriteAt(b, 0)
}

// Violate records a violation of class with a JSON-able witness. If the class
// is listed as an open finding for this property it is counted as known.
func (r *Run) Violate(class, brief string, witness interface{}) {
	r.mu.Lock()
	defer r.mu.Unlock()
	if _, ok := r.open[class]; ok {
		r.known[class]++
		if _, ok := r.knownBrief[class]; !ok {
			r.knownBrief[class] = brief
		}
		return
	}
	v := Violation{Class: class, Brief: brief}
	if r.perClass == nil {
		r.perClass = map[string]int{}
	}
	r.perClass[class]++
	if r.nviolFiles < 30 && r.perClass[class] <= 3 {
		r.nviolFiles++
		dir := filepath.Join(r.Dir, "replay", r.ID)
		os.MkdirAll(dir, 0o755)
		p := filepath.Join(dir, fmt.Sprintf("%s-s%d-b%d-c%d-%s-%d.json", r.Tier, r.Seed, r.Batch, r.CaseIdx, sanitize(class), r.nviolFiles))
		w := map[string]interface{}{
			"property": r.ID, "seed": r.Seed, "tier": r.Tier, "batch": r.Batch, "nbatch": r.NBatch,
			"case": r.CaseIdx, "class": class, "brief": brief, "witness": witness,
		}
		b, err := json.MarshalIndent(w, "", " ")
		if err != nil {
			w["witness"] = fmt.Sprintf("%+v", witness)
			b, _ = json.MarshalIndent(w, "", " ")
		}
		os.WriteFile(p, b, 0o644)
		v.Replay = p
	}
	r.violations = append(r.violations, v)
	if r.Replay {
		b, _ := json.MarshalIndent(witness, "", " ")
		fmt.Printf("replay: violation class=%s %s\n%s\n", class, brief, b)
	}
}

// NViolations returns how many (non-known) violations were recorded so far.
func (r *Run) NViolations() int {
	r.mu.Lock()
	defer r.mu.Unlock()
	return len(r.violations)
}

func sanitize(s string) string {
	return strings.Map(func(c rune) rune {
		if c >= 'a' && c <= 'z' || c >= 'A' && c <= 'Z' || c >= '0' && c <= '9' || c == '-' || c == '_' {
			return c
		}
		return '_'
	}, s)
}

// Findings parses known_findings.txt and returns open finding classes for id.
func Findings(dir, id string) map[string]string {
	open := map[string]string{}
	b, err := os.ReadFile(filepath.Join(dir, "known_findings.txt"))
	if err != nil {
		return open
	}
	for _, line := range strings.Split(string(b), "\n") {
		line = strings.TrimSpace(line)
		if !strings.HasPrefix(line, "finding:") {
			continue
		}
		rest := strings.TrimSpace(strings.TrimPrefix(line, "finding:"))
		desc := ""
		if i := strings.Index(rest, "::"); i >= 0 {
			desc = strings.TrimSpace(rest[i+2:])
			rest = rest[:i]
		}
		var prop, class string
		for _, f := range strings.Fields(rest) {
			if strings.HasPrefix(f, "property=") {
				prop = strings.TrimPrefix(f, "property=")
			}
			if strings.HasPrefix(f, "class=") {
				class = strings.TrimPrefix(f, "class=")
			}
		}
		if prop == id && class != "" {
			open[class] = desc
		}
	}
	return open
}

func newRun(m *Monitor, dir, tier string, seed int64, batch, nbatch int) *Run {
	return &Run{
		M: m, ID: m.ID, Tier: tier, Seed: seed, Batch: batch, NBatch: nbatch, Dir: dir,
		distinct: map[uint64]struct{}{}, counters: map[string]int64{},
		known: map[string]int64{}, knownBrief: map[string]string{},
		open: Findings(dir, m.ID),
	}
}

func (r *Run) state(done bool) *State {
	r.mu.Lock()
	defer r.mu.Unlock()
	st := &State{Evaluations: r.evals, Samples: r.samples, Counters: r.counters,
		Violations: r.violations, Known: r.known, KnownBrief: r.knownBrief, Inconcl: r.inconcl, Done: done}
	st.Distinct = make([]uint64, 0, len(r.distinct))
	for h := range r.distinct {
		st.Distinct = append(st.Distinct, h)
	}
	sort.Slice(st.Distinct, func(i, j int) bool { return st.Distinct[i] < st.Distinct[j] })
	return st
}

// RunChild executes one batch in this process and writes its state file.
func RunChild(m *Monitor, dir, tier string, seed int64, batch, nbatch int, statePath, crumbPath string, only int) {
	r := newRun(m, dir, tier, seed, batch, nbatch)
	r.statePath = statePath
	if crumbPath != "" {
		f, err := os.OpenFile(crumbPath, os.O_CREATE|os.O_RDWR|os.O_TRUNC, 0o644)
		if err == nil {
			r.crumb = f
		}
	}
	if only >= 0 {
		r.Replay = true
	}
	if m.Setup != nil {
		m.Setup(r)
	}
	n := m.Cases(r)
	for i := 0; i < n; i++ {
		if only >= 0 && i != only {
			continue
		}
		r.CaseIdx = i
		r.Rng = rand.New(rand.NewSource(r.CaseSeed(i)))
		r.Tick()
		r.Crumb("")
		m.Case(r, i)
	}
	if m.Teardown != nil {
		m.Teardown(r)
	}
	st := r.state(true)
	b, _ := json.Marshal(st)
	if statePath != "" {
		if err := os.WriteFile(statePath, b, 0o644); err != nil {
			fmt.Fprintln(os.Stderr, "cannot write state:", err)
			os.Exit(4)
		}
	}
	if only >= 0 {
		fmt.Printf("replay: case %d of batch %d: evaluations=%d violations=%d known=%v\n", only, batch, st.Evaluations, len(st.Violations), st.Known)
		if len(st.Violations) > 0 {
			os.Exit(1)
		}
	}
}
