package obs

import (
	"bytes"
	"encoding/json"
	"fmt"
	"os"
	"os/exec"
	"path/filepath"
	"regexp"
	"sort"
	"strings"
	"sync"
	"time"
)

// ParentOpts configures RunParent.
type ParentOpts struct {
	Dir     string // /verif
	Tier    string
	Seed    int64
	Scratch string // scratch dir for state/crumb/log files (outside /verif and /repo)
	Race    bool   // binary was built with -race
	Self    string // path of this binary
}

type childResult struct {
	batch   int
	state   *State
	exit    int
	timeout bool
	log     string
	crumb   string
	races   []raceBlock
}

type raceBlock struct {
	key   string
	text  string
	biogo bool
}

var frameRe = regexp.MustCompile(`^\s{2}(\S+)\([^)]*\)\s*$`)

func parseRaces(text string) []raceBlock {
	var out []raceBlock
	parts := strings.Split(text, "WARNING: DATA RACE")
	for _, p := range parts[1:] {
		if i := strings.Index(p, "=================="); i >= 0 {
			p = p[:i]
		}
		// split into stacks by blank lines; take outermost biogo frame per stack
		var keys []string
		biogo := false
		for _, stack := range strings.Split(p, "\n\n") {
			last := ""
			for _, line := range strings.Split(stack, "\n") {
				m := frameRe.FindStringSubmatch(line)
				if m == nil {
					continue
				}
				if strings.Contains(m[1], "github.com/biogo/biogo/") {
					last = m[1]
					biogo = true
				}
			}
			if last != "" {
				keys = append(keys, last)
			}
		}
		sort.Strings(keys)
		out = append(out, raceBlock{key: strings.Join(keys, "|"), text: "WARNING: DATA RACE" + p, biogo: biogo})
	}
	return out
}

// RunParent spawns the children, merges their states, writes the evidence file
// and prints verdict lines. It returns the process exit code.
func RunParent(m *Monitor, o ParentOpts) int {
	start := time.Now()
	os.MkdirAll(o.Scratch, 0o755)
	nb := 1
	if m.Batches != nil {
		nb = m.Batches(o.Tier)
	}
	par := m.MaxPar
	if par <= 0 {
		par = 16
	}
	timeout := 20 * time.Minute
	if m.ChildTimeout != nil {
		timeout = m.ChildTimeout(o.Tier)
	}
	results := make([]*childResult, nb)
	sem := make(chan struct{}, par)
	var wg sync.WaitGroup
	for b := 0; b < nb; b++ {
		wg.Add(1)
		sem <- struct{}{}
		go func(b int) {
			defer wg.Done()
			defer func() { <-sem }()
			results[b] = runOne(m, o, b, nb, timeout)
		}(b)
	}
	wg.Wait()

	open := Findings(o.Dir, m.ID)
	total := &State{Counters: map[string]int64{}, Known: map[string]int64{}, KnownBrief: map[string]string{}}
	distinct := map[uint64]struct{}{}
	raceSeen := map[string]int{}
	var raceBlocks int
	replayDir := filepath.Join(o.Dir, "replay", m.ID)
	addViolation := func(class, brief, replayBody, name string) {
		if _, ok := open[class]; ok {
			total.Known[class]++
			if _, ok := total.KnownBrief[class]; !ok {
				total.KnownBrief[class] = brief
			}
			return
		}
		os.MkdirAll(replayDir, 0o755)
		p := filepath.Join(replayDir, name)
		os.WriteFile(p, []byte(replayBody), 0o644)
		total.Violations = append(total.Violations, Violation{Class: class, Brief: brief, Replay: p})
	}
	for _, cr := range results {
		if cr.state != nil {
			st := cr.state
			total.Evaluations += st.Evaluations
			for _, h := range st.Distinct {
				distinct[h] = struct{}{}
			}
			for _, s := range st.Samples {
				if len(total.Samples) < 5 {
					total.Samples = append(total.Samples, s)
				}
			}
			for k, v := range st.Counters {
				total.Counters[k] += v
			}
			for k, v := range st.Known {
				total.Known[k] += v
				if _, ok := total.KnownBrief[k]; !ok {
					total.KnownBrief[k] = st.KnownBrief[k]
				}
			}
			total.Violations = append(total.Violations, st.Violations...)
			for _, s := range st.Inconcl {
				total.Inconcl = append(total.Inconcl, fmt.Sprintf("batch %d: %s", cr.batch, s))
			}
		}
		for _, rb := range cr.races {
			raceBlocks++
			raceSeen[rb.key]++
			if raceSeen[rb.key] > 1 {
				continue
			}
			if rb.biogo {
				addViolation("data-race", "race detector report with biogo frames: "+rb.key,
					cr.crumb+"\n"+rb.text, fmt.Sprintf("%s-s%d-b%d-race%d.txt", o.Tier, o.Seed, cr.batch, len(raceSeen)))
			} else {
				total.Inconcl = append(total.Inconcl, "race report without biogo frames (harness): "+firstLines(rb.text, 12))
			}
		}
		crashed := cr.state == nil || !cr.state.Done
		if crashed {
			body := cr.crumb + "\n---- child log head ----\n" + firstLinesNL(cr.log, 120) + "\n---- child log tail ----\n" + tail(cr.log, 80)
			name := fmt.Sprintf("%s-s%d-b%d-crash.txt", o.Tier, o.Seed, cr.batch)
			switch {
			case cr.timeout:
				total.Inconcl = append(total.Inconcl, fmt.Sprintf("batch %d: watchdog fired after %v (crumb: %s)", cr.batch, timeout, strings.TrimSpace(cr.crumb)))
				os.MkdirAll(replayDir, 0o755)
				os.WriteFile(filepath.Join(replayDir, "watchdog-"+name), []byte(body), 0o644)
			case strings.Contains(cr.log, "all goroutines are asleep - deadlock!"):
				addViolation("deadlock", "Go runtime: all goroutines are asleep - deadlock!", body, name)
			case (strings.Contains(cr.log, "panic:") || strings.Contains(cr.log, "fatal error:") || strings.Contains(cr.log, "[signal ")) && !strings.Contains(cr.log, "github.com/biogo/biogo/"):
				total.Inconcl = append(total.Inconcl, fmt.Sprintf("batch %d: harness crashed with no biogo frame on any stack: %s", cr.batch, firstMatch(cr.log, "panic:", "fatal error:")))
				os.MkdirAll(replayDir, 0o755)
				os.WriteFile(filepath.Join(replayDir, "harness-"+name), []byte(body), 0o644)
			case strings.Contains(cr.log, "panic:") || strings.Contains(cr.log, "fatal error:") || strings.Contains(cr.log, "[signal "):
				addViolation("crash", "child process crashed: "+firstMatch(cr.log, "panic:", "fatal error:"), body, name)
			case len(cr.races) > 0 && cr.exit == 66:
				// race exit code only; state missing means the child did not finish writing
				total.Inconcl = append(total.Inconcl, fmt.Sprintf("batch %d: exited 66 without state", cr.batch))
			default:
				total.Inconcl = append(total.Inconcl, fmt.Sprintf("batch %d: child exit %d without state: %s", cr.batch, cr.exit, tail(cr.log, 5)))
			}
		}
	}
	total.Counters["race_report_blocks"] = int64(raceBlocks)
	total.Counters["race_report_distinct"] = int64(len(raceSeen))
	total.Counters["child_processes"] = int64(nb)
	if o.Race {
		total.Counters["race_detector_enabled"] = 1
	}

	if m.Aggregate != nil {
		for i, v := range m.Aggregate(o.Tier, total.Counters) {
			addViolation(v.Class, v.Brief, v.Brief+"\n", fmt.Sprintf("%s-s%d-aggregate%d.txt", o.Tier, o.Seed, i))
		}
	}

	// floors
	minD := 2
	if m.MinDistinct != nil {
		minD = m.MinDistinct(o.Tier)
	}
	if len(distinct) < minD {
		total.Inconcl = append(total.Inconcl, fmt.Sprintf("distinct_nontrivial %d below floor %d", len(distinct), minD))
	}
	if m.Floors != nil {
		fl := m.Floors(o.Tier)
		keys := make([]string, 0, len(fl))
		for k := range fl {
			keys = append(keys, k)
		}
		sort.Strings(keys)
		for _, k := range keys {
			if total.Counters[k] < fl[k] {
				total.Inconcl = append(total.Inconcl, fmt.Sprintf("counter %s=%d below floor %d", k, total.Counters[k], fl[k]))
			}
		}
	}

	// evidence
	cov := map[string]interface{}{
		"evaluations":         total.Evaluations,
		"distinct_nontrivial": len(distinct),
		"rule":                m.Rule,
		"samples":             total.Samples,
		"observed":            total.Counters,
	}
	if len(total.Known) > 0 {
		cov["known_findings_matched"] = total.Known
	}
	if len(total.Inconcl) > 0 {
		cov["inconclusive"] = total.Inconcl
	}
	if len(total.Violations) > 0 {
		var vs []map[string]string
		for i, v := range total.Violations {
			if i >= 20 {
				break
			}
			vs = append(vs, map[string]string{"class": v.Class, "brief": v.Brief, "replay": v.Replay})
		}
		cov["violation_list"] = vs
	}
	if total.Samples == nil {
		cov["samples"] = []string{}
	}
	ev := map[string]interface{}{
		"property_id": m.ID,
		"tier":        o.Tier,
		"seed":        o.Seed,
		"level":       m.Level,
		"coverage":    cov,
		"assumptions": m.Assumptions,
		"wall_s":      time.Since(start).Seconds(),
		"violations":  len(total.Violations),
	}
	b, _ := json.MarshalIndent(ev, "", " ")
	evDir := filepath.Join(o.Dir, "evidence")
	os.MkdirAll(evDir, 0o755)
	tmp := filepath.Join(evDir, m.ID+".json.tmp")
	os.WriteFile(tmp, append(b, '\n'), 0o644)
	os.Rename(tmp, filepath.Join(evDir, m.ID+".json"))

	// verdict lines
	keys := make([]string, 0, len(open))
	for k := range open {
		keys = append(keys, k)
	}
	sort.Strings(keys)
	for _, k := range keys {
		desc := open[k]
		if i := strings.Index(desc, ". Predicate"); i > 0 {
			desc = desc[:i]
		}
		if len(desc) > 260 {
			desc = desc[:260] + "..."
		}
		if total.Known[k] > 0 {
			fmt.Printf("KNOWN-FINDING: property=%s class=%s observed=%d %s (e.g. %s)\n", m.ID, k, total.Known[k], desc, total.KnownBrief[k])
		} else {
			fmt.Printf("KNOWN-FINDING: property=%s class=%s observed=0 (listed, not met by this run) %s\n", m.ID, k, desc)
		}
	}
	ckeys := make([]string, 0, len(total.Counters))
	for k := range total.Counters {
		ckeys = append(ckeys, k)
	}
	sort.Strings(ckeys)
	var cs []string
	for _, k := range ckeys {
		cs = append(cs, fmt.Sprintf("%s=%d", k, total.Counters[k]))
	}
	fmt.Printf("observed property=%s tier=%s seed=%d evaluations=%d distinct_nontrivial=%d %s wall=%.1fs\n",
		m.ID, o.Tier, o.Seed, total.Evaluations, len(distinct), strings.Join(cs, " "), time.Since(start).Seconds())
	if len(total.Violations) > 0 {
		seen := map[string]int{}
		for _, v := range total.Violations {
			seen[v.Class]++
			if seen[v.Class] > 2 || v.Replay == "" {
				continue
			}
			fmt.Printf("VIOLATION property=%s replay=%s class=%s %s\n", m.ID, v.Replay, v.Class, v.Brief)
		}
		for k, n := range seen {
			fmt.Printf("violations property=%s class=%s count=%d\n", m.ID, k, n)
		}
		return 1
	}
	if len(total.Inconcl) > 0 {
		for i, s := range total.Inconcl {
			if i >= 10 {
				break
			}
			fmt.Printf("INCONCLUSIVE property=%s %s\n", m.ID, s)
		}
		return 3
	}
	fmt.Printf("HELD property=%s on everything observed\n", m.ID)
	return 0
}

func runOne(m *Monitor, o ParentOpts, b, nb int, timeout time.Duration) *childResult {
	cr := &childResult{batch: b}
	statePath := filepath.Join(o.Scratch, fmt.Sprintf("%s.%d.state", m.ID, b))
	crumbPath := filepath.Join(o.Scratch, fmt.Sprintf("%s.%d.crumb", m.ID, b))
	logPath := filepath.Join(o.Scratch, fmt.Sprintf("%s.%d.log", m.ID, b))
	racePath := filepath.Join(o.Scratch, fmt.Sprintf("%s.%d.race", m.ID, b))
	logf, _ := os.Create(logPath)
	cmd := exec.Command("timeout", "-s", "QUIT", "-k", "10", fmt.Sprintf("%d", int(timeout.Seconds())),
		o.Self, m.ID, "-child", "-tier", o.Tier, "-seed", fmt.Sprint(o.Seed), "-batch", fmt.Sprint(b), "-nbatch", fmt.Sprint(nb),
		"-state", statePath, "-crumb", crumbPath, "-dir", o.Dir)
	cmd.Stdout = logf
	cmd.Stderr = logf
	cmd.Env = append(os.Environ(), m.Env...)
	cmd.Env = append(cmd.Env, "VERIF_SCRATCH="+o.Scratch)
	if o.Race {
		cmd.Env = append(cmd.Env, "GORACE=halt_on_error=0 log_path="+racePath)
	}
	err := cmd.Run()
	logf.Close()
	if err != nil {
		if ee, ok := err.(*exec.ExitError); ok {
			cr.exit = ee.ExitCode()
		} else {
			cr.exit = -1
		}
	}
	if lb, err := os.ReadFile(logPath); err == nil {
		cr.log = string(lb)
	}
	if cr.exit == 124 || cr.exit == 137 || strings.Contains(cr.log, "SIGQUIT: quit") {
		cr.timeout = true
	}
	if cb, err := os.ReadFile(crumbPath); err == nil {
		cr.crumb = string(bytes.TrimRight(cb, "\x00"))
	}
	if sb, err := os.ReadFile(statePath); err == nil {
		var st State
		if json.Unmarshal(sb, &st) == nil {
			cr.state = &st
		}
	}
	if o.Race {
		matches, _ := filepath.Glob(racePath + ".*")
		for _, p := range matches {
			if rb, err := os.ReadFile(p); err == nil {
				cr.races = append(cr.races, parseRaces(string(rb))...)
			}
			os.Remove(p)
		}
		cr.races = append(cr.races, parseRaces(cr.log)...)
	}
	os.Remove(statePath)
	os.Remove(crumbPath)
	os.Remove(logPath)
	return cr
}

func tail(s string, n int) string {
	lines := strings.Split(s, "\n")
	if len(lines) > n {
		lines = lines[len(lines)-n:]
	}
	return strings.Join(lines, "\n")
}

func firstLinesNL(s string, n int) string {
	lines := strings.Split(s, "\n")
	if len(lines) > n {
		lines = lines[:n]
	}
	return strings.Join(lines, "\n")
}

func firstLines(s string, n int) string {
	lines := strings.Split(s, "\n")
	if len(lines) > n {
		lines = lines[:n]
	}
	return strings.Join(lines, " / ")
}

func firstMatch(s string, pats ...string) string {
	for _, line := range strings.Split(s, "\n") {
		for _, p := range pats {
			if strings.Contains(line, p) {
				return strings.TrimSpace(line)
			}
		}
	}
	return ""
}
