package main

import (
	"fmt"
	"math"
	"reflect"
	"sort"
	"strings"
	"sync"

	"github.com/biogo/biogo/alphabet"
	"github.com/biogo/biogo/feat"
	"github.com/biogo/biogo/index/kmerindex"
	"github.com/biogo/biogo/seq/linear"

	"verif/harness/internal/obs"
)

// C10 — k-mer index exactness against a string-scanning reference.

const c10Block = 500

func c10ExhaustiveTotal(maxL int) int {
	n, p := 0, 625 // 5^4
	for L := 5; L <= maxL; L++ {
		p *= 5
		n += p
	}
	return n
}

func c10MaxL(r *obs.Run) int { return r.Pick(7, 9) }

func init() {
	register(&obs.Monitor{
		ID:    "C10",
		Level: "exploration",
		Rule: "exhaustive: every sequence over {a,c,g,t,n} of length 5..7 (quick) / 5..9 (thorough) at k=4 with all 256 words and all sub-ranges; random: sequences of 5..5000 letters over acgtACGT (DNA, RNA, a case-sensitive custom alphabet) " +
			"with runs of non-alphabet bytes, k=4..10 (thorough ..12), random sub-ranges and words; four more alphabets list their letters in another order (TGCA, agct, tcga); the index also walks a second sequence (reversed, rotated, other first letters; of exactly k letters, shorter, and several times longer; with a callback that queries the index, starts a nested walk, or panics); a second and a third index of the same k are alive in a third of the cases, and 6 goroutines build indexes of their own in an eighth; the index-free helpers are tried at every k up to MaxKmerLen; a hostile caller overwrites and appends to a quarter of the answers before every present word is queried again; oracle = string scanning. Non-trivial = at least one valid window and (for random cases) at least one invalid letter or repeated word; distinct = sequence text + k",
		Batches: func(t string) int {
			if t == "thorough" {
				return 16
			}
			return 8
		},
		Cases: func(r *obs.Run) int {
			blocks := (c10ExhaustiveTotal(c10MaxL(r)) + c10Block - 1) / c10Block
			return r.Share(blocks) + r.Share(r.Pick(4000, 40000))
		},
		Case:        c10Case,
		MinDistinct: func(t string) int { return 50000 },
		Floors: func(string) map[string]int64 {
			return map[string]int64{"words_queried": 1000000, "subranges_iterated": 100000, "windows_visited": 1000000, "absent_words_queried": 100000, "random_sequences": 1000}
		},
		Assumptions: []string{
			"positions are indexes into the letter slice (sequence offset 0)",
			"a sub-range shorter than k may return an error or visit nothing; both accepted",
			"words handed to KmerOf/KmerPositionsString are ASCII",
		},
	})
}

type c10w struct {
	Seq   string      `json:"seq"`
	Alpha string      `json:"alphabet"`
	K     int         `json:"k"`
	What  string      `json:"what"`
	Got   interface{} `json:"got,omitempty"`
	Want  interface{} `json:"want,omitempty"`
}

// the two custom alphabets are built on first use, inside a case: a library change that makes a constructor refuse (or
// panic on) these valid definitions must show as that case's violation, not as a crash of the whole harness at start-up
var c10Cased, c10UpperDef alphabet.Complementor
var c10CustomErr string

func c10Custom() string {
	if c10Cased != nil || c10CustomErr != "" {
		return c10CustomErr
	}
	defer func() {
		if p := recover(); p != nil {
			c10CustomErr = fmt.Sprintf("constructing a valid four-letter alphabet panicked: %v", p)
		}
	}()
	mk := func(letters, ps, pc string, cased bool) alphabet.Complementor {
		pr, err := alphabet.NewPairing(ps, pc)
		if err != nil {
			c10CustomErr = fmt.Sprintf("NewPairing(%q,%q): %v", ps, pc, err)
			return nil
		}
		c, err := alphabet.NewComplementor(letters, feat.DNA, pr, '-', 'N', cased)
		if err != nil {
			c10CustomErr = fmt.Sprintf("NewComplementor(%q, pairing %q<->%q, case sensitive %v): %v", letters, ps, pc, cased, err)
			return nil
		}
		return c
	}
	a, b := mk("ACGT", "ACGT", "TGCA", alphabet.CaseSensitive), mk("ACGT", "ACGTacgt", "TGCAtgca", !alphabet.CaseSensitive)
	// letters listed in an order that is not their byte order: a letter's code is its place in the definition
	// (Letter / IndexOf), whatever the bytes are. A/T keep codes 0/3 and C/G 1/2, so the GC fraction and the 3-i
	// complement mean what they mean for ACGT
	more := []alphabet.Complementor{
		mk("TGCA", "ACGTacgt", "TGCAtgca", !alphabet.CaseSensitive),
		mk("TGCA", "ACGT", "TGCA", alphabet.CaseSensitive),
		mk("agct", "ACGTacgt", "TGCAtgca", !alphabet.CaseSensitive),
		mk("tcga", "acgt", "tgca", alphabet.CaseSensitive),
	}
	if c10CustomErr == "" {
		c10Cased, c10UpperDef = a, b
		c10Alphas[2].a, c10Alphas[3].a = a, b
		for i, m := range more {
			c10Alphas[4+i].a = m
		}
	}
	return c10CustomErr
}

type c10alpha struct {
	name    string
	a       alphabet.Alphabet
	letters string // index order, canonical case
	cased   bool
}

var c10Alphas = []c10alpha{
	{"DNA", alphabet.DNA, "acgt", false},
	{"RNA", alphabet.RNA, "acgu", false},
	{"cased-ACGT", nil, "ACGT", true},               // filled in by c10Custom
	{"uncased-defined-as-ACGT", nil, "acgt", false}, // a case-insensitive alphabet whose definition is written in upper case
	{"uncased-defined-as-TGCA", nil, "tgca", false},
	{"cased-TGCA", nil, "TGCA", true},
	{"uncased-defined-as-agct", nil, "agct", false},
	{"cased-tcga", nil, "tcga", true},
}

func (a c10alpha) code(b byte) int {
	if !a.cased && b >= 'A' && b <= 'Z' {
		b += 32
	}
	return strings.IndexByte(a.letters, b)
}

// refWindows returns for every position whether a valid k-window starts there and its word value.
func c10Ref(a c10alpha, s []byte, k int) (valid []bool, word []int) {
	n := len(s) - k + 1
	if n < 0 {
		n = 0
	}
	valid = make([]bool, n)
	word = make([]int, n)
	for p := 0; p < n; p++ {
		w, ok := 0, true
		for j := 0; j < k; j++ {
			c := a.code(s[p+j])
			if c < 0 {
				ok = false
				break
			}
			w = w<<2 | c
		}
		valid[p], word[p] = ok, w
	}
	return
}

func c10Text(a c10alpha, w, k int) string {
	b := make([]byte, k)
	for i := k - 1; i >= 0; i-- {
		b[i] = a.letters[w&3]
		w >>= 2
	}
	return string(b)
}

func c10Check(r *obs.Run, a c10alpha, s []byte, k int, exhaustive bool) {
	w := c10w{Seq: string(s), Alpha: a.name, K: k}
	fail := func(class, what string, got, want interface{}) {
		ww := w
		ww.What, ww.Got, ww.Want = what, got, want
		r.Violate(class, fmt.Sprintf("%s k=%d seq=%.40q: %s", a.name, k, s, what), ww)
	}
	sq := linear.NewSeq("s", alphabet.BytesToLetters(append([]byte(nil), s...)), a.a)
	ki, err := kmerindex.New(k, sq)
	if err != nil {
		fail("new-error", "New returned "+err.Error(), nil, nil)
		return
	}
	valid, word := c10Ref(a, s, k)
	refPos := map[int][]int{}
	nvalid := 0
	for p, ok := range valid {
		if ok {
			refPos[word[p]] = append(refPos[word[p]], p)
			nvalid++
		}
	}
	cx := &c10ctx{r: r, a: a, k: k, s: s, sq: sq, ki: ki, valid: valid, word: word, refPos: refPos, nvalid: nvalid, fail: fail}
	// now and then a second index of the same k over other letters is made here and stays alive (unbuilt) through all of
	// the following; it is built, and a third one made, at the end. Independent indexes share nothing
	var second *c10two
	if (!exhaustive && r.Rng.Intn(3+3*(k/11)) == 0) || (exhaustive && r.Rng.Intn(64) == 0) {
		second = cx.secondIndex()
	}
	// pre-build frequency table
	freq, ok := ki.KmerFrequencies()
	if !ok {
		fail("frequencies", "KmerFrequencies before Build returned false", nil, nil)
	}
	if len(freq) != len(refPos) {
		fail("frequencies", "number of words with non-zero frequency differs", len(freq), len(refPos))
	}
	for wd, ps := range refPos {
		if freq[kmerindex.Kmer(wd)] != len(ps) {
			fail("frequencies", fmt.Sprintf("frequency of %s", c10Text(a, wd, k)), freq[kmerindex.Kmer(wd)], len(ps))
		}
	}
	// the relative table is the same counts over the sequence length
	if nf, ok := ki.NormalisedKmerFrequencies(); !ok || len(nf) != len(refPos) {
		fail("frequencies", "NormalisedKmerFrequencies before Build", []interface{}{ok, len(nf)}, []interface{}{true, len(refPos)})
	} else {
		for wd, ps := range refPos {
			if got := nf[kmerindex.Kmer(wd)] * float64(len(s)); math.Abs(got-float64(len(ps))) > 1e-6 {
				fail("frequencies", fmt.Sprintf("normalised frequency of %s times the sequence length", c10Text(a, wd, k)), got, len(ps))
				break
			}
		}
	}
	// the first answer is the caller's: entries are dropped and zeroed, then the table is asked for again
	if len(freq) > 0 && r.Rng.Intn(3) == 0 {
		n := 0
		for km := range freq {
			if n%3 == 0 {
				delete(freq, km)
			} else if n%3 == 1 {
				freq[km] = 0
			}
			n++
		}
		freq2, ok := ki.KmerFrequencies()
		if !ok || len(freq2) != len(refPos) {
			fail("frequencies", "KmerFrequencies asked a second time, after the caller edited the first answer", []interface{}{ok, len(freq2)}, []interface{}{true, len(refPos)})
		}
		for wd, ps := range refPos {
			if freq2[kmerindex.Kmer(wd)] != len(ps) {
				fail("frequencies", fmt.Sprintf("frequency of %s on a second call, after the caller edited the first answer", c10Text(a, wd, k)), freq2[kmerindex.Kmer(wd)], len(ps))
				break
			}
		}
	}
	if !exhaustive && r.Rng.Intn(2) == 0 {
		cx.otherLengths("index not built yet")
	}
	ki.Build()
	if f, ok := ki.KmerFrequencies(); ok || f != nil {
		fail("frequencies", "KmerFrequencies after Build did not return nil,false", nil, nil)
	}
	if f, ok := ki.NormalisedKmerFrequencies(); ok || f != nil {
		fail("frequencies", "NormalisedKmerFrequencies after Build did not return nil,false", nil, nil)
	}
	if ok, found := ki.Check(); !ok || found != nvalid {
		fail("check", "Check()", []interface{}{ok, found}, []interface{}{true, nvalid})
	}
	// the raw tables (copies, by their documentation): finger[w-1]..finger[w] delimits the positions of word w in pos;
	// FingerAt / PosAt read the same tables; then both copies are overwritten
	{
		fg, ps := ki.Finger(), ki.Pos()
		ok := true
		for wd, want := range refPos {
			lo := 0
			if wd > 0 {
				lo = int(fg[wd-1])
			}
			hi := int(fg[wd])
			if lo > hi || hi > len(ps) {
				ok = false
			} else {
				g := append([]int(nil), ps[lo:hi]...)
				sort.Ints(g)
				ok = reflect.DeepEqual(g, want) || (len(g) == 0 && len(want) == 0)
			}
			if ok && ki.FingerAt(wd) != int(fg[wd]) {
				ok = false
			}
			if !ok {
				fail("positions", "Finger()/Pos() tables for "+c10Text(a, wd, k), []interface{}{lo, hi}, want)
				break
			}
		}
		for i := 0; ok && i < len(ps) && i < 50; i++ {
			if ki.PosAt(i) != ps[i] {
				fail("positions", fmt.Sprintf("PosAt(%d)", i), ki.PosAt(i), ps[i])
				break
			}
		}
		for i := range fg {
			fg[i] = 0
		}
		for i := range ps {
			ps[i] = -3
		}
	}
	nwords := 1 << (2 * uint(k))
	scribbled := 0
	query := func(wd int) {
		want := refPos[wd]
		got, err := ki.KmerPositions(kmerindex.Kmer(wd))
		if err != nil {
			fail("positions", "KmerPositions error "+err.Error(), nil, nil)
			return
		}
		g := append([]int(nil), got...)
		sort.Ints(g)
		if len(g) != len(want) || (len(want) > 0 && !reflect.DeepEqual(g, want)) {
			fail("positions", "KmerPositions("+c10Text(a, wd, k)+")", got, want)
		}
		r.Count("words_queried", 1)
		if len(want) == 0 {
			r.Count("absent_words_queried", 1)
		}
		// a hostile caller: the answer is the caller's to overwrite and to append to; later answers (for this
		// word and for its neighbours in the table) must not change because of it
		if len(got) > 0 && r.Rng.Intn(4) == 0 {
			for j := range got {
				got[j] = -7 - j
			}
			got = append(got, -9, -9, -9)
			_ = got
			scribbled++
			r.Count("answers_overwritten_by_caller", 1)
		}
	}
	queryText := func(wd int) {
		text := c10Text(a, wd, k)
		if !a.cased && r.Rng.Intn(2) == 0 {
			text = strings.ToUpper(text)
		}
		got, err := ki.KmerPositionsString(text)
		if err != nil {
			fail("positions", "KmerPositionsString("+text+") error "+err.Error(), nil, nil)
			return
		}
		g := append([]int(nil), got...)
		sort.Ints(g)
		if want := refPos[wd]; len(g) != len(want) || (len(want) > 0 && !reflect.DeepEqual(g, want)) {
			fail("positions", "KmerPositionsString("+text+")", got, want)
		}
	}
	if k <= 6 || exhaustive {
		for wd := 0; wd < nwords; wd++ {
			query(wd)
		}
		for j := 0; j < 4; j++ {
			queryText(r.Rng.Intn(nwords))
		}
	} else {
		for wd := range refPos {
			query(wd)
		}
		for j := 0; j < 300; j++ {
			query(r.Rng.Intn(nwords))
		}
		for j := 0; j < 8; j++ {
			queryText(r.Rng.Intn(nwords))
		}
	}
	for wd := range refPos {
		if r.Rng.Intn(8) == 0 {
			queryText(wd)
		}
	}
	if !exhaustive || r.Rng.Intn(16) == 0 {
		// map views
		m, ok := ki.KmerIndex()
		if !ok || len(m) != len(refPos) {
			fail("index-map", "KmerIndex size", len(m), len(refPos))
		}
		sm, ok := ki.StringKmerIndex()
		if !ok || len(sm) != len(refPos) {
			fail("index-map", "StringKmerIndex size", len(sm), len(refPos))
		}
		for wd, want := range refPos {
			g := append([]int(nil), m[kmerindex.Kmer(wd)]...)
			sort.Ints(g)
			if !reflect.DeepEqual(g, want) {
				fail("index-map", "KmerIndex["+c10Text(a, wd, k)+"]", g, want)
			}
			g = append([]int(nil), sm[c10Text(a, wd, k)]...)
			sort.Ints(g)
			if !reflect.DeepEqual(g, want) {
				fail("index-map", "StringKmerIndex["+c10Text(a, wd, k)+"]", g, want)
			}
		}
		// appending to one entry is the caller's right too: no other entry of the same answer may notice
		for _, ps := range m {
			if r.Rng.Intn(3) == 0 {
				_ = append(ps, -6, -6)
			}
		}
		for _, ps := range sm {
			if r.Rng.Intn(3) == 0 {
				_ = append(ps, -6, -6)
			}
		}
		for wd, want := range refPos {
			g := append([]int(nil), m[kmerindex.Kmer(wd)]...)
			sort.Ints(g)
			if !reflect.DeepEqual(g, want) {
				fail("index-map", "KmerIndex["+c10Text(a, wd, k)+"] after the caller appended to other entries of the same answer", g, want)
			}
			g = append([]int(nil), sm[c10Text(a, wd, k)]...)
			sort.Ints(g)
			if !reflect.DeepEqual(g, want) {
				fail("index-map", "StringKmerIndex["+c10Text(a, wd, k)+"] after the caller appended to other entries of the same answer", g, want)
			}
		}
		r.Count("index_maps_appended_to", 1)
		for _, ps := range m { // the maps are the caller's as well
			if r.Rng.Intn(3) == 0 {
				for j := range ps {
					ps[j] = -5
				}
				ps = append(ps, -6, -6)
				_ = ps
				scribbled++
			}
		}
		for _, ps := range sm {
			if r.Rng.Intn(3) == 0 {
				for j := range ps {
					ps[j] = -5
				}
				scribbled++
			}
		}
		for wd := range refPos { // ... entries too
			if r.Rng.Intn(4) == 0 {
				delete(m, kmerindex.Kmer(wd))
				delete(sm, c10Text(a, wd, k))
				scribbled++
			}
		}
		// asked again, the index answers from its own state
		m2, ok := ki.KmerIndex()
		if !ok || len(m2) != len(refPos) {
			fail("index-map", "KmerIndex size on a second call, after the caller edited the first answer", len(m2), len(refPos))
		}
		sm2, ok := ki.StringKmerIndex()
		if !ok || len(sm2) != len(refPos) {
			fail("index-map", "StringKmerIndex size on a second call, after the caller edited the first answer", len(sm2), len(refPos))
		}
		for wd, want := range refPos {
			g := append([]int(nil), m2[kmerindex.Kmer(wd)]...)
			sort.Ints(g)
			if !reflect.DeepEqual(g, want) {
				fail("index-map", "KmerIndex["+c10Text(a, wd, k)+"] on a second call, after the caller edited the first answer", g, want)
			}
			g = append([]int(nil), sm2[c10Text(a, wd, k)]...)
			sort.Ints(g)
			if !reflect.DeepEqual(g, want) {
				fail("index-map", "StringKmerIndex["+c10Text(a, wd, k)+"] on a second call, after the caller edited the first answer", g, want)
			}
		}
	}
	if scribbled > 0 { // every present word again, after the caller overwrote some of the earlier answers
		for wd := range refPos {
			query(wd)
		}
	}
	// several readers of the one built index at the same time (each asks for words of its own): formatting, encoding,
	// positions by word and by text, the maps, Check and walks over a sequence of the reader's own are read-only questions,
	// so every answer is the one a single reader gets
	if !exhaustive && len(refPos) > 0 && r.Rng.Intn(4) == 0 {
		var words []int
		for wd := range refPos {
			words = append(words, wd)
		}
		sort.Ints(words)
		const readers = 6
		type bad struct{ what, got, want string }
		bads := make([]*bad, readers)
		// every reader also walks a sequence of its own over sub-ranges of its own (drawn here, on the main goroutine)
		type ownWalk struct {
			sq          *linear.Seq
			valid       []bool
			word        []int
			start, end  []int
			upper, asks []bool
		}
		own := make([]ownWalk, readers)
		for g := range own {
			o := c10Near(r.Rng, a, s, k, 200)
			if r.Rng.Intn(2) == 0 {
				o = c10Fresh(r.Rng, a, k+1+r.Rng.Intn(200), 30)
			}
			ow := ownWalk{sq: linear.NewSeq("own", alphabet.BytesToLetters(append([]byte(nil), o...)), a.a)}
			ow.valid, ow.word = c10Ref(a, o, k)
			for rep := 0; rep < 40; rep++ {
				st := r.Rng.Intn(len(o) - k + 1)
				ow.start, ow.end = append(ow.start, st), append(ow.end, st+k+r.Rng.Intn(len(o)-st-k+1))
				ow.upper, ow.asks = append(ow.upper, !a.cased && r.Rng.Intn(2) == 0), append(ow.asks, r.Rng.Intn(20) == 0)
			}
			own[g] = ow
		}
		var wg sync.WaitGroup
		start := make(chan struct{})
		for g := 0; g < readers; g++ {
			g := g
			wg.Add(1)
			go func() {
				defer wg.Done()
				defer func() {
					if p := recover(); p != nil && bads[g] == nil {
						bads[g] = &bad{"panic", fmt.Sprint(p), "an answer"}
					}
				}()
				<-start
				for rep := 0; rep < 40 && bads[g] == nil; rep++ {
					wd := words[(g*7+rep*13)%len(words)]
					text := c10Text(a, wd, k)
					if got := ki.Format(kmerindex.Kmer(wd)); got != text {
						bads[g] = &bad{"Format", got, text}
					}
					got, err := ki.KmerPositions(kmerindex.Kmer(wd))
					gs := append([]int(nil), got...)
					sort.Ints(gs)
					if err != nil || !reflect.DeepEqual(gs, refPos[wd]) {
						bads[g] = &bad{"KmerPositions(" + text + ")", fmt.Sprint(got, err), fmt.Sprint(refPos[wd])}
					}
					ask := text
					if own[g].upper[rep] {
						ask = strings.ToUpper(text)
					}
					got, err = ki.KmerPositionsString(ask)
					if gs = append(gs[:0], got...); err == nil {
						sort.Ints(gs)
					}
					if err != nil || !reflect.DeepEqual(gs, refPos[wd]) {
						bads[g] = &bad{"KmerPositionsString(" + ask + ")", fmt.Sprint(got, err), fmt.Sprint(refPos[wd])}
					}
					if km, err := ki.KmerOf(ask); err != nil || int(km) != wd {
						bads[g] = &bad{"KmerOf(" + ask + ")", fmt.Sprint(km, err), fmt.Sprint(wd)}
					}
					{
						ow := own[g]
						var pos, kms, wp, wk []int
						st, en := ow.start[rep], ow.end[rep]
						err := ki.ForEachKmerOf(ow.sq, st, en, func(_ *kmerindex.Index, p, km int) {
							pos = append(pos, p)
							kms = append(kms, km)
						})
						for p := st; p+k <= en; p++ {
							if ow.valid[p] {
								wp = append(wp, p)
								wk = append(wk, ow.word[p])
							}
						}
						if err != nil || !reflect.DeepEqual(pos, wp) || !reflect.DeepEqual(kms, wk) {
							bads[g] = &bad{fmt.Sprintf("ForEachKmerOf over [%d,%d) of the reader's own sequence %.40q", st, en, alphabet.LettersToBytes(ow.sq.Seq)), fmt.Sprint(pos, kms, err), fmt.Sprint(wp, wk)}
						}
					}
					if own[g].asks[rep] {
						if ok, found := ki.Check(); !ok || found != nvalid {
							bads[g] = &bad{"Check()", fmt.Sprint(ok, found), fmt.Sprint(true, nvalid)}
						}
						m, ok := ki.KmerIndex()
						if !ok || len(m) != len(refPos) {
							bads[g] = &bad{"KmerIndex size", fmt.Sprint(len(m)), fmt.Sprint(len(refPos))}
						}
						for _, w2 := range words {
							if len(m[kmerindex.Kmer(w2)]) != len(refPos[w2]) && bads[g] == nil {
								bads[g] = &bad{"KmerIndex entry of " + c10Text(a, w2, k), fmt.Sprint(m[kmerindex.Kmer(w2)]), fmt.Sprint(refPos[w2])}
							}
						}
					}
					if rep%10 == g%10 {
						sm, ok := ki.StringKmerIndex()
						if !ok || len(sm) != len(refPos) {
							bads[g] = &bad{"StringKmerIndex size", fmt.Sprint(len(sm)), fmt.Sprint(len(refPos))}
						}
						for _, w2 := range words {
							if _, present := sm[c10Text(a, w2, k)]; !present && bads[g] == nil {
								bads[g] = &bad{"StringKmerIndex key", "no entry for " + c10Text(a, w2, k), "an entry"}
							}
						}
					}
				}
			}()
		}
		close(start)
		wg.Wait()
		r.Count("indexes_read_by_several_goroutines", 1)
		for g, b := range bads {
			if b != nil {
				fail("concurrent-readers", fmt.Sprintf("with %d goroutines reading the built index at the same time, reader %d: %s", readers, g, b.what), b.got, b.want)
				break
			}
		}
	}
	// sub-range iteration
	// iterSeq, iterValid, iterWord: the sequence being walked - the indexed one first, then another one
	iterSeq, iterValid, iterWord, iterWhat := sq, valid, word, ""
	iter := func(start, end int) {
		sq, valid, word := iterSeq, iterValid, iterWord
		var pos, kms []int
		err := ki.ForEachKmerOf(sq, start, end, func(_ *kmerindex.Index, p, km int) {
			pos = append(pos, p)
			kms = append(kms, km)
		})
		r.Count("subranges_iterated", 1)
		r.Count("windows_visited", int64(len(pos)))
		if end-start < k {
			if len(pos) != 0 {
				fail("iterate", fmt.Sprintf("ForEachKmerOf%s[%d,%d) shorter than k visited windows", iterWhat, start, end), pos, nil)
			}
			return
		}
		if err != nil {
			fail("iterate", fmt.Sprintf("ForEachKmerOf%s[%d,%d) error %v", iterWhat, start, end, err), nil, nil)
			return
		}
		var wp, wk []int
		for p := start; p+k <= end; p++ {
			if valid[p] {
				wp = append(wp, p)
				wk = append(wk, word[p])
			}
		}
		if !reflect.DeepEqual(pos, wp) || !reflect.DeepEqual(kms, wk) {
			fail("iterate", fmt.Sprintf("ForEachKmerOf%s[%d,%d) visits", iterWhat, start, end), map[string]interface{}{"pos": pos, "kmer": kms}, map[string]interface{}{"pos": wp, "kmer": wk})
		}
	}
	n := len(s)
	if n <= 9 {
		for st := 0; st <= n; st++ {
			for en := st; en <= n; en++ {
				iter(st, en)
			}
		}
	} else {
		iter(0, n)
		for j := 0; j < 24; j++ {
			st := r.Rng.Intn(n - k + 1)
			en := st + r.Rng.Intn(n-st+1)
			if j%3 == 0 {
				en = st + k + r.Rng.Intn(minInt(n-st-k+1, 12))
			}
			iter(st, en)
		}
	}
	// the same index walking a sequence other than the one it was built on (as the PALS filter does with its query)
	if !exhaustive || r.Rng.Intn(8) == 0 {
		o := append([]byte(nil), s...)
		switch r.Rng.Intn(3) {
		case 0: // reversed
			for i, j := 0, len(o)-1; i < j; i, j = i+1, j-1 {
				o[i], o[j] = o[j], o[i]
			}
		case 1: // other letters at the start, one letter more or less
			for i := 0; i < len(o) && i < k; i++ {
				o[i] = a.letters[r.Rng.Intn(4)]
			}
			if r.Rng.Intn(2) == 0 {
				o = append(o, a.letters[r.Rng.Intn(4)])
			} else if len(o) > k+1 {
				o = o[:len(o)-1]
			}
		default: // rotated by one
			o = append(o[1:], o[0])
		}
		iterSeq = linear.NewSeq("other", alphabet.BytesToLetters(append([]byte(nil), o...)), a.a)
		iterValid, iterWord = c10Ref(a, o, k)
		iterWhat = fmt.Sprintf(" over another sequence %.40q", o)
		r.Count("other_sequences_iterated", 1)
		m := len(o)
		if m <= 9 {
			for st := 0; st <= m; st++ {
				for en := st; en <= m; en++ {
					iter(st, en)
				}
			}
		} else {
			iter(0, m)
			for j := 0; j < 8; j++ {
				st := r.Rng.Intn(m - k + 1)
				if j%2 == 0 {
					st = r.Rng.Intn(minInt(k, m-k+1)) // starts inside the first k letters
				}
				iter(st, st+r.Rng.Intn(m-st+1))
			}
		}
	}
	if !exhaustive || r.Rng.Intn(32) == 0 {
		cx.otherLengths("built index")
		cx.reentrant()
	}
	cx.secondIndexFinish(second)
	if !exhaustive && k <= 10 && r.Rng.Intn(8) == 0 {
		cx.builders()
	}
	// the same letters held by a sequence that does not start at 0: occurrence counts are what they were, and the
	// positions are the same ones either as indices into the letters or shifted by the sequence's offset throughout
	if !exhaustive && r.Rng.Intn(4) == 0 {
		off := 1 + r.Rng.Intn(40)
		if r.Rng.Intn(2) == 0 {
			off = -off
		}
		osq := linear.NewSeq("s", alphabet.BytesToLetters(append([]byte(nil), s...)), a.a)
		osq.Offset = off
		oki, err := kmerindex.New(k, osq)
		if err != nil {
			fail("new-error", fmt.Sprintf("New on the sequence at offset %d returned %v", off, err), nil, nil)
		} else {
			if f, ok := oki.KmerFrequencies(); !ok || len(f) != len(refPos) {
				fail("frequencies", fmt.Sprintf("sequence at offset %d: %d words with non-zero frequency", off, len(f)), len(f), len(refPos))
			} else {
				for wd, ps := range refPos {
					if f[kmerindex.Kmer(wd)] != len(ps) {
						fail("frequencies", fmt.Sprintf("sequence at offset %d: frequency of %s", off, c10Text(a, wd, k)), f[kmerindex.Kmer(wd)], len(ps))
						break
					}
				}
			}
			oki.Build()
			shift := -1 // unknown yet: 0 (indices into the letters) or off (sequence coordinates)
			for wd, want := range refPos {
				got, err := oki.KmerPositions(kmerindex.Kmer(wd))
				g := append([]int(nil), got...)
				sort.Ints(g)
				okAt := func(sh int) bool {
					if err != nil || len(g) != len(want) {
						return false
					}
					for j := range g {
						if g[j]-sh != want[j] {
							return false
						}
					}
					return true
				}
				switch {
				case shift == -1 && okAt(0):
					shift = 0
				case shift == -1 && okAt(off):
					shift = off
				case shift != -1 && okAt(shift):
				default:
					fail("positions", fmt.Sprintf("sequence at offset %d: KmerPositions(%s)", off, c10Text(a, wd, k)), got, want)
					shift = -2
				}
				if shift == -2 {
					break
				}
			}
			r.Count("indexed_sequences_with_an_offset", 1)
		}
	}
	// encoding helpers
	lookUp := a.a.LetterIndex()
	for j := 0; j < 6; j++ {
		wd := r.Rng.Intn(nwords)
		text := c10Text(a, wd, k)
		if got := ki.Format(kmerindex.Kmer(wd)); got != text {
			fail("format", "Format", got, text)
		}
		if got, err := kmerindex.Format(kmerindex.Kmer(wd), k, a.a); err != nil || got != text {
			fail("format", "package Format", got, text)
		}
		if got, err := ki.KmerOf(text); err != nil || int(got) != wd {
			fail("kmerof", "KmerOf("+text+")", got, wd)
		}
		if got, err := kmerindex.KmerOf(k, lookUp, text); err != nil || int(got) != wd {
			fail("kmerof", "package KmerOf("+text+")", got, wd)
		}
		gc := 0
		for _, c := range strings.ToLower(text) {
			if c == 'g' || c == 'c' {
				gc++
			}
		}
		if got := ki.GCof(kmerindex.Kmer(wd)); got != float64(gc)/float64(k) {
			fail("gc", "GCof("+text+")", got, float64(gc)/float64(k))
		}
		// reverse complement as a string operation
		rc := make([]byte, k)
		for x := 0; x < k; x++ {
			c := a.code(text[k-1-x])
			rc[x] = a.letters[3-c]
			if cmp, ok := a.a.(alphabet.Complementor); ok { // the string operation: the alphabet's own pairing (the same letter for every alphabet used here)
				l, _ := cmp.Complement(alphabet.Letter(text[k-1-x]))
				rc[x] = byte(l)
			}
		}
		if got := ki.Format(ki.ComplementOf(kmerindex.Kmer(wd))); got != string(rc) {
			fail("revcomp", "ComplementOf("+text+")", got, string(rc))
		}
		if got := kmerindex.ComplementOf(k, kmerindex.Kmer(wd)); got != ki.ComplementOf(kmerindex.Kmer(wd)) {
			fail("revcomp", "package ComplementOf differs from method", got, nil)
		}
	}
	if _, err := ki.KmerOf(c10Text(a, 0, k) + "a"); err == nil {
		fail("kmerof", "KmerOf accepted a word of length k+1", nil, nil)
	}
	for _, n := range []int{0, 1, k - 1, k + 1, 2 * k} { // a k-mer has k letters: both copies of KmerOf say so
		wd := strings.Repeat("a", n)
		if a.cased {
			wd = strings.Repeat(a.letters[:1], n)
		}
		if _, err := ki.KmerOf(wd); err == nil {
			fail("kmerof", fmt.Sprintf("KmerOf accepted a word of %d letters for k=%d", n, k), wd, nil)
		}
		if _, err := kmerindex.KmerOf(k, lookUp, wd); err == nil {
			fail("kmerof", fmt.Sprintf("package KmerOf accepted a word of %d letters for k=%d", n, k), wd, nil)
		}
	}
	if _, err := kmerindex.KmerOf(k, lookUp, string(append([]byte(c10Text(a, 0, k))[:k-1], 'n'))); err == nil {
		fail("kmerof", "package KmerOf accepted a word with an invalid letter", nil, nil)
	}
	bad := []byte(c10Text(a, r.Rng.Intn(nwords), k))
	bad[r.Rng.Intn(k)] = 'n'
	if _, err := ki.KmerOf(string(bad)); err == nil {
		fail("kmerof", "KmerOf accepted a word with an invalid letter", string(bad), nil)
	}
}

func minInt(a, b int) int {
	if a < b {
		return a
	}
	return b
}

func c10Case(r *obs.Run, i int) {
	maxL := c10MaxL(r)
	total := c10ExhaustiveTotal(maxL)
	blocks := (total + c10Block - 1) / c10Block
	myBlocks := r.Share(blocks)
	if i < myBlocks {
		blk := i*r.NBatch + r.Batch
		a := c10Alphas[0]
		const alpha5 = "acgtn"
		for e := blk * c10Block; e < (blk+1)*c10Block && e < total; e++ {
			// decode e -> (L, index)
			L, idx, p := 5, e, 3125
			for idx >= p {
				idx -= p
				p *= 5
				L++
			}
			s := make([]byte, L)
			nn := 0
			for j := L - 1; j >= 0; j-- {
				s[j] = alpha5[idx%5]
				if s[j] == 'n' {
					nn++
				}
				idx /= 5
			}
			c10Check(r, a, s, 4, true)
			v, _ := c10Ref(a, s, 4)
			any := false
			for _, x := range v {
				any = any || x
			}
			r.Note("ex/"+string(s), any)
			r.Count("exhaustive_sequences", 1)
		}
		return
	}
	// random
	rng := r.Rng
	if e := c10Custom(); e != "" {
		r.Violate("alphabet-constructor", "a valid four-letter alphabet definition is not accepted: "+e, map[string]interface{}{"what": e})
		return
	}
	if i == myBlocks { // once per batch: the helpers that need no index, at the supported word lengths this batch owns
		for hk := kmerindex.MinKmerLen; hk <= kmerindex.MaxKmerLen; hk++ {
			if hk >= 4 && hk%r.NBatch == r.Batch%r.NBatch {
				c10Helpers(r, c10Alphas[0], hk)
				c10Helpers(r, c10Alphas[1+(hk%2)*4], hk) // RNA, or the case-sensitive alphabet defined as TGCA
			}
		}
	}
	a := c10Alphas[rng.Intn(len(c10Alphas))]
	kmax := r.Pick(10, 12)
	k := 4 + rng.Intn(kmax-3)
	var n int
	switch rng.Intn(5) {
	case 0:
		n = k + 1 + rng.Intn(8)
	case 1:
		n = k + 1 + rng.Intn(60)
	case 2:
		n = 5000 - rng.Intn(50)
	default:
		n = k + 1 + rng.Intn(5000-k)
	}
	if k >= 11 && n > 1200 {
		n = 1200
	}
	s := make([]byte, n)
	letters := a.letters
	if !a.cased {
		letters += strings.ToUpper(a.letters)
	}
	junk := []byte("nNxX-*0 .RYK\x00\xff\x80")
	if a.cased {
		junk = append(junk, c10OtherCase(a.letters)...)
	}
	lowcomplex := rng.Intn(3) == 0
	ninv := 0
	for p := 0; p < n; {
		if rng.Intn(60) == 0 { // run of non-alphabet letters
			run := 1 + rng.Intn(6)
			if rng.Intn(5) == 0 {
				run = 1 + rng.Intn(3*k)
			}
			for ; run > 0 && p < n; run, p = run-1, p+1 {
				if rng.Intn(3) == 0 {
					s[p] = byte(rng.Intn(256))
					if a.code(s[p]) >= 0 {
						s[p] = 'n'
					}
				} else {
					s[p] = junk[rng.Intn(len(junk))]
				}
				ninv++
			}
			continue
		}
		if lowcomplex {
			s[p] = letters[rng.Intn(2)*(len(letters)/2)+rng.Intn(2)]
		} else {
			s[p] = letters[rng.Intn(len(letters))]
		}
		p++
	}
	// invalid letters at the very ends now and then
	if rng.Intn(6) == 0 {
		s[0] = 'n'
		ninv++
	}
	if rng.Intn(6) == 0 {
		s[n-1] = 'N'
		ninv++
	}
	c10Check(r, a, s, k, false)
	v, wd := c10Ref(a, s, k)
	seen := map[int]bool{}
	any, rep := false, false
	for p, x := range v {
		if x {
			any = true
			if seen[wd[p]] {
				rep = true
			}
			seen[wd[p]] = true
		}
	}
	r.Note(fmt.Sprintf("rnd/%s/%d/%s", a.name, k, s), any && (ninv > 0 || rep))
	r.Count("random_sequences", 1)
	if r.WantSample() && n < 80 {
		r.Sample(map[string]interface{}{"alphabet": a.name, "k": k, "seq": string(s), "valid_windows": len(seen)})
	}
}
