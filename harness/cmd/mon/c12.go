//go:build verif

package main

import (
	"bytes"
	"fmt"
	"hash/fnv"
	"io"
	"math/rand"
	"os"
	"runtime"
	"strconv"
	"sync"
	"time"

	"github.com/biogo/biogo/morass"

	"verif/harness/internal/obs"
)

// C12 — concurrent-mode external sort is schedule independent.

func curGID() int64 {
	var buf [64]byte
	n := runtime.Stack(buf[:], false)
	// "goroutine 123 [running]:"
	f := bytes.Fields(buf[:n])
	if len(f) < 2 {
		return -1
	}
	id, _ := strconv.ParseInt(string(f[1]), 10, 64)
	return id
}

type c12Hold struct {
	Writer int    `json:"writer"` // 1-based index of the background writer
	X      string `json:"writer_step"`
	Y      string `json:"until_caller_step"`
	// CallerWaits inverts the hold: the caller is parked at step Y until writer Writer reaches step X.
	CallerWaits bool `json:"caller_waits_for_writer,omitempty"`
}

type c12Ctl struct {
	mu        sync.Mutex
	events    []string
	callerG   int64
	writerOf  map[int64]int
	nWriters  int
	encSeen   map[int]int // per writer: encode steps seen
	chunk     int
	handoffs  int
	seeks     int
	hold      *c12Hold
	reachedY  chan struct{}
	yDone     bool
	holdT     time.Duration
	parked    bool
	byCaller  bool
	timedOut  bool
	sleepRng  *rand.Rand
	liveWrite int // background writers between recv and return
	overtook  bool
	reachedX  chan struct{} // closed when the hold's writer reaches step X (caller-waits holds)
	xDone     bool
	// background work outside the recv..return bracket of a writer, and after Finalise has returned to the caller
	liveG         map[int64]bool // goroutines that have announced write.recv and not yet write.return
	finalised     bool           // set by the caller as soon as Finalise has returned
	unbracketed   []string       // steps taken by a goroutine that is neither the caller nor a live writer
	afterFinalise []string       // steps taken by a goroutine other than the caller after Finalise returned
}

func (c *c12Ctl) signalY(name string) {
	// caller of signalY holds c.mu
	if c.hold != nil && !c.yDone && c.hold.Y == name {
		c.yDone = true
		close(c.reachedY)
	}
}

func (c *c12Ctl) step(name string) {
	gid := curGID()
	c.mu.Lock()
	role := "caller"
	w := 0
	if gid != c.callerG {
		if name == "write.recv" {
			c.nWriters++
			c.writerOf[gid] = c.nWriters
			c.liveWrite++
			if c.liveG == nil {
				c.liveG = map[int64]bool{}
			}
			c.liveG[gid] = true
		}
		w = c.writerOf[gid]
		role = fmt.Sprint("writer", w)
		if !c.liveG[gid] {
			c.unbracketed = append(c.unbracketed, fmt.Sprintf("goroutine %d (%s): %s", gid, role, name))
		}
		if c.finalised {
			c.afterFinalise = append(c.afterFinalise, fmt.Sprintf("goroutine %d (%s): %s", gid, role, name))
		}
		if name == "write.return" {
			c.liveWrite--
			delete(c.liveG, gid)
		}
	}
	xname := name
	if name == "write.encode" && w > 0 {
		c.encSeen[w]++
		switch c.encSeen[w] {
		case 1:
			xname = "write.encode#1"
		case c.chunk:
			xname = "write.encode#last"
		}
	}
	c.events = append(c.events, role+":"+name)
	park := false
	parkCaller := false
	if role != "caller" && c.hold != nil && c.hold.CallerWaits && !c.xDone && w == c.hold.Writer && xname == c.hold.X {
		c.xDone = true
		close(c.reachedX)
	}
	if role == "caller" {
		yname := name
		switch name {
		case "push.handoff":
			c.handoffs++
			if c.hold != nil && c.handoffs == c.hold.Writer+1 {
				yname = "push.handoff.next"
			}
		case "finalise.seek":
			c.seeks++
			if c.liveWrite > 0 {
				c.overtook = true
			}
		case "finalise.done":
			if c.liveWrite > 0 {
				c.overtook = true
			}
		}
		if c.hold != nil && c.hold.CallerWaits {
			if !c.parked && yname == c.hold.Y {
				c.parked = true
				parkCaller = true
			}
		} else {
			c.signalY(yname)
		}
	} else if c.hold != nil && !c.hold.CallerWaits && !c.parked && w == c.hold.Writer && xname == c.hold.X {
		c.parked = true
		park = true
	}
	var sleep time.Duration
	if c.sleepRng != nil {
		sleep = time.Duration(c.sleepRng.Intn(2000)) * time.Microsecond
	}
	ch := c.reachedY
	chx := c.reachedX
	c.mu.Unlock()
	if parkCaller {
		select {
		case <-chx:
			c.mu.Lock()
			c.byCaller = true
			c.mu.Unlock()
		case <-time.After(c.holdT):
			c.mu.Lock()
			c.timedOut = true
			c.mu.Unlock()
		}
	}
	if park {
		select {
		case <-ch:
			c.mu.Lock()
			c.byCaller = true
			c.mu.Unlock()
		case <-time.After(c.holdT):
			c.mu.Lock()
			c.timedOut = true
			c.mu.Unlock()
		}
	}
	if sleep > 0 {
		time.Sleep(sleep)
	}
}

type c12Workload struct {
	Chunk int `json:"chunk"`
	Full  int `json:"full_chunks"`
	Last  int `json:"last_chunk"`
}

func (w c12Workload) n() int       { return w.Chunk*w.Full + w.Last }
func (w c12Workload) writers() int { return (w.n() - 1) / w.Chunk } // background writers started by Push

var c12Workloads = []c12Workload{{3, 2, 1}, {3, 3, 0}, {4, 1, 3}, {5, 2, 1}, {8, 4, 7}, {3, 4, 2}, {6, 2, 0}, {4, 3, 1}}

var c12Xs = []string{"write.recv", "write.register", "write.encode#1", "write.encode#last", "write.sync", "write.return"}
var c12Ys = []string{"push.handoff.next", "finalise.enter", "finalise.lastwrite", "finalise.seek", "pull.first"}

type c12Sched struct {
	W     c12Workload `json:"workload"`
	Hold  *c12Hold    `json:"hold,omitempty"`
	Sleep bool        `json:"random_sleeps"`
	Procs int         `json:"gomaxprocs"`
	// HoldMs: bound of the hold in milliseconds (0: the usual 25 ms). The long holds keep a background writer parked far
	// longer than any wait a sorter might be tempted to give up on: "for every interleaving" knows no time limit.
	HoldMs int `json:"hold_bounded_at_ms,omitempty"`
}

const c12LongHoldMs = 1200

func c12Enumerate(quick bool) []c12Sched {
	var out []c12Sched
	wl := c12Workloads
	for _, w := range wl {
		for k := 1; k <= w.writers(); k++ {
			for _, x := range c12Xs {
				for _, y := range c12Ys {
					out = append(out, c12Sched{W: w, Hold: &c12Hold{Writer: k, X: x, Y: y}, Procs: 16})
				}
			}
			// inverted holds: the caller waits at a step until this writer has reached a step
			for _, y := range []string{"push.handoff.next", "finalise.enter", "finalise.lastwrite"} {
				for _, x := range []string{"write.register", "write.encode#last", "write.return"} {
					out = append(out, c12Sched{W: w, Hold: &c12Hold{Writer: k, X: x, Y: y, CallerWaits: true}, Procs: 16})
				}
			}
		}
	}
	// long holds (appended, so that the list above keeps its order): the first background writer stays parked before its
	// sync (thorough: also before it has created its file) until the caller's first Pull - which the caller cannot reach
	// before Finalise has waited the writer out - i.e. for the full bound of 1.2 s
	for i, w := range wl {
		if quick && i >= 4 {
			break
		}
		out = append(out, c12Sched{W: w, Hold: &c12Hold{Writer: 1, X: "write.sync", Y: "pull.first"}, Procs: 16, HoldMs: c12LongHoldMs})
		if !quick {
			out = append(out, c12Sched{W: w, Hold: &c12Hold{Writer: 1, X: "write.recv", Y: "pull.first"}, Procs: 16, HoldMs: c12LongHoldMs})
		}
	}
	return out
}

func init() {
	register(&obs.Monitor{
		ID:    "C12",
		Level: "exploration",
		Rule: "one schedule per case on a concurrent-mode sorter (chunk 3..8, 1..4 full chunks, last chunk 0, 1 or c-1, unique values): (i) enumerated holds - each background writer parked at each of {recv, register, encode#1, encode#last, sync, return} until the caller reaches each of " +
			"{hand-off of the next chunk, finalise.enter, finalise.lastwrite, finalise.seek, first Pull}, and inverted holds in which the caller is parked at {next hand-off, finalise.enter, finalise.lastwrite} until the writer has reached {register, encode#last, return} (all released after a bounded wait so the harness cannot create a deadlock); (ii) seeded random sleeps of 0-2 ms at every hook; (iii) hooks silent with GOMAXPROCS in {1,2,16}. " +
			"Oracle: Finalise returned => every value pulled exactly once in order, and Finalise never reaches its read-back while a background writer is still between write.recv and write.return; no step of the write path is taken by a goroutine other than the caller or a writer between its write.recv and write.return, nor by anyone but the caller after Finalise returned; a few holds last 1.2 s (Finalise must wait them out); race detector, panics and runtime deadlock detection through the child. Non-trivial = >=1 background writer; distinct = hash of the (goroutine role, step) event order",
		Batches: func(t string) int {
			if t == "thorough" {
				return 16
			}
			return 8
		},
		MaxPar:      16,
		Cases:       func(r *obs.Run) int { return r.Share(len(c12Enumerate(!r.Thorough()))) + r.Share(r.Pick(600, 12000)) },
		Setup:       func(r *obs.Run) { r.WatchDeadlock(5*time.Second, 2*time.Minute) },
		Case:        c12Case,
		MinDistinct: func(t string) int { return 150 },
		Floors: func(string) map[string]int64 {
			return map[string]int64{"schedules_run": 900, "holds_parked": 500, "holds_released_by_caller": 100, "caller_holds_released_by_writer": 60, "random_sleep_schedules": 100, "plain_schedules": 100, "values_pulled": 5000, "hook_events": 20000,
				"schedules_with_every_background_step_inside_a_writer_and_before_finalise_returned": 900, "long_holds_of_1200ms_waited_out_by_finalise": 3}
		},
		Assumptions: []string{"holds are placed only at the hook sites, which sit between critical sections; a hold ends when the caller reaches the named step or after a bounded wait (the wait only shapes which interleavings are explored, never a verdict)",
			"deadlock is decided by the Go runtime's all-goroutines-asleep detector in the child (no timers are pending outside holds)"},
		ChildTimeout: func(string) time.Duration { return 10 * time.Minute },
	})
}

func c12Case(r *obs.Run, i int) {
	enum := c12Enumerate(!r.Thorough())
	nEnum := r.Share(len(enum))
	var s c12Sched
	if i < nEnum {
		s = enum[i*r.NBatch+r.Batch]
	} else {
		rng := r.Rng
		s.W = c12Workload{Chunk: 3 + rng.Intn(6), Full: 1 + rng.Intn(4)}
		s.W.Last = []int{0, 1, s.W.Chunk - 1}[rng.Intn(3)]
		if rng.Intn(2) == 0 {
			s.Sleep = true
			s.Procs = 16
		} else {
			s.Procs = []int{1, 2, 16}[rng.Intn(3)]
		}
	}
	c12Run(r, s)
}

func c12Run(r *obs.Run, s c12Sched) {
	rng := r.Rng
	n := s.W.n()
	vals := rng.Perm(n)
	scratch := c11Scratch(r)
	defer os.RemoveAll(scratch)
	old := runtime.GOMAXPROCS(s.Procs)
	defer runtime.GOMAXPROCS(old)
	ctl := &c12Ctl{callerG: curGID(), writerOf: map[int64]int{}, encSeen: map[int]int{}, chunk: s.W.Chunk, hold: s.Hold, reachedY: make(chan struct{}), reachedX: make(chan struct{}), holdT: 25 * time.Millisecond}
	if s.Sleep {
		ctl.sleepRng = rand.New(rand.NewSource(rng.Int63()))
	}
	if s.HoldMs > 0 {
		ctl.holdT = time.Duration(s.HoldMs) * time.Millisecond
	}
	goroutines := runtime.NumGoroutine()
	r.Crumb(fmt.Sprintf("%+v hold=%+v values=%v", s, s.Hold, vals))
	morass.VerifSetStep(ctl.step)
	defer morass.VerifSetStep(nil)
	w := map[string]interface{}{"schedule": s, "values": vals}
	fail := func(class, what string) {
		ctl.mu.Lock()
		w["events"] = append([]string(nil), ctl.events...)
		ctl.mu.Unlock()
		w["what"] = what
		r.Violate(class, what, w)
	}
	defer func() {
		if e := recover(); e != nil {
			fail("panic", fmt.Sprintf("panic: %v", e))
		}
	}()
	m, err := morass.New(c11Int(0), "c12", scratch, s.W.Chunk, true)
	if err != nil {
		r.Inconclusive("morass.New: " + err.Error())
		return
	}
	defer m.CleanUp()
	for k, v := range vals {
		if err := m.Push(c11Int(v)); err != nil {
			fail("push-error", fmt.Sprintf("push %d returned %v", k, err))
			return
		}
	}
	ferr := m.Finalise()
	ctl.mu.Lock()
	ctl.finalised = true // from here on no goroutine of the sorter has anything left to do
	ctl.signalY("pull.first")
	ctl.mu.Unlock()
	// evidence only (a goroutine that has done its work may still be on its way out): goroutines of the process now,
	// against the number before the sorter was made
	if runtime.NumGoroutine() > goroutines {
		r.Count("finalise_returns_with_more_goroutines_than_before_the_sorter", 1)
	}
	if ferr != nil {
		fail("finalise-error", "Finalise returned "+ferr.Error()+" although nothing failed")
		return
	}
	var got []int
	for {
		var v c11Int
		err := m.Pull(&v)
		if err == io.EOF {
			break
		}
		if err != nil {
			fail("pull-error", fmt.Sprintf("pull %d returned %v", len(got), err))
			return
		}
		got = append(got, int(v))
		if len(got) > n+2 {
			break
		}
	}
	r.Count("values_pulled", int64(len(got)))
	ok := len(got) == n
	for k := 0; ok && k < n; k++ {
		ok = got[k] == k
	}
	if !ok {
		fail("values-lost-or-corrupted", fmt.Sprintf("pushed the values 0..%d; pulled %v after Finalise returned nil", n-1, got))
	}
	// wait for stragglers so that their steps do not leak into the next case
	time.Sleep(time.Millisecond)
	ctl.mu.Lock()
	h := fnv.New64a()
	for _, e := range ctl.events {
		h.Write([]byte(e))
		h.Write([]byte{0})
	}
	r.Count("hook_events", int64(len(ctl.events)))
	if ctl.parked {
		r.Count("holds_parked", 1)
	}
	if ctl.byCaller && s.Hold != nil && s.Hold.CallerWaits {
		r.Count("caller_holds_released_by_writer", 1)
	} else if ctl.byCaller {
		r.Count("holds_released_by_caller", 1)
	}
	if ctl.timedOut {
		r.Count("holds_released_by_bounded_wait", 1)
	}
	overtook := ctl.overtook
	events := append([]string(nil), ctl.events...)
	unbracketed := append([]string(nil), ctl.unbracketed...)
	afterFinalise := append([]string(nil), ctl.afterFinalise...)
	ctl.mu.Unlock()
	if len(afterFinalise) > 0 {
		// "Finalise returns only once every pushed value is safely in the sorter": a goroutine other than the caller was
		// still taking steps of the write path after Finalise had returned
		w["events"], w["steps_after_finalise_returned"] = events, afterFinalise
		fail("background-step-after-finalise", fmt.Sprintf("%d step(s) of the write path were taken by another goroutine after Finalise had returned to the caller, the first: %s", len(afterFinalise), afterFinalise[0]))
		return
	}
	if len(unbracketed) > 0 {
		// the writer's steps (receive run, register file, encode, sync, return buffer) all lie between its write.recv and its
		// write.return, and Finalise waits for the return: a step taken outside that bracket is work Finalise does not wait for
		w["events"], w["steps_outside_a_writer"] = events, unbracketed
		fail("unbracketed-background-step", fmt.Sprintf("%d step(s) of the write path were taken by a goroutine that is neither the caller nor a background writer between its write.recv and write.return, the first: %s", len(unbracketed), unbracketed[0]))
		return
	}
	if overtook {
		// "Finalise returns only once every pushed value is safely in the sorter": it went on to read the run files
		// back (or returned) while a background writer had not yet finished with its run
		w["events"] = events
		fail("finalise-overtook-writer", "Finalise reached its read-back (finalise.seek / finalise.done) while a background writer was still between write.recv and write.return")
		return
	}
	r.Count("schedules_run", 1)
	r.Count("schedules_with_every_background_step_inside_a_writer_and_before_finalise_returned", 1)
	if s.HoldMs > 0 && ctl.timedOut {
		r.Count("long_holds_of_1200ms_waited_out_by_finalise", 1)
	}
	switch {
	case s.Hold != nil:
		r.Count("hold_schedules", 1)
	case s.Sleep:
		r.Count("random_sleep_schedules", 1)
	default:
		r.Count("plain_schedules", 1)
	}
	r.Note(fmt.Sprintf("%x", h.Sum64()), s.W.writers() >= 1)
	if r.WantSample() && len(events) < 60 && s.Hold != nil {
		r.Sample(map[string]interface{}{"schedule": s, "events": events})
	}
}
