package main

import (
	"fmt"
	"github.com/biogo/biogo/feat"
	"io/ioutil"
	"log"
	"math"
	"sort"
	"strings"

	"github.com/biogo/biogo/align/pals"

	"verif/harness/internal/obs"
)

// C16 — piles are exactly the overlap-connected components of the added features.

func init() {
	register(&obs.Monitor{
		ID:    "C16",
		Level: "exploration",
		Rule: "one interval set per case: 1..12 feature pairs on 1..3 contigs built from nested/abutting/chained/duplicated/random intervals (1 pair in 10 pairs an interval with itself; a quarter of the cases derive feature IDs from the coordinates only; 1 case in 40 has 20..80 pairs with features of any length; " +
			"1 in 10 repeats its coordinates on other or exchanged locations; some use regions of one chromosome and a region within a region as locations); each set is piled (overlap slack 0) in >=4 insertion orders " +
			"(all permutations for <=5 pairs in thorough), duplicates re-added in both orientations, Piles called with nil/parity/none/location-reading filters (the last also as the first call on a piler) and repeated, the caller rewriting and appending to the answers in between; piles also read through their feat.Feature methods; a piler without pairs reports no piles; oracle = union-find under closed-interval overlap. " +
			"Non-trivial = some pile holds >=2 features and there are >=2 piles; distinct = sorted interval set",
		Batches: func(t string) int {
			if t == "thorough" {
				return 8
			}
			return 2
		},
		Cases:       func(r *obs.Run) int { return r.Share(r.Pick(15000, 800000)) },
		Case:        c16Case,
		MinDistinct: func(t string) int { return 2000 },
		Floors: func(string) map[string]int64 {
			return map[string]int64{"insertion_orders": 15000, "piles_checked": 30000, "duplicates_rejected": 4000, "abutting_merges": 500, "multi_pile_merges": 300, "location_reading_filter_calls": 10000,
				"features_joining_5_or_more_piles": 200, "answers_appended_to_by_the_caller": 20000, "cases_with_locations_that_have_a_location": 500, "pairs_repeated_on_other_locations": 1500}
		},
		Assumptions: []string{"intervals have positive length; features are not added after Piles has been called"},
	})
}

type c16iv struct {
	Loc  int `json:"loc"`
	S, E int
}
type c16pair struct {
	A, B  c16iv
	Score int
}

func c16Key(p c16pair) string {
	a, b := p.A, p.B
	if a.Loc > b.Loc || a.Loc == b.Loc && (a.S > b.S || a.S == b.S && a.E > b.E) {
		a, b = b, a
	}
	return fmt.Sprint(a, b)
}

func c16Gen(r *obs.Run) []c16pair {
	rng := r.Rng
	nloc := 1 + rng.Intn(3)
	n := 1 + rng.Intn(12)
	span := 20 + rng.Intn(100)
	big := rng.Intn(40) == 0 // now and then many pairs on a long span, some features of any length up to the whole span
	if big {
		n = 20 + rng.Intn(61)
		span = 100 + rng.Intn(901)
		r.Count("cases_with_20_to_80_pairs_and_long_features", 1)
	}
	var ivs []c16iv
	newIv := func() c16iv {
		loc := rng.Intn(nloc)
		if len(ivs) > 0 && rng.Intn(10) < 6 {
			o := ivs[rng.Intn(len(ivs))]
			switch rng.Intn(6) {
			case 0: // abutting on the right
				return c16iv{o.Loc, o.E, o.E + 1 + rng.Intn(8)}
			case 1: // abutting on the left
				l := 1 + rng.Intn(8)
				return c16iv{o.Loc, o.S - l, o.S}
			case 2: // nested
				if o.E-o.S >= 3 {
					s := o.S + 1 + rng.Intn(o.E-o.S-2)
					return c16iv{o.Loc, s, s + 1 + rng.Intn(o.E-s-1)}
				}
				return c16iv{o.Loc, o.S, o.E}
			case 3: // duplicate interval
				return c16iv{o.Loc, o.S, o.E}
			case 4: // chained overlap
				if o.E == o.S { // an empty one: nothing to overlap, abut it instead
					return c16iv{o.Loc, o.E, o.E + 1 + rng.Intn(8)}
				}
				s := o.E - 1 - rng.Intn(minInt(3, o.E-o.S))
				return c16iv{o.Loc, s, s + 2 + rng.Intn(10)}
			default: // one short of abutting (gap of 1)
				return c16iv{o.Loc, o.E + 1, o.E + 2 + rng.Intn(5)}
			}
		}
		s := rng.Intn(span)
		if rng.Intn(15) == 0 { // an empty feature: it abuts whatever its position touches
			return c16iv{loc, s, s}
		}
		if big && rng.Intn(6) == 0 {
			return c16iv{loc, s, s + 1 + rng.Intn(span)}
		}
		return c16iv{loc, s, s + 1 + rng.Intn(12)}
	}
	far := rng.Intn(25) == 0 // some intervals end at the largest int
	seen := map[string]bool{}
	var out []c16pair
	for len(out) < n {
		a := newIv()
		ivs = append(ivs, a)
		b := newIv()
		if rng.Intn(10) == 0 { // a feature paired with its own interval (a self image)
			b = a
		}

		ivs = append(ivs, b)
		p := c16pair{a, b, rng.Intn(100)}
		if seen[c16Key(p)] {
			continue
		}
		seen[c16Key(p)] = true
		out = append(out, p)
	}
	if !far && rng.Intn(12) == 0 {
		// the same layout once more 2^32 (or 2^33) positions to the right: other pairs, on coordinates past 32 bits
		var extra []c16pair
		for _, p := range out {
			if rng.Intn(2) == 0 {
				d := (1 + rng.Intn(2)) << 32
				q := c16pair{c16iv{p.A.Loc, p.A.S + d, p.A.E + d}, c16iv{p.B.Loc, p.B.S + d, p.B.E + d}, p.Score}
				if !seen[c16Key(q)] {
					seen[c16Key(q)] = true
					extra = append(extra, q)
				}
			}
		}
		out = append(out, extra...)
		r.Count("cases_with_a_copy_of_the_layout_2_32_to_the_right", 1)
	}
	if rng.Intn(10) == 0 {
		// the same coordinates once more elsewhere: both images on the next location, the two locations exchanged, or
		// one image on the next location. These are other pairs: what makes a pair is where its images lie as well.
		var extra []c16pair
		for _, p := range out {
			q := p
			switch rng.Intn(4) {
			case 0:
				q.A.Loc, q.B.Loc = (p.A.Loc+1)%3, (p.B.Loc+1)%3
			case 1:
				q.A.Loc, q.B.Loc = p.B.Loc, p.A.Loc
			case 2:
				if rng.Intn(2) == 0 {
					q.A.Loc = (p.A.Loc + 1) % 3
				} else {
					q.B.Loc = (p.B.Loc + 1) % 3
				}
			}
			if !seen[c16Key(q)] {
				seen[c16Key(q)] = true
				extra = append(extra, q)
				r.Count("pairs_repeated_on_other_locations", 1)
			}
		}
		out = append(out, extra...)
	}
	if far { // applied at the end, so that no other interval is derived from these
		// The starts stay within a span of less than 2^63: the interval tree of the
		// github.com/biogo/store dependency orders its nodes by subtracting starts, and a
		// wider span than that is outside what the property quantifies over.
		minS := 0
		for _, p := range out {
			for _, v := range []c16iv{p.A, p.B} {
				if v.S < minS {
					minS = v.S
				}
			}
		}
		for k := range out {
			if rng.Intn(3) == 0 {
				p := out[k]
				p.B.E = math.MaxInt64
				if rng.Intn(2) == 0 {
					p.B.S = math.MaxInt64 - 1 - rng.Intn(30) + minS
				}
				if !seen[c16Key(p)] {
					seen[c16Key(p)] = true
					out[k] = p
				}
			}
		}
	}
	return out
}

type c16pile struct {
	Loc     int
	From    int
	To      int
	Members []string // feature ids, sorted
}

// c16Name is the ID given to image side ('A' or 'B') of pair i: positional, or derived from the coordinates only (as
// pals.ExpandFeature does), in which case the two images of a self-image pair are equal in every field.
func c16Name(coord bool, i int, side byte, iv c16iv) string {
	if coord {
		return fmt.Sprintf("c%d:%d..%d", iv.Loc, iv.S, iv.E)
	}
	return fmt.Sprintf("p%d%c", i, side)
}

// c16Near reports whether all coordinates of the set are small (within 2^20 of zero).
func c16Near(pairs []c16pair) bool {
	for _, p := range pairs {
		for _, v := range []int{p.A.S, p.A.E, p.B.S, p.B.E} {
			if v <= -(1<<20) || v >= 1<<20 {
				return false
			}
		}
	}
	return true
}

func c16Ref(pairs []c16pair, filter func(c16pair) bool, coord bool) (piles []c16pile, abut, multi int) {
	type ft struct {
		iv   c16iv
		id   string
		pair int
	}
	var fs []ft
	for i, p := range pairs {
		fs = append(fs, ft{p.A, c16Name(coord, i, 'A', p.A), i}, ft{p.B, c16Name(coord, i, 'B', p.B), i})
	}
	parent := make([]int, len(fs))
	for i := range parent {
		parent[i] = i
	}
	var find func(int) int
	find = func(x int) int {
		if parent[x] != x {
			parent[x] = find(parent[x])
		}
		return parent[x]
	}
	for i := range fs {
		for j := i + 1; j < len(fs); j++ {
			a, b := fs[i].iv, fs[j].iv
			if a.Loc == b.Loc && a.S <= b.E && b.S <= a.E {
				if a.E == b.S || b.E == a.S {
					abut++
				}
				parent[find(i)] = find(j)
			}
		}
	}
	comp := map[int]*c16pile{}
	for i, f := range fs {
		c := find(i)
		p, ok := comp[c]
		if !ok {
			p = &c16pile{Loc: f.iv.Loc, From: f.iv.S, To: f.iv.E}
			comp[c] = p
		}
		if f.iv.S < p.From {
			p.From = f.iv.S
		}
		if f.iv.E > p.To {
			p.To = f.iv.E
		}
		if filter == nil || filter(pairs[f.pair]) {
			p.Members = append(p.Members, f.id)
		}
	}
	for _, p := range comp {
		sort.Strings(p.Members)
		piles = append(piles, *p)
		if len(p.Members) > 2 {
			multi++
		}
	}
	sort.Slice(piles, func(i, j int) bool {
		if piles[i].Loc != piles[j].Loc {
			return piles[i].Loc < piles[j].Loc
		}
		return piles[i].From < piles[j].From
	})
	return
}

func c16Case(r *obs.Run, i int) {
	rng := r.Rng
	pairs := c16Gen(r)
	coordIDs := rng.Intn(4) == 0
	if coordIDs {
		r.Count("cases_with_coordinate_derived_ids", 1)
	}
	contigs := []feat.Feature{pals.Contig("c0"), pals.Contig("c1"), pals.Contig("c2")}
	if rng.Intn(4) == 0 { // locations that differ although they carry one name: what counts is the location, not how it is called
		contigs = []feat.Feature{pals.Contig("c0"), &pals.Feature{ID: "c0", From: 0, To: 1 << 20}, &pals.Feature{ID: "c0", From: 0, To: 1 << 20}}
		r.Count("cases_with_distinct_locations_of_one_name", 1)
	} else if c16Near(pairs) && rng.Intn(5) == 0 {
		// locations that have a location themselves: regions of one chromosome, and a region within a region. A region
		// is another location than the chromosome it lies on and than its sibling. (The regions lie far apart on the
		// chromosome, so the features of different regions do not meet however their coordinates are read.)
		chr := pals.Contig("chr")
		regA := &pals.Feature{ID: "regionA", From: 1 << 30, To: 1<<30 + 1<<22, Loc: chr}
		regB := &pals.Feature{ID: "regionB", From: 1 << 40, To: 1<<40 + 1<<30, Loc: chr}
		sub := &pals.Feature{ID: "sub", From: 1 << 25, To: 1<<25 + 1<<22, Loc: regB}
		if rng.Intn(2) == 0 {
			contigs = []feat.Feature{chr, regA, sub}
		} else {
			contigs = []feat.Feature{regA, regB, sub}
		}
		rng.Shuffle(3, func(a, b int) { contigs[a], contigs[b] = contigs[b], contigs[a] })
		r.Count("cases_with_locations_that_have_a_location", 1)
	}
	w := map[string]interface{}{"pairs": pairs}
	fail := func(class, what string, extra interface{}) {
		w["what"] = what
		w["detail"] = extra
		r.Violate(class, what, w)
	}
	defer func() {
		if e := recover(); e != nil {
			fail("panic", fmt.Sprintf("panic: %v", e), nil)
		}
	}()
	filters := []struct {
		name string
		ref  func(c16pair) bool
		f    pals.PairFilter
	}{
		{"nil", nil, nil},
		{"even-score", func(p c16pair) bool { return p.Score%2 == 0 }, func(p *pals.Pair) bool { return p.Score%2 == 0 }},
		{"none", func(c16pair) bool { return false }, func(*pals.Pair) bool { return false }},
	}
	// a filter that looks at where the images are located, as TestPiler's does: both images span at least half of
	// their pile. Every image is in its pile from the first Piles call on, so the filter never sees anything else.
	hull := map[[3]int][2]int{} // (loc, start, end) of an interval -> extent of its pile
	{
		all, _, _ := c16Ref(pairs, nil, coordIDs)
		for _, pr := range pairs {
			for _, iv := range []c16iv{pr.A, pr.B} {
				for _, pl := range all {
					if pl.Loc == iv.Loc && pl.From <= iv.S && iv.E <= pl.To {
						hull[[3]int{iv.Loc, iv.S, iv.E}] = [2]int{pl.From, pl.To}
					}
				}
			}
		}
	}
	var unpiled int
	half := func(s, e int, h [2]int) bool { return 2*(e-s) >= h[1]-h[0] }
	filters = append(filters, struct {
		name string
		ref  func(c16pair) bool
		f    pals.PairFilter
	}{"half-of-pile", func(p c16pair) bool {
		return half(p.A.S, p.A.E, hull[[3]int{p.A.Loc, p.A.S, p.A.E}]) && half(p.B.S, p.B.E, hull[[3]int{p.B.Loc, p.B.S, p.B.E}])
	}, func(p *pals.Pair) bool {
		ok := true
		for _, im := range []*pals.Feature{p.A, p.B} {
			if _, isPile := im.Loc.(*pals.Pile); !isPile {
				unpiled++
				return false
			}
			// the pile is read the way other code sees it, as the feat.Feature the image is located on
			ok = ok && half(im.Start(), im.End(), [2]int{im.Location().Start(), im.Location().End()})
		}
		return ok
	}})
	refs := make([][]c16pile, len(filters))
	var abut, multi int
	for k, f := range filters {
		var a, m int
		refs[k], a, m = c16Ref(pairs, f.ref, coordIDs)
		if k == 0 {
			abut, multi = a, m
		}
	}
	r.Count("abutting_merges", int64(abut))
	r.Count("multi_pile_merges", int64(multi))

	// insertion orders
	var orders [][]int
	n := len(pairs)
	id := make([]int, n)
	for k := range id {
		id[k] = k
	}
	if r.Thorough() && n <= 5 {
		var perm func(a []int, k int)
		perm = func(a []int, k int) {
			if k == len(a) {
				orders = append(orders, append([]int(nil), a...))
				return
			}
			for j := k; j < len(a); j++ {
				a[k], a[j] = a[j], a[k]
				perm(a, k+1)
				a[k], a[j] = a[j], a[k]
			}
		}
		perm(append([]int(nil), id...), 0)
	} else {
		orders = append(orders, append([]int(nil), id...))
		rev := make([]int, n)
		for k := range rev {
			rev[k] = n - 1 - k
		}
		orders = append(orders, rev)
		for k := 0; k < 2+rng.Intn(3); k++ {
			o := append([]int(nil), id...)
			rng.Shuffle(n, func(a, b int) { o[a], o[b] = o[b], o[a] })
			orders = append(orders, o)
		}
	}
	// the empty set of pairs: no piles, whatever the filter
	if got := pals.NewPiler(0).Piles(filters[rng.Intn(len(filters))].f); len(got) != 0 {
		fail("pile-set", fmt.Sprintf("a piler no pair was added to reports %d piles", len(got)), nil)
		return
	}
	r.Count("empty_pilers_asked_for_piles", 1)
	for _, order := range orders {
		r.Count("insertion_orders", 1)
		p := pals.NewPiler(0)
		// the piles so far on each location, kept only to count how many piles one feature joins
		sim := map[int][][2]int{}
		if rng.Intn(3) == 0 { // progress logging switched on, at any frequency (0 = never)
			p.Logger = log.New(ioutil.Discard, "", 0)
			p.LogFreq = []int{0, 1, 2, 7, 1000}[rng.Intn(5)]
			r.Count("pilers_with_a_logger", 1)
		}
		feats := map[*pals.Feature]string{}
		mateOf := map[*pals.Feature]*pals.Feature{}
		variant := false // duplicates may carry other names and another score: the pair is the same pair of intervals
		mk := func(idx int, swap bool) *pals.Pair {
			q := pairs[idx]
			fa := &pals.Feature{ID: c16Name(coordIDs, idx, 'A', q.A), From: q.A.S, To: q.A.E, Loc: contigs[q.A.Loc]}
			fb := &pals.Feature{ID: c16Name(coordIDs, idx, 'B', q.B), From: q.B.S, To: q.B.E, Loc: contigs[q.B.Loc]}
			fp := &pals.Pair{A: fa, B: fb, Score: q.Score}
			if variant {
				fa.ID, fb.ID, fp.Score = "again-"+fa.ID, contigs[q.B.Loc].Name(), q.Score+1+rng.Intn(5)
			}
			if swap {
				fp.A, fp.B = fb, fa
			}
			fa.Pair, fb.Pair = fp, fp
			return fp
		}
		var added []*pals.Pair
		for _, idx := range order {
			swapped := rng.Intn(2) == 0
			fp := mk(idx, swapped)
			if err := p.Add(fp); err != nil {
				fail("add-rejected", fmt.Sprintf("Add rejected a new pair %v: %v", pairs[idx], err), order)
				return
			}
			added = append(added, fp)
			for k, iv := range []c16iv{pairs[idx].A, pairs[idx].B} {
				if swapped {
					iv = []c16iv{pairs[idx].B, pairs[idx].A}[k]
				}
				keep, joined := sim[iv.Loc][:0], 0
				m := [2]int{iv.S, iv.E}
				for _, o := range sim[iv.Loc] {
					if o[0] <= iv.E && iv.S <= o[1] {
						joined++
						m = [2]int{minInt(m[0], o[0]), maxInt(m[1], o[1])}
					} else {
						keep = append(keep, o)
					}
				}
				sim[iv.Loc] = append(keep, m)
				if joined >= 5 {
					r.Count("features_joining_5_or_more_piles", 1)
				}
			}
			feats[fp.A], feats[fp.B] = fp.A.ID, fp.B.ID
			mateOf[fp.A], mateOf[fp.B] = fp.B, fp.A
			if pairs[idx].A == pairs[idx].B {
				r.Count("self_image_pairs_added", 1)
			}
			// duplicates in either orientation are rejected
			if rng.Intn(3) == 0 {
				prev := order[rng.Intn(len(added))]
				_ = prev
				dupIdx := order[rng.Intn(len(added))]
				for _, sw := range []bool{false, true} {
					variant = rng.Intn(2) == 0
					dup := mk(dupIdx, sw)
					variant = false
					if err := p.Add(dup); err == nil {
						fail("duplicate-accepted", fmt.Sprintf("Add accepted pair %v a second time (swapped=%v)", pairs[dupIdx], sw), order)
						return
					}
					r.Count("duplicates_rejected", 1)
				}
			}
		}
		// Piles with each filter, nil twice (first and last)
		seq := [][]int{{0, 1, 3, 2, 0}, {1, 0, 2, 3, 1, 0}, {3, 0, 1, 3}, {3, 3, 2, 0}}[rng.Intn(4)]
		for _, fi := range seq {
			got := p.Piles(filters[fi].f)
			if unpiled > 0 { // not itself a violation: the comparison of the reported piles with the oracle's decides
				r.Count("filter_saw_image_not_in_a_pile", int64(unpiled))
				unpiled = 0
			}
			if fi == 3 {
				r.Count("location_reading_filter_calls", 1)
			}
			var gp []c16pile
			seenFeat := map[*pals.Feature]bool{}
			for _, pl := range got {
				loc := -1
				for k, c := range contigs {
					if pl.Loc == c {
						loc = k
					}
				}
				cp := c16pile{Loc: loc, From: pl.From, To: pl.To}
				// the pile as other code sees it, through the feat.Feature interface
				if asFeat := feat.Feature(pl); asFeat.Start() != pl.From || asFeat.End() != pl.To || asFeat.Location() != pl.Loc {
					fail("pile-accessors", fmt.Sprintf("pile [%d,%d) reports Start %d, End %d or another location through its methods", pl.From, pl.To, asFeat.Start(), asFeat.End()), nil)
					return
				}
				r.Count("piles_read_through_their_methods", 1)
				for _, im := range pl.Images {
					idn, ok := feats[im]
					if !ok {
						fail("foreign-image", "pile holds a feature that was never added", pl.String())
						return
					}
					if seenFeat[im] {
						fail("feature-twice", "feature "+idn+" appears in more than one pile (or twice)", nil)
						return
					}
					seenFeat[im] = true
					cp.Members = append(cp.Members, idn)
					if im.Location() != pl {
						fail("location-link", "feature "+idn+" Location() is not the pile that lists it", nil)
						return
					}
					if im.Mate() == nil || im.Mate().Mate() != im || im.Mate() == im {
						fail("mate-link", "feature "+idn+" lost its mate link", nil)
						return
					}
					if im.Mate() != mateOf[im] {
						fail("mate-link", "feature "+idn+" is mated to "+im.Mate().ID+", which is not the other image of its pair", nil)
						return
					}
					if im.Start() < pl.From || im.End() > pl.To {
						fail("hull", "feature "+idn+" extends beyond its pile", nil)
						return
					}
					// whatever convention Len follows, pile and member follow the same one: a pile is as much longer
					// than a member as its interval is (a pile of one feature is as long as the feature)
					if pl.Len()-im.Len() != (pl.To-pl.From)-(im.To-im.From) {
						fail("pile-accessors", fmt.Sprintf("pile [%d,%d) has Len %d, its member %s [%d,%d) has Len %d", pl.From, pl.To, pl.Len(), idn, im.From, im.To, im.Len()), nil)
						return
					}
				}
				sort.Strings(cp.Members)
				gp = append(gp, cp)
			}
			sort.Slice(gp, func(a, b int) bool {
				if gp[a].Loc != gp[b].Loc {
					return gp[a].Loc < gp[b].Loc
				}
				return gp[a].From < gp[b].From
			})
			// disjoint and non-abutting
			for k := 1; k < len(gp); k++ {
				if gp[k].Loc == gp[k-1].Loc && gp[k].From <= gp[k-1].To {
					fail("piles-overlap", fmt.Sprintf("piles [%d,%d) and [%d,%d) on c%d overlap or abut", gp[k-1].From, gp[k-1].To, gp[k].From, gp[k].To, gp[k].Loc), gp)
					return
				}
			}
			want := refs[fi]
			if len(gp) != len(want) {
				fail("pile-set", fmt.Sprintf("filter %s: %d piles, want %d", filters[fi].name, len(gp), len(want)), map[string]interface{}{"got": gp, "want": want, "order": order})
				return
			}
			for k := range gp {
				if gp[k].Loc != want[k].Loc || gp[k].From != want[k].From || gp[k].To != want[k].To || strings.Join(gp[k].Members, ",") != strings.Join(want[k].Members, ",") {
					fail("pile-set", fmt.Sprintf("filter %s: pile %d is %+v, want %+v", filters[fi].name, k, gp[k], want[k]), map[string]interface{}{"got": gp, "want": want, "order": order})
					return
				}
			}
			if fi == 0 && len(seenFeat) != 2*n {
				fail("feature-missing", fmt.Sprintf("%d of %d features appear in piles", len(seenFeat), 2*n), nil)
				return
			}
			r.Count("piles_checked", int64(len(gp)))
			// the answer is the caller's: its image lists are rewritten in place (same length) before the next call,
			// which has to report the piles from the piler's own state again
			if rng.Intn(2) == 0 {
				for _, pl := range got {
					for k := range pl.Images {
						switch rng.Intn(3) {
						case 0:
							pl.Images[k] = pl.Images[k].Mate()
						case 1:
							pl.Images[k] = pl.Images[rng.Intn(len(pl.Images))]
						}
					}
				}
				r.Count("answers_rewritten_by_the_caller", 1)
			}
			// ... and it may be appended to: what is appended to one pile's list does not show up in another pile of the
			// same answer, whether or not the caller keeps the longer list
			if len(got) > 0 && rng.Intn(2) == 0 {
				snap := make([][]*pals.Feature, len(got))
				for k, pl := range got {
					snap[k] = append([]*pals.Feature(nil), pl.Images...)
				}
				for _, pl := range got {
					ja, jb := &pals.Feature{ID: "junk", From: 0, To: 1, Loc: contigs[0]}, &pals.Feature{ID: "junk", From: 0, To: 1, Loc: contigs[0]}
					jp := &pals.Pair{A: ja, B: jb}
					ja.Pair, jb.Pair = jp, jp
					ext := append(pl.Images, ja, jb, ja)
					if rng.Intn(2) == 0 {
						pl.Images = ext
					}
				}
				for k, pl := range got {
					same := len(pl.Images) >= len(snap[k])
					for j := 0; same && j < len(snap[k]); j++ {
						same = pl.Images[j] == snap[k][j]
					}
					if !same {
						fail("images-shared", fmt.Sprintf("appending to the image lists of other piles changed the list of pile [%d,%d)", pl.From, pl.To), order)
						return
					}
				}
				r.Count("answers_appended_to_by_the_caller", 1)
			}
			if len(got) > 0 && rng.Intn(2) == 0 { // ... and so is the slice of piles itself
				for k := range got {
					switch rng.Intn(3) {
					case 0:
						got[k] = nil
					case 1:
						got[k] = got[rng.Intn(len(got))]
					}
				}
				r.Count("pile_slices_rewritten_by_the_caller", 1)
			}
		}
		// the same pair offered again after Piles has run (a fresh object, located on the contigs) is still a duplicate
		if len(added) > 0 && rng.Intn(2) == 0 {
			dupIdx := order[rng.Intn(len(order))]
			variant = rng.Intn(2) == 0
			dup := mk(dupIdx, rng.Intn(2) == 0)
			variant = false
			if err := p.Add(dup); err == nil {
				fail("duplicate-accepted", fmt.Sprintf("after Piles, Add accepted pair %v a second time", pairs[dupIdx]), order)
				return
			}
			r.Count("duplicates_rejected_after_piles", 1)
		}
		// every added feature: location is a pile (even if filtered out), mates intact
		for _, fp := range added {
			for _, f := range []*pals.Feature{fp.A, fp.B} {
				pl, ok := f.Location().(*pals.Pile)
				if !ok || f.Start() < pl.From || f.End() > pl.To {
					fail("location-link", "feature "+f.ID+" is not located on a pile covering it after Piles", nil)
					return
				}
			}
		}
	}
	var keys []string
	for _, p := range pairs {
		keys = append(keys, c16Key(p))
	}
	sort.Strings(keys)
	r.Note(strings.Join(keys, ";"), multi > 0 && len(refs[0]) >= 2)
	if r.WantSample() && n <= 4 {
		r.Sample(map[string]interface{}{"pairs": pairs, "expected_piles": refs[0], "orders": len(orders)})
	}
}
