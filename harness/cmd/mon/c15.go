package main

import (
	"bytes"
	"fmt"
	"os"
	"strings"
	"sync"

	"github.com/biogo/biogo/align/pals"
	"github.com/biogo/biogo/align/pals/dp"
	"github.com/biogo/biogo/align/pals/filter"
	"github.com/biogo/biogo/alphabet"
	"github.com/biogo/biogo/morass"
	"github.com/biogo/biogo/seq/linear"

	"verif/harness/internal/obs"
)

// C15 — PALS hits are real alignments and planted repeats are found.

type c15Plant struct {
	A0, A1  int    // source region in the target
	B0, B1  int    // position of the copy in the (forward) query
	Reverse bool   `json:"reverse_complemented"`
	Subs    int    `json:"substitutions"`
	Indels  int    `json:"indels"`
	NearMin bool   `json:"near_minimum_length_not_required"`
	Short   bool   `json:"just_above_minimum_judged_in_aggregate"`
	Tandem  bool   `json:"tandem_copy_close_to_the_main_diagonal"`
	Block   string `json:"single_block_difference,omitempty"` // 5 substitutions in a row, or a 5-letter insertion or deletion
	Arm     string `json:"arm_of_a_colinear_pair,omitempty"`  // what lies between this repeat and its neighbour on the same diagonal: n_gap (run of N in the query) or unrelated_gap
}

type c15Plan struct {
	MinHitLen int     `json:"min_hit_length"`
	MinID     float64 `json:"min_identity"`
	Self      bool    `json:"self_comparison"`
	TLen      int     `json:"target_length"`
	QLen      int     `json:"query_length"`
	Lower     bool    `json:"lower_case_letters,omitempty"`
	TOffset   int     `json:"target_offset,omitempty"` // Offset of the sequences handed to PALS (self comparison: one sequence, one offset)
	QOffset   int     `json:"query_offset,omitempty"`
	Plants    []c15Plant
}

func c15RevComp(b []byte) []byte {
	out := make([]byte, len(b))
	for i, c := range b {
		var d byte
		switch c {
		case 'A':
			d = 'T'
		case 'C':
			d = 'G'
		case 'G':
			d = 'C'
		case 'N':
			d = 'N'
		default:
			d = 'A'
		}
		out[len(b)-1-i] = d
	}
	return out
}

// c15NW returns the optimal global alignment score (match +1, mismatch -3, indel -3) and the edit distance.
func c15NW(a, b []byte) (score, edit int) {
	prevS := make([]int, len(b)+1)
	prevE := make([]int, len(b)+1)
	curS := make([]int, len(b)+1)
	curE := make([]int, len(b)+1)
	for j := range prevS {
		prevS[j] = -3 * j
		prevE[j] = j
	}
	for i := 1; i <= len(a); i++ {
		curS[0], curE[0] = -3*i, i
		for j := 1; j <= len(b); j++ {
			s, e := -3, 1
			if a[i-1] == b[j-1] {
				s, e = 1, 0
			}
			curS[j] = refMax(prevS[j-1]+s, prevS[j]-3, curS[j-1]-3)
			curE[j] = minInt(prevE[j-1]+e, minInt(prevE[j], curE[j-1])+1)
		}
		prevS, curS = curS, prevS
		prevE, curE = curE, prevE
	}
	return prevS[len(b)], prevE[len(b)]
}

func init() {
	register(&obs.Monitor{
		ID:    "C15",
		Level: "exploration",
		Rule: "one PALS run (forward and complement-strand searches) per case: random ACGT backgrounds of 2..20 kb, self and non-self, (minimum hit length, minimum identity) from {50,100,200,400}x{0.8,0.85,0.9,0.94} as accepted by Optimise, 1..3 planted repeats of length 1.2..4 x the minimum hit length, exact or with substitutions (in half of the self comparisons also two forward copies 0..11 letters apart, i.e. just above the zone excluded around the main diagonal) " +
			"(and 1..2 short indels in thorough) at an error rate of at most min(1-minId-0.04, 0.03), forward and reverse-complemented. Soundness of every hit: inside both sequences, both extents >= minimum hit length, Error <= 1-minId, Score <= optimum of an independent global alignment (+1/-3/-3) of the two regions, edit distance <= 4*Error*lenB/3. " +
			"Recall: some hit on the right strand covers >= 80% of the planted copy in both sequences; self-comparison never reports the trivial diagonal. " +
			"In a third of the cases also two repeats 8..90 letters apart on one diagonal (between them unrelated letters or, non-self, a run of N in the query); an eighth of the cases in lower case, a fifth with sequence Offsets above both lengths (hit coordinates taken from 0 or from the Offset); " +
			"routes to the hits: Align, AlignFrom (half of them on the slice Trapezoids() returned before the other strand was searched), a reused dp.Aligner, aligners set up with Share (half of them followed by 3..6 sharing aligners run at the same time, each compared with its own answer when run alone). Non-trivial = >=1 hit reported; distinct = plan + sequence hash",
		Batches: func(t string) int {
			if t == "thorough" {
				return 16
			}
			return 8
		},
		Cases:       func(r *obs.Run) int { return r.Share(r.Pick(800, 2400)) },
		Case:        c15Case,
		MinDistinct: func(t string) int { return 150 },
		Floors: func(string) map[string]int64 {
			return map[string]int64{"pals_runs": 200, "hits_checked": 250, "planted_repeats": 250, "planted_reverse_strand": 80, "planted_recovered": 250, "self_comparison_runs": 30, "hits_with_errors": 60, "near_minimum_plants": 60, "short_repeats_with_end_substitutions": 40, "tandem_self_repeats": 20, "plants_with_one_block_difference": 60, "runs_through_alignfrom": 40, "runs_through_a_reused_dp_aligner": 40,
				"colinear_pairs_with_n_gap": 20, "colinear_pairs_with_unrelated_gap": 40, "runs_in_lower_case": 25, "runs_with_sequence_offsets": 40, "alignfrom_runs_on_the_slice_trapezoids_returned": 20, "groups_of_sharing_aligners_run_together": 10}
		},
		Aggregate: func(tier string, c map[string]int64) []obs.Violation {
			tried := c["short_repeats_recovered"] + c["short_repeats_missed"]
			missed := c["short_repeats_missed"]
			var out []obs.Violation
			if missed >= 6 && missed*10 > tried {
				out = append(out, obs.Violation{Class: "short-repeat-recall", Brief: fmt.Sprintf("%d of %d planted repeats just above the minimum hit length (two substitutions a few bases inside the ends) were not recovered; on the pinned tree the rate is about 0.2%%", missed, tried)})
			}
			for _, kind := range []string{"substitutions", "insertion", "deletion"} {
				btried, bmissed := c["block_"+kind+"_recovered"]+c["block_"+kind+"_missed"], c["block_"+kind+"_missed"]
				if bmissed >= 6 && bmissed*20 > btried {
					out = append(out, obs.Violation{Class: "block-difference-recall", Brief: fmt.Sprintf("%d of %d planted repeats carrying one block of five differences (%s; repeat 1.3..1.9 x the minimum hit length) were not recovered; on the pinned tree the rate is below 1%%", bmissed, btried, kind)})
				}
			}
			if utried, umissed := c["plants_behind_a_filter_with_threshold_one_recovered"]+c["plants_behind_a_filter_with_threshold_one_missed"], c["plants_behind_a_filter_with_threshold_one_missed"]; umissed >= 6 && umissed*50 > utried {
				out = append(out, obs.Violation{Class: "threshold-one-recall", Brief: fmt.Sprintf("%d of %d planted repeats were not recovered in runs whose optimised filter has a q-gram threshold of 1; on the pinned tree the rate is below 0.1%%", umissed, utried)})
			}
			for _, kind := range []string{"n_gap", "unrelated_gap"} {
				atried, amissed := c["arms_next_to_"+kind+"_recovered"]+c["arms_next_to_"+kind+"_missed"], c["arms_next_to_"+kind+"_missed"]
				if amissed >= 6 && amissed*20 > atried {
					out = append(out, obs.Violation{Class: "colinear-pair-recall", Brief: fmt.Sprintf("%d of %d planted repeats that have a second repeat 8..90 letters further along the same diagonal (between them: %s; each repeat 1.3..2 x the minimum hit length) were not recovered; on the pinned tree the rate is below 0.1%%", amissed, atried, map[string]string{"n_gap": "a run of N in the query", "unrelated_gap": "unrelated letters"}[kind])})
				}
			}
			return out
		},
		Assumptions: []string{"when Optimise settles for parameters whose q-gram threshold n+1-k(e+1) is 1 (minimum identity 0.80 with word size 5 or more), every shared word is a filter hit, the merged trapezoids are as large as the whole comparison and the aligner finds what its recursion happens to start on: the unchanged pipeline then loses a plain planted repeat now and then (seen: an exact copy of 61 letters at minimum length 50, about 1 plant in 3000). That is a defect with respect to the statement and is listed in known_findings.txt (class planted-repeat-missed-behind-threshold-one-filter); so that it cannot hide a larger loss, a run in which at least 6 and more than 2% of the plants behind such filters are missed is a violation of its own (threshold-one-recall)","two repeats a few letters apart on one diagonal end up in one trapezoid; whether the second is reported depends on the aligner's recursion into the rest of the trapezoid (unrelated letters between them: the unchanged pipeline loses about 1 in 2500 at 15..16 letters) or on the merger splitting the trapezoid (run of N in the query, which the statement's 'otherwise random sequences' does not strictly cover): both kinds are judged as populations, a run is a violation when at least 6 and more than 5% of one kind are missed. Runs of N in the target or away from the repeats are not generated (the unchanged pipeline loses about 1.5% of intact repeats next to them at word sizes 5..6)",
			"aligners set up with Share hold only the index and the two parameter structs in common, none of which a search writes: they are taken to be usable at the same time from one goroutine each, as a driver with one index and many queries runs them",
			"the statement does not say whether hit coordinates count from the first letter or from the sequence's Offset: both are accepted (the pinned tree counts from the first letter); lower-case letters are the same letters under alphabet.DNA, but only sequences that are in one case throughout are generated (a lower-case copy of an upper-case repeat is not found by the unchanged pipeline)",
			"a single block of five differences costs exactly what the aligner's drop-off tolerates, so repeats carrying one (and too short for either arm to make a hit alone) sit on the algorithm's boundary: the unchanged pipeline loses about 1 in 200 of them; they are judged as a population, per kind of block: a run is a violation when at least 6 and more than 5% of one kind are missed",
			"repeats only 2..12 letters longer than the minimum hit length are not reliably recovered even by the unchanged pipeline (about 1 in 700 missed): they are judged as a population - a run is a violation when at least 6 and more than 10% of them are missed", "planted copies do not overlap each other or (in self comparison) their source", "index memory is capped at 48 MB so that Optimise chooses a word size the sandbox can index",
			"'comfortably above the threshold' is taken as an error rate of at most min(1-minId-0.04, 0.03) (two substitutions for the short repeats just above the minimum length, where 1-minId-0.04 allows them); 'most of the planted copy' as 80%"},
	})
}

func c15Case(r *obs.Run, i int) {
	rng := r.Rng
	pl := c15Plan{MinHitLen: []int{50, 100, 200, 400}[rng.Intn(4)], MinID: []float64{0.8, 0.85, 0.9, 0.94}[rng.Intn(4)], Self: rng.Intn(4) == 0}
	tandem := false
	if pl.Self && rng.Intn(2) == 0 { // see below: close copies need a small minimum hit length to be possible at all
		tandem = true
		pl.MinHitLen = []int{50, 50, 100}[rng.Intn(3)]
	}
	maxLen := r.Pick(8000, 20000)
	pl.TLen = 2000 + rng.Intn(maxLen-1999)
	pl.QLen = 2000 + rng.Intn(maxLen-1999)
	if pl.MinID == 0.8 && rng.Intn(3) == 0 {
		// a target past 15360 letters at this identity: no word size satisfies both the index bound and the q-gram
		// lemma for the whole hit length, so Optimise settles for a filter seed shorter than the minimum hit length
		pl.TLen = 15400 + rng.Intn(3000)
	}
	T := c14Rand(rng, pl.TLen)
	Q := c14Rand(rng, pl.QLen)
	if pl.Self {
		Q = T
		pl.QLen = pl.TLen
	}
	nplant := 1 + rng.Intn(3)
	type iv struct{ s, e int }
	var usedT, usedQ []iv
	free := func(used []iv, s, e int) bool {
		for _, u := range used {
			if s < u.e+20 && u.s < e+20 {
				return false
			}
		}
		return true
	}
	// self comparison, two forward copies next to each other (0..11 letters apart): the repeat's diagonal is only a
	// little more than its own length above the main diagonal, next to the zone excluded for the trivial self match
	if pl.Self && tandem {
		L := int(float64(pl.MinHitLen) * (1.2 + 0.3*rng.Float64()))
		gap := rng.Intn(12)
		a0 := 50 + rng.Intn(pl.TLen-2*L-gap-100)
		b0 := a0 + L + gap
		w := append([]byte(nil), T[a0:a0+L]...)
		p := c15Plant{A0: a0, A1: a0 + L, B0: b0, B1: b0 + L, Tandem: true}
		if rng.Intn(3) == 0 {
			p.Subs = 1
			w = c14Mutate(rng, w, 1)
		}
		copy(Q[b0:], w)
		usedT = append(usedT, iv{a0, b0 + L})
		usedQ = append(usedQ, iv{a0, b0 + L})
		pl.Plants = append(pl.Plants, p)
		r.Count("tandem_self_repeats", 1)
	}
	// two repeats in a row on one diagonal: one source window of l1+d+l2 letters (arms of 1.3..2 x the minimum hit length)
	// whose d middle letters are, in the copy, either unrelated random letters (one trapezoid covers both arms, so one of
	// them can only come from the aligner's recursion into the rest of the trapezoid) or, non-self only, a run of N
	// in the query (the merger has to split the trapezoid at the run). Each arm is a planted repeat in its own right;
	// both kinds are judged as populations (see the assumptions)
	if rng.Intn(3) == 0 {
		kind := "unrelated_gap"
		d := 8 + rng.Intn(53)
		if !pl.Self && rng.Intn(2) == 0 {
			kind = "n_gap"
			d = 8 + rng.Intn(83)
		}
		l1 := int(float64(pl.MinHitLen) * (1.3 + 0.7*rng.Float64()))
		l2 := int(float64(pl.MinHitLen) * (1.3 + 0.7*rng.Float64()))
		L := l1 + d + l2
		ok := false
		var a0, b0 int
		for try := 0; try < 50 && !ok && L+40 <= pl.TLen/3 && L+40 <= pl.QLen/3; try++ {
			a0 = rng.Intn(pl.TLen - L)
			b0 = rng.Intn(pl.QLen - L - 8)
			ok = free(usedT, a0, a0+L) && free(usedQ, b0, b0+L)
			if pl.Self {
				ok = ok && free(usedT, b0, b0+L) && free(usedQ, a0, a0+L) && (b0 > a0+L+20 || a0 > b0+L+28)
			}
		}
		if ok {
			w := append([]byte(nil), T[a0:a0+L]...)
			for x := l1; x < l1+d; x++ {
				w[x] = 'N'
				if kind == "unrelated_gap" {
					w[x] = "ACGT"[rng.Intn(4)]
				}
			}
			rev := rng.Intn(2) == 0
			if rev {
				w = c15RevComp(w)
			}
			copy(Q[b0:], w)
			p1 := c15Plant{A0: a0, A1: a0 + l1, B0: b0, B1: b0 + l1, Reverse: rev, Arm: kind}
			p2 := c15Plant{A0: a0 + l1 + d, A1: a0 + L, B0: b0 + l1 + d, B1: b0 + L, Reverse: rev, Arm: kind}
			if rev {
				p1.B0, p1.B1, p2.B0, p2.B1 = b0+d+l2, b0+L, b0, b0+l2
			}
			usedT = append(usedT, iv{a0, a0 + L})
			usedQ = append(usedQ, iv{b0, b0 + L})
			pl.Plants = append(pl.Plants, p1, p2)
			r.Count("colinear_pairs_with_"+kind, 1)
		}
	}
	for k := 0; k < nplant; k++ {
		L := int(float64(pl.MinHitLen) * (1.2 + 2.8*rng.Float64()))
		// one block of differences as costly as the aligner's drop-off allows (5 letters), in a repeat too short for
		// either side of the block to make a hit on its own
		block := ""
		if rng.Intn(4) == 0 {
			lb := int(float64(pl.MinHitLen) * (1.3 + 0.6*rng.Float64()))
			if 5.0/float64(lb) <= 1-pl.MinID-0.04 {
				L, block = lb, []string{"substitutions", "insertion", "deletion", "deletion"}[rng.Intn(4)]
			}
		}
		if L+40 > pl.TLen/3 || L+40 > pl.QLen/3 {
			continue
		}
		var a0, b0 int
		ok := false
		for try := 0; try < 50 && !ok; try++ {
			a0 = rng.Intn(pl.TLen - L)
			b0 = rng.Intn(pl.QLen - L - 8)
			ok = free(usedT, a0, a0+L) && free(usedQ, b0, b0+L+8)
			if pl.Self {
				ok = ok && free(usedT, b0, b0+L+8) && free(usedQ, a0, a0+L) && (b0 > a0+L+20 || a0 > b0+L+28)
			}
		}
		if !ok {
			continue
		}
		maxRate := 1 - pl.MinID - 0.04
		if maxRate > 0.03 {
			maxRate = 0.03
		}
		if maxRate < 0 {
			maxRate = 0
		}
		p := c15Plant{A0: a0, A1: a0 + L, B0: b0, Reverse: rng.Intn(2) == 0}
		w := append([]byte(nil), T[a0:a0+L]...)
		if block != "" {
			p.Block = block
			pos := L/4 + rng.Intn(L/2)
			if rng.Intn(3) != 0 { // beyond the middle of the repeat, where the forward extension has to cross it
				pos = L/2 + rng.Intn(L/4)
			}
			switch block {
			case "substitutions":
				for x := pos; x < pos+5; x++ {
					w[x] = "ACGT"[(strings.IndexByte("ACGT", w[x])+1+rng.Intn(3))%4]
				}
				p.Subs = 5
			case "insertion":
				ins := []byte{"ACGT"[rng.Intn(4)], "ACGT"[rng.Intn(4)], "ACGT"[rng.Intn(4)], "ACGT"[rng.Intn(4)], "ACGT"[rng.Intn(4)]}
				w = append(w[:pos], append(ins, w[pos:]...)...)
				p.Indels = 5
			default:
				w = append(w[:pos], w[pos+5:]...)
				p.Indels = 5
			}
			r.Count("plants_with_one_block_difference", 1)
		} else if rng.Intn(3) != 0 {
			p.Subs = int(rng.Float64() * maxRate * float64(L))
			w = c14Mutate(rng, w, p.Subs)
			if r.Thorough() && rng.Intn(2) == 0 && p.Subs >= 2 {
				p.Indels = 1 + rng.Intn(2)
				for x := 0; x < p.Indels; x++ {
					pos := 10 + rng.Intn(len(w)-20)
					if rng.Intn(2) == 0 {
						w = append(w[:pos], w[pos+1:]...)
					} else {
						w = append(w[:pos], append([]byte{"ACGT"[rng.Intn(4)]}, w[pos:]...)...)
					}
				}
			}
		}
		if p.Reverse {
			w = c15RevComp(w)
		}
		p.B1 = b0 + len(w)
		copy(Q[b0:], w)
		usedT = append(usedT, iv{a0, a0 + L})
		usedQ = append(usedQ, iv{b0, p.B1})
		pl.Plants = append(pl.Plants, p)
		// a repeat family: the same source window copied once more, somewhere else in the query (exact copies, forward):
		// both pairings are planted repeats in their own right
		if !pl.Self && block == "" && p.Subs == 0 && p.Indels == 0 && !p.Reverse && rng.Intn(3) == 0 {
			for try := 0; try < 50; try++ {
				c0 := rng.Intn(pl.QLen - L - 8)
				if !free(usedQ, c0, c0+L) {
					continue
				}
				copy(Q[c0:], T[a0:a0+L])
				usedQ = append(usedQ, iv{c0, c0 + L})
				pl.Plants = append(pl.Plants, c15Plant{A0: a0, A1: a0 + L, B0: c0, B1: c0 + L})
				r.Count("second_copies_of_a_source_window", 1)
				break
			}
		}
	}
	// short repeats, just above the minimum hit length, whose only differences sit a few bases inside each end:
	// the span of shared k-mers is then shorter than the minimum hit length although the repeat is not
	if 1-pl.MinID-0.04 >= 2.0/float64(pl.MinHitLen) && rng.Intn(2) == 0 {
		for try := 0; try < 50; try++ {
			L := pl.MinHitLen + 2 + rng.Intn(11)
			a0 := rng.Intn(pl.TLen - L)
			b0 := rng.Intn(pl.QLen - L - 8)
			ok := free(usedT, a0, a0+L) && free(usedQ, b0, b0+L)
			if pl.Self {
				ok = ok && free(usedT, b0, b0+L) && free(usedQ, a0, a0+L) && (b0 > a0+L+20 || a0 > b0+L+20)
			}
			if !ok {
				continue
			}
			w := append([]byte(nil), T[a0:a0+L]...)
			for _, pos := range []int{5 + rng.Intn(5), L - 6 - rng.Intn(5)} {
				for {
					c := "ACGT"[rng.Intn(4)]
					if c != w[pos] {
						w[pos] = c
						break
					}
				}
			}
			p := c15Plant{A0: a0, A1: a0 + L, B0: b0, Reverse: rng.Intn(2) == 0, Subs: 2, Short: true}
			if p.Reverse {
				w = c15RevComp(w)
			}
			p.B1 = b0 + len(w)
			copy(Q[b0:], w)
			usedT = append(usedT, iv{a0, a0 + L})
			usedQ = append(usedQ, iv{b0, p.B1})
			pl.Plants = append(pl.Plants, p)
			r.Count("short_repeats_with_end_substitutions", 1)
			break
		}
	}
	// near-minimum plants: the target copy is a few bases shorter than the minimum hit length, the query copy
	// (the same letters with single-base insertions) reaches it. Such a pair need not be reported, but whatever
	// is reported must still be at least the minimum length on both sequences.
	if rng.Intn(2) == 0 {
		for try := 0; try < 50; try++ {
			d := 1 + rng.Intn(3)
			lt := pl.MinHitLen - d
			ins := d + rng.Intn(2)
			a0 := rng.Intn(pl.TLen - lt)
			b0 := rng.Intn(pl.QLen - lt - ins - 8)
			ok := free(usedT, a0, a0+lt) && free(usedQ, b0, b0+lt+ins)
			if pl.Self {
				ok = ok && free(usedT, b0, b0+lt+ins) && free(usedQ, a0, a0+lt) && (b0 > a0+lt+20 || a0 > b0+lt+ins+20)
			}
			if !ok {
				continue
			}
			w := append([]byte(nil), T[a0:a0+lt]...)
			for x := 0; x < ins; x++ {
				pos := 5 + rng.Intn(len(w)-10)
				w = append(w[:pos], append([]byte{"ACGT"[rng.Intn(4)]}, w[pos:]...)...)
			}
			p := c15Plant{A0: a0, A1: a0 + lt, B0: b0, Reverse: rng.Intn(2) == 0, Indels: ins, NearMin: true}
			if p.Reverse {
				w = c15RevComp(w)
			}
			p.B1 = b0 + len(w)
			copy(Q[b0:], w)
			usedT = append(usedT, iv{a0, a0 + lt})
			usedQ = append(usedQ, iv{b0, p.B1})
			pl.Plants = append(pl.Plants, p)
			r.Count("near_minimum_plants", 1)
			break
		}
	}
	// the same letters in lower case (the DNA alphabet is declared case-insensitive), and sequences whose Offset is not 0
	// (larger than either length, so that a coordinate tells by its size whether it counts from the offset)
	pl.Lower = rng.Intn(8) == 0
	if rng.Intn(5) == 0 {
		pl.TOffset = maxInt(pl.TLen, pl.QLen) + 1 + rng.Intn(50000)
		pl.QOffset = maxInt(pl.TLen, pl.QLen) + 1 + rng.Intn(50000)
		if pl.Self {
			pl.QOffset = pl.TOffset
		}
		r.Count("runs_with_sequence_offsets", 1)
	}
	scratch := c11Scratch(r)
	defer os.RemoveAll(scratch)
	r.Crumb(fmt.Sprintf("%+v T=%s Q=%s", pl, T, Q))
	w := map[string]interface{}{"plan": pl, "target": string(T)}
	if !pl.Self {
		w["query"] = string(Q)
	}
	fail := func(class, what string) {
		w["what"] = what
		r.Violate(class, fmt.Sprintf("minHitLen=%d minId=%.2f self=%v: %s", pl.MinHitLen, pl.MinID, pl.Self, what), w)
	}
	defer func() {
		if e := recover(); e != nil {
			fail("panic", fmt.Sprintf("panic: %v", e))
		}
	}()
	letters := func(b []byte) alphabet.Letters {
		if pl.Lower {
			return alphabet.BytesToLetters(bytes.ToLower(b))
		}
		return alphabet.BytesToLetters(append([]byte(nil), b...))
	}
	ts := linear.NewSeq("t", letters(T), alphabet.DNA)
	ts.Offset = pl.TOffset
	qs := ts
	if !pl.Self {
		qs = linear.NewSeq("q", letters(Q), alphabet.DNA)
		qs.Offset = pl.QOffset
	}
	if pl.Lower {
		r.Count("runs_in_lower_case", 1)
	}
	m, err := morass.New(filter.Hit{}, "c15", scratch, 1<<14, false)
	if err != nil {
		r.Inconclusive("morass.New: " + err.Error())
		return
	}
	mem := uintptr(48 << 20)
	pa := pals.New(ts, qs, pl.Self, m, 0, &mem, nil)
	defer pa.CleanUp()
	if err := pa.Optimise(pl.MinHitLen, pl.MinID); err != nil {
		r.Count("optimise_rejected", 1)
		return
	}
	if err := pa.BuildIndex(); err != nil {
		fail("pals-error", "BuildIndex: "+err.Error())
		return
	}
	w["filter_params"] = *pa.FilterParams
	// the q-gram threshold of the optimised filter: at 1 every shared word is a filter hit, the merger glues them into a
	// few trapezoids as large as the whole comparison and the aligner samples those rather than searching them
	unselective := pa.FilterParams.MinMatch+1-pa.FilterParams.WordSize*(pa.FilterParams.MaxError+1) <= 1
	if pa.FilterParams.MinMatch != pl.MinHitLen {
		r.Count("runs_where_optimise_shortened_the_filter_seed", 1)
	}
	var hits [2]dp.Hits
	var traps [2]filter.Trapezoids
	var held filter.Trapezoids // what Trapezoids() returned after the forward search, kept as it is while the aligner goes on
	for strand := 0; strand < 2; strand++ {
		hits[strand], err = pa.Align(strand == 1)
		if err != nil {
			fail("pals-error", fmt.Sprintf("Align(complement=%v): %v", strand == 1, err))
			return
		}
		traps[strand] = append(filter.Trapezoids(nil), pa.Trapezoids()...)
		if strand == 0 {
			held = pa.Trapezoids()
		}
	}
	// other ways to the same hits: the trapezoids of each search, saved by the caller, handed back later to AlignFrom (by
	// then the aligner last saw the other strand's), or given to one dp.Aligner that is then used again while the caller
	// still holds the first answer
	route := []string{"Align", "Align", "AlignFrom", "dp.Aligner", "Share"}[rng.Intn(5)]
	if route == "Share" && pl.Self {
		route = "Align"
	}
	w["route_to_the_hits"] = route
	switch route {
	case "AlignFrom":
		if rng.Intn(2) == 0 { // the caller kept the slice Trapezoids() gave it instead of a copy
			traps[0] = held
			w["route_to_the_hits"] = "AlignFrom, forward trapezoids as returned by Trapezoids() before the complement search"
			r.Count("alignfrom_runs_on_the_slice_trapezoids_returned", 1)
		}
		for _, strand := range []int{0, 1} {
			hits[strand], err = pa.AlignFrom(traps[strand], strand == 1)
			if err != nil {
				fail("pals-error", fmt.Sprintf("AlignFrom(complement=%v): %v", strand == 1, err))
				return
			}
		}
		r.Count("runs_through_alignfrom", 1)
	case "Share":
		// a second aligner for the same target that takes index and settings over from the first (as the pals command
		// does for every further query); the first one meanwhile works on another query
		oq := linear.NewSeq("other", alphabet.BytesToLetters(c14Rand(rng, pl.QLen)), alphabet.DNA)
		m2, err := morass.New(filter.Hit{}, "c15b", scratch, 1<<14, false)
		if err != nil {
			r.Inconclusive("morass.New: " + err.Error())
			return
		}
		pb := pals.New(ts, qs, false, m2, 0, &mem, nil)
		defer pb.CleanUp()
		pb.Share(pa)
		po := pals.New(ts, oq, false, m, 0, &mem, nil)
		po.Share(pa)
		for _, step := range []int{0, 2, 1, 3} {
			switch step {
			case 0, 1:
				hits[step], err = pb.Align(step == 1)
				if err != nil {
					fail("pals-error", fmt.Sprintf("Align(complement=%v) of an aligner set up with Share: %v", step == 1, err))
					return
				}
			default:
				if _, err := po.Align(step == 3); err != nil {
					fail("pals-error", fmt.Sprintf("Align of a second sharing aligner: %v", err))
					return
				}
			}
		}
		r.Count("runs_through_share", 1)
		// several sharing aligners at work at the same time, one goroutine per query (one index, many queries): each must
		// answer what it answers when it runs alone
		if rng.Intn(2) == 0 {
			n := 3 + rng.Intn(4)
			what, err := c15Together(r, n, ts, qs, pa, T, scratch, &mem)
			if err != nil {
				r.Inconclusive("morass.New: " + err.Error())
				return
			}
			if what != "" {
				fail("sharing-aligners-interfere", what)
				return
			}
			r.Count("groups_of_sharing_aligners_run_together", 1)
			r.Count("sharing_aligners_run_together", int64(n))
		}
	case "dp.Aligner":
		al := dp.NewAligner(ts, qs, pa.FilterParams.WordSize, pa.DPParams.MinHitLength, pa.DPParams.MinId)
		al.Costs = &pa.Costs
		hits[0] = al.AlignTraps(traps[0])
		if n := len(traps[0]); n > 0 { // the same aligner again, on part of the trapezoids; hits[0] stays the caller's
			al.AlignTraps(append(filter.Trapezoids(nil), traps[0][n/2:]...))
			al.AlignTraps(append(filter.Trapezoids(nil), traps[0][:n/2]...))
		}
		r.Count("runs_through_a_reused_dp_aligner", 1)
	}
	r.Count("pals_runs", 1)
	if pl.Self {
		r.Count("self_comparison_runs", 1)
	}
	if pl.TOffset != 0 {
		// the statement does not say whether coordinates count from the start of the letters or from the sequence's Offset:
		// either is taken (the offsets exceed both lengths, so the two readings cannot be confused)
		for strand := range hits {
			for x := range hits[strand] {
				h := &hits[strand][x]
				if h.Abpos >= pl.TOffset {
					h.Abpos, h.Aepos = h.Abpos-pl.TOffset, h.Aepos-pl.TOffset
					r.Count("hit_coordinates_counted_from_the_offset", 1)
				}
				if h.Bbpos >= pl.QOffset {
					h.Bbpos, h.Bepos = h.Bbpos-pl.QOffset, h.Bepos-pl.QOffset
				}
			}
		}
	}
	RC := c15RevComp(Q)
	nh := 0
	for strand := 0; strand < 2; strand++ {
		B := Q
		if strand == 1 {
			B = RC
		}
		for _, h := range hits[strand] {
			nh++
			r.Count("hits_checked", 1)
			desc := fmt.Sprintf("hit A[%d,%d) B[%d,%d) score %d error %.4f (complement=%v)", h.Abpos, h.Aepos, h.Bbpos, h.Bepos, h.Score, h.Error, strand == 1)
			if h.Abpos < 0 || h.Aepos > pl.TLen || h.Bbpos < 0 || h.Bepos > pl.QLen || h.Abpos > h.Aepos || h.Bbpos > h.Bepos {
				fail("hit-out-of-bounds", desc+" lies outside the sequences")
				return
			}
			la, lb := h.Aepos-h.Abpos, h.Bepos-h.Bbpos
			if la < pl.MinHitLen || lb < pl.MinHitLen {
				fail("hit-too-short", desc+fmt.Sprintf(" is shorter than the minimum hit length %d", pl.MinHitLen))
				return
			}
			if h.Error > 1-pl.MinID+1e-12 {
				fail("hit-error-above-limit", desc+fmt.Sprintf(" reports error above 1-minId=%.4f", 1-pl.MinID))
				return
			}
			opt, edit := c15NW(T[h.Abpos:h.Aepos], B[h.Bbpos:h.Bepos])
			if h.Score > opt {
				fail("hit-score-above-optimum", desc+fmt.Sprintf(": reported score exceeds the optimal global alignment score %d of the two regions", opt))
				return
			}
			if float64(edit) > 4*h.Error*float64(lb)/3+1e-9 {
				fail("hit-error-understated", desc+fmt.Sprintf(": edit distance %d exceeds 4*Error*lenB/3 = %.2f", edit, 4*h.Error*float64(lb)/3))
				return
			}
			if h.Error > 0 {
				r.Count("hits_with_errors", 1)
			}
			if pl.Self && strand == 0 && h.Abpos == h.Bbpos && h.Aepos == h.Bepos {
				class := "trivial-self-hit"
				if pa.FilterParams.MaxError < pals.MaxIGap {
					// known finding: with fewer filter errors than the aligner's indel allowance the band next to the
					// diagonal is not excluded and the banded DP drifts onto the main diagonal
					class = "trivial-self-hit-small-maxerror"
				}
				w["what"] = desc + " is the trivial self match"
				r.Violate(class, fmt.Sprintf("minHitLen=%d minId=%.2f filter %+v: %s is the trivial self match", pl.MinHitLen, pl.MinID, *pa.FilterParams, desc), w)
				if class == "trivial-self-hit" {
					return
				}
			}
		}
	}
	for _, p := range pl.Plants {
		if p.NearMin {
			continue
		}
		if !p.Short {
			r.Count("planted_repeats", 1)
		}
		strand := 0
		b0, b1 := p.B0, p.B1
		if p.Reverse {
			strand = 1
			b0, b1 = pl.QLen-p.B1, pl.QLen-p.B0
			r.Count("planted_reverse_strand", 1)
		}
		found := false
		overlap := func(s, e, ps, pe int) float64 {
			o := minInt(e, pe) - maxInt(s, ps)
			if o < 0 {
				o = 0
			}
			return float64(o) / float64(pe-ps)
		}
		best := 0.0
		for _, h := range hits[strand] {
			ca, cb := overlap(h.Abpos, h.Aepos, p.A0, p.A1), overlap(h.Bbpos, h.Bepos, b0, b1)
			if pl.Self && strand == 0 {
				// in self comparison the pair may be reported with the roles of the two copies exchanged
				ca2, cb2 := overlap(h.Bbpos, h.Bepos, p.A0, p.A1), overlap(h.Abpos, h.Aepos, b0, b1)
				if minF(ca2, cb2) > minF(ca, cb) {
					ca, cb = ca2, cb2
				}
			}
			if pl.Self && strand == 1 {
				// complement coordinates of the source copy when roles are exchanged
				ca2 := overlap(h.Bbpos, h.Bepos, pl.QLen-p.A1, pl.QLen-p.A0)
				cb2 := overlap(h.Abpos, h.Aepos, p.B0, p.B1)
				if minF(ca2, cb2) > minF(ca, cb) {
					ca, cb = ca2, cb2
				}
			}
			if minF(ca, cb) > best {
				best = minF(ca, cb)
			}
			if ca >= 0.8 && cb >= 0.8 {
				found = true
			}
		}
		if !found && p.Short {
			// repeats only just above the minimum length are judged as a population (see Aggregate)
			r.Count("short_repeats_missed", 1)
			continue
		}
		if p.Block != "" { // likewise (see the assumptions)
			if found {
				r.Count("block_"+p.Block+"_recovered", 1)
			} else {
				r.Count("block_"+p.Block+"_missed", 1)
			}
			continue
		}
		if p.Arm != "" { // likewise
			if found {
				r.Count("arms_next_to_"+p.Arm+"_recovered", 1)
			} else {
				r.Count("arms_next_to_"+p.Arm+"_missed", 1)
			}
			continue
		}
		if unselective { // likewise: see the assumptions
			if found {
				r.Count("plants_behind_a_filter_with_threshold_one_recovered", 1)
			} else {
				r.Count("plants_behind_a_filter_with_threshold_one_missed", 1)
				// a miss the pinned tree itself produces now and then: listed in known_findings.txt under this class; more
				// than a few of them in one run is a violation of its own (see Aggregate)
				w["hits_forward"] = fmt.Sprint(hits[0])
				w["hits_complement"] = fmt.Sprint(hits[1])
				fail("planted-repeat-missed-behind-threshold-one-filter", fmt.Sprintf("planted repeat %+v (length %d, %d substitutions, %d indels) is not covered to 80%% by any hit on its strand (best %.0f%%); the optimised filter %+v has a q-gram threshold of 1", p, p.A1-p.A0, p.Subs, p.Indels, 100*best, *pa.FilterParams))
			}
			continue
		}
		if !found {
			w["hits_forward"] = fmt.Sprint(hits[0])
			w["hits_complement"] = fmt.Sprint(hits[1])
			fail("planted-repeat-missed", fmt.Sprintf("planted repeat %+v (length %d, %d substitutions, %d indels) is not covered to 80%% by any hit on its strand (best %.0f%%)", p, p.A1-p.A0, p.Subs, p.Indels, 100*best))
			return
		}
		if p.Short {
			r.Count("short_repeats_recovered", 1)
			continue
		}
		r.Count("planted_recovered", 1)
	}
	// the caller writes another query into the same sequence object (same length, one fresh reverse-complemented copy of
	// a target window in it) and searches the complement strand again with the same aligner: nothing of the first query
	// may be remembered
	if !pl.Self && pl.TOffset == 0 && pl.QOffset == 0 && !unselective && rng.Intn(4) == 0 {
		L := 2 * pl.MinHitLen
		if L+10 < pl.TLen/2 && L+10 < pl.QLen/2 {
			Q2 := c14Rand(rng, pl.QLen)
			a0, b0 := rng.Intn(pl.TLen-L), rng.Intn(pl.QLen-L)
			copy(Q2[b0:], c15RevComp(T[a0:a0+L]))
			nl := letters(Q2)
			copy(qs.Seq, nl)
			w["second_query_written_into_the_same_object"] = string(Q2)
			hits2, err := pa.Align(true)
			if err != nil {
				fail("pals-error", "Align(complement=true) after the caller rewrote the query in place: "+err.Error())
				return
			}
			RC2 := c15RevComp(Q2)
			found := false
			for _, h := range hits2 {
				desc := fmt.Sprintf("after the caller rewrote the query in place: hit A[%d,%d) B[%d,%d) score %d error %.4f (complement=true)", h.Abpos, h.Aepos, h.Bbpos, h.Bepos, h.Score, h.Error)
				if h.Abpos < 0 || h.Aepos > pl.TLen || h.Bbpos < 0 || h.Bepos > pl.QLen || h.Abpos > h.Aepos || h.Bbpos > h.Bepos {
					fail("hit-out-of-bounds", desc+" lies outside the sequences")
					return
				}
				if opt, _ := c15NW(T[h.Abpos:h.Aepos], RC2[h.Bbpos:h.Bepos]); h.Score > opt {
					fail("hit-score-above-optimum", desc+fmt.Sprintf(": reported score exceeds the optimal global alignment score %d of the two regions of the sequences as they are now", opt))
					return
				}
				oa := minInt(h.Aepos, a0+L) - maxInt(h.Abpos, a0)
				ob := minInt(h.Bepos, pl.QLen-b0) - maxInt(h.Bbpos, pl.QLen-b0-L)
				if 10*oa >= 8*L && 10*ob >= 8*L {
					found = true
				}
			}
			if !found {
				w["hits_complement_second_query"] = fmt.Sprint(hits2)
				fail("planted-repeat-missed", fmt.Sprintf("after the caller rewrote the query in place, the reverse-complemented copy of target[%d,%d) at query[%d,%d) is not covered to 80%% by any hit of a second complement-strand search with the same aligner", a0, a0+L, b0, b0+L))
				return
			}
			r.Count("second_searches_after_the_query_was_rewritten_in_place", 1)
		}
	}
	r.Note(fmt.Sprintf("%+v/%x", pl, hashBytes(T)), nh > 0)
	if r.WantSample() {
		r.Sample(map[string]interface{}{"plan": pl, "filter_params": *pa.FilterParams, "hits_forward": fmt.Sprint(hits[0]), "hits_complement": fmt.Sprint(hits[1])})
	}
}

// c15Together sets up n aligners that share pa's index and settings (the first on the query qs, the others on queries
// of their own, each with a stretch of the target in it), lets each search both strands alone, then all of them at the
// same time on one goroutine each, twice over. It returns a description of the first answer that differs from the one
// given alone (or of the error or panic), "" if there is none. Nothing of r is touched off the calling goroutine.
func c15Together(r *obs.Run, n int, ts, qs *linear.Seq, pa *pals.PALS, T []byte, scratch string, mem *uintptr) (string, error) {
	rng := r.Rng
	type job struct {
		p     *pals.PALS
		alone [2]dp.Hits
		what  string
	}
	jobs := make([]*job, n)
	for j := range jobs {
		q := qs
		if j > 0 {
			b := c14Rand(rng, 1500+rng.Intn(2500))
			l := 150 + rng.Intn(450)
			copy(b[rng.Intn(len(b)-l):], T[rng.Intn(len(T)-l):][:l])
			q = linear.NewSeq(fmt.Sprintf("q%d", j), alphabet.BytesToLetters(b), alphabet.DNA)
		}
		m, err := morass.New(filter.Hit{}, fmt.Sprintf("c15s%d", j), scratch, 1<<14, false)
		if err != nil {
			return "", err
		}
		jb := &job{p: pals.New(ts, q, false, m, 0, mem, nil)}
		defer jb.p.CleanUp()
		jb.p.Share(pa)
		for strand := 0; strand < 2; strand++ {
			if jb.alone[strand], err = jb.p.Align(strand == 1); err != nil {
				return fmt.Sprintf("Align(complement=%v) of sharing aligner %d of %d, run alone: %v", strand == 1, j, n, err), nil
			}
		}
		jobs[j] = jb
	}
	start := make(chan struct{})
	var wg sync.WaitGroup
	for j, jb := range jobs {
		wg.Add(1)
		go func(j int, jb *job) {
			defer wg.Done()
			defer func() {
				if e := recover(); e != nil {
					jb.what = fmt.Sprintf("sharing aligner %d of %d, all at work at the same time: panic: %v", j, n, e)
				}
			}()
			<-start
			for rep := 0; rep < 2; rep++ {
				for strand := 0; strand < 2; strand++ {
					h, err := jb.p.Align(strand == 1)
					if err != nil {
						jb.what = fmt.Sprintf("Align(complement=%v) of sharing aligner %d of %d, all at work at the same time: %v", strand == 1, j, n, err)
						return
					}
					if !c15SameHits(h, jb.alone[strand]) && jb.what == "" {
						jb.what = fmt.Sprintf("Align(complement=%v) of sharing aligner %d of %d gives %v while the others are at work, but %v when it runs alone", strand == 1, j, n, h, jb.alone[strand])
					}
				}
			}
		}(j, jb)
	}
	close(start)
	wg.Wait()
	for _, jb := range jobs {
		if jb.what != "" {
			return jb.what, nil
		}
	}
	return "", nil
}

func c15SameHits(a, b dp.Hits) bool {
	if len(a) != len(b) {
		return false
	}
	for i := range a {
		if a[i] != b[i] {
			return false
		}
	}
	return true
}

func minF(a, b float64) float64 {
	if a < b {
		return a
	}
	return b
}
