package main

import (
	"fmt"
	"math/rand"
	"strings"

	"github.com/biogo/biogo/alphabet"
	"github.com/biogo/biogo/feat"
	"github.com/biogo/biogo/seq"
	"github.com/biogo/biogo/seq/alignment"
	"github.com/biogo/biogo/seq/linear"
	"github.com/biogo/biogo/seq/multi"
)

// Clean-room model of the sequence containers used by the C05 and C07 monitors.
//
// Kinds: lseq (linear.Seq), lqseq (linear.QSeq), aseq (alignment.Seq), aqseq (alignment.QSeq),
// mseq / mqseq (multi.Multi of linear.Seq / linear.QSeq rows), set (multi.Set).

type mRow struct {
	L      []byte
	Q      []byte // meaningful only when the container carries qualities
	Start  int    // row offset (for alignment rows: the sub-annotation offset, which does not place letters)
	Strand int8
	Name   string
}

type mCont struct {
	Kind   string
	Alpha  string
	Rows   []mRow
	Strand int8 // alignment strand
	Off    int  // column-stored: the alignment's offset; multi.Multi: the offset the container has recorded (moved by Multi.SetOffset only)
}

func (m *mCont) hasQ() bool {
	return m.Kind == "lqseq" || m.Kind == "aqseq" || m.Kind == "mqseq" || m.Kind == "qset"
}
func (m *mCont) isSet() bool { return m.Kind == "set" || m.Kind == "qset" }
func (m *mCont) colStored() bool  { return m.Kind == "aseq" || m.Kind == "aqseq" }
func (m *mCont) isMulti() bool    { return m.Kind == "mseq" || m.Kind == "mqseq" }
func (m *mCont) isLinear() bool   { return m.Kind == "lseq" || m.Kind == "lqseq" }
func (m *mCont) alpha() alphabet.Alphabet { return seqAlphas[m.Alpha].a }

func (m *mCont) clone() *mCont {
	c := *m
	c.Rows = make([]mRow, len(m.Rows))
	for i, r := range m.Rows {
		c.Rows[i] = mRow{append([]byte(nil), r.L...), append([]byte(nil), r.Q...), r.Start, r.Strand, r.Name}
	}
	return &c
}

type seqAlpha struct {
	a      alphabet.Alphabet
	paired string // letters the pairing covers (complementing alphabets)
}

var seqAlphas = map[string]seqAlpha{
	"DNA":          {alphabet.DNA, "acgtnxACGTNX-"},
	"DNAgapped":    {alphabet.DNAgapped, "acgtnxACGTNX-"},
	"DNAredundant": {alphabet.DNAredundant, "acmgrsvtwyhkdbnxACMGRSVTWYHKDBNX-"},
	"RNA":          {alphabet.RNA, "acgunxACGUNX-"},
	"RNAgapped":    {alphabet.RNAgapped, "acgunxACGUNX-"},
	"RNAredundant": {alphabet.RNAredundant, "acmgrsvuwyhkdbnxACMGRSVUWYHKDBNX-"},
}

var seqAlphaNames = []string{"DNA", "DNAgapped", "DNAredundant", "RNA", "RNAgapped", "RNAredundant"}

// Alphabets without a pairing, for the histories that never complement (C07): the protein alphabet (26 letters) and two
// case-sensitive ones, so that "up to case" in the consensus clause meets alphabets in which the other case of a valid
// letter is invalid, or is another letter with an index of its own.
var (
	casedUpperAlpha = alphabet.Must(alphabet.NewAlphabet("-ACGTN", feat.DNA, '-', 'N', alphabet.CaseSensitive))
	casedBothAlpha  = alphabet.Must(alphabet.NewAlphabet("-ACGTacgtNn", feat.DNA, '-', 'n', alphabet.CaseSensitive))
)

func init() {
	seqAlphas["Protein"] = seqAlpha{alphabet.Protein, ""}
	seqAlphas["cased-upper"] = seqAlpha{casedUpperAlpha, ""}
	seqAlphas["cased-both"] = seqAlpha{casedBothAlpha, ""}
}

var seqAlphaNamesUnpaired = []string{"DNA", "DNAgapped", "DNAredundant", "RNA", "RNAgapped", "RNAredundant", "Protein", "cased-upper", "cased-both"}

// comp is the nucleotide complement as IUPAC defines it, written out here (not asked of the library's pairing):
// a<->t (u in the RNA alphabets), c<->g, m<->k, r<->y, b<->v, d<->h; s, w, n, x and the gap stay; case is kept.
func (m *mCont) comp(l byte) byte {
	up := l >= 'A' && l <= 'Z'
	c := l
	if up {
		c += 'a' - 'A'
	}
	switch c {
	case 'a':
		c = 't'
		if strings.HasPrefix(m.Alpha, "RNA") {
			c = 'u'
		}
	case 't', 'u':
		c = 'a'
	case 'c':
		c = 'g'
	case 'g':
		c = 'c'
	case 'm':
		c = 'k'
	case 'k':
		c = 'm'
	case 'r':
		c = 'y'
	case 'y':
		c = 'r'
	case 'b':
		c = 'v'
	case 'v':
		c = 'b'
	case 'd':
		c = 'h'
	case 'h':
		c = 'd'
	}
	if up {
		c -= 'a' - 'A'
	}
	return c
}

func (m *mCont) span() (s, e int) {
	if m.colStored() {
		return m.Off, m.Off + len(m.Rows[0].L)
	}
	s, e = int(^uint(0)>>1), -int(^uint(0)>>1)-1
	for _, r := range m.Rows {
		if r.Start < s {
			s = r.Start
		}
		if r.Start+len(r.L) > e {
			e = r.Start + len(r.L)
		}
	}
	return
}

func (m *mCont) revRow(i int, complement bool) {
	r := &m.Rows[i]
	n := len(r.L)
	l := make([]byte, n)
	q := make([]byte, n)
	for k := 0; k < n; k++ {
		c := r.L[k]
		if complement {
			c = m.comp(c)
		}
		l[n-1-k] = c
		if len(r.Q) == n {
			q[n-1-k] = r.Q[k]
		}
	}
	r.L = l
	if len(r.Q) == n {
		r.Q = q
	}
}

// revAll models RevComp (complement=true) or Reverse on the whole container.
func (m *mCont) revAll(complement bool) {
	S, E := 0, 0
	if m.isMulti() {
		S, E = m.span()
	}
	for i := range m.Rows {
		r := &m.Rows[i]
		m.revRow(i, complement)
		switch {
		case m.colStored():
			// row strands live in the sub-annotations and are not touched
		case complement:
			r.Strand = -r.Strand
		default:
			r.Strand = 0
		}
		if m.isMulti() {
			r.Start = S + E - (r.Start + len(r.L))
		}
	}
	if m.colStored() {
		if complement {
			m.Strand = -m.Strand
		} else {
			m.Strand = 0
		}
	}
}

// ---- snapshots ----

type oRow struct {
	Start, End int
	L          string
	Q          string
	Strand     int8
	Name       string
}

type oSnap struct {
	Rows       []oRow
	Start, End int
	Strand     int8
	Cols       []string // column view with fill (letters)
	ColsQ      []string // qualities of the column view (quality containers)
	ColsNoFill []string // row-stored containers: column view without fill (letters of the covering rows, in row order)
	Len        int      // Len() of the container (-1: not observed)
}

const qThreshold = 2 // alignment.QSeq default threshold

func (m *mCont) snapshot() oSnap {
	var o oSnap
	for _, r := range m.Rows {
		or := oRow{Start: r.Start, End: r.Start + len(r.L), L: string(r.L), Strand: r.Strand, Name: r.Name}
		if m.hasQ() {
			or.Q = string(r.Q)
		}
		o.Rows = append(o.Rows, or)
	}
	switch {
	case m.isLinear():
		o.Start, o.End, o.Strand = o.Rows[0].Start, o.Rows[0].End, o.Rows[0].Strand
		o.Len = o.End - o.Start
	case m.isSet():
		for _, r := range m.Rows {
			if len(r.L) > o.Len {
				o.Len = len(r.L)
			}
		}
	case m.colStored():
		o.Len = len(m.Rows[0].L)
		o.Start, o.End, o.Strand = m.Off, m.Off+len(m.Rows[0].L), m.Strand
		for p := 0; p < len(m.Rows[0].L); p++ {
			var c, q []byte
			for _, r := range m.Rows {
				l := r.L[p]
				if m.hasQ() && r.Q[p] < qThreshold {
					l = '.' // below the threshold Column may filter the letter: masked on both sides
				}
				c = append(c, l)
				if m.hasQ() {
					q = append(q, r.Q[p])
				}
			}
			o.Cols = append(o.Cols, string(c))
			if m.hasQ() {
				o.ColsQ = append(o.ColsQ, string(q))
			}
		}
		// rows of a column-stored alignment all span the alignment
		for i := range o.Rows {
			o.Rows[i].End = o.Rows[i].Start + len(m.Rows[0].L)
		}
	case m.isMulti():
		o.Start, o.End = m.span()
		o.Len = o.End - o.Start
		gap := byte(m.alpha().Gap())
		for p := o.Start; p < o.End; p++ {
			var c, q, nf []byte
			for _, r := range m.Rows {
				if r.Start <= p && p < r.Start+len(r.L) {
					nf = append(nf, r.L[p-r.Start])
				}
			}
			o.ColsNoFill = append(o.ColsNoFill, string(nf))
			for _, r := range m.Rows {
				if r.Start <= p && p < r.Start+len(r.L) {
					c = append(c, r.L[p-r.Start])
					if m.hasQ() {
						q = append(q, r.Q[p-r.Start])
					}
				} else {
					c = append(c, gap)
					if m.hasQ() {
						q = append(q, 0)
					}
				}
			}
			o.Cols = append(o.Cols, string(c))
			if m.hasQ() {
				o.ColsQ = append(o.ColsQ, string(q))
			}
		}
	}
	return o
}

// alphaLetters names an alphabet by its letters (messages must not carry addresses).
func alphaLetters(a alphabet.Alphabet) string {
	if a == nil {
		return "<nil>"
	}
	return a.Letters()
}

func strandOf(s seq.Sequence) int8 { return int8(s.CloneAnnotation().Strand) }

func readRow(s seq.Sequence, from, to int, q bool) (string, string) {
	l := make([]byte, 0, to-from)
	var qq []byte
	for p := from; p < to; p++ {
		ql := s.At(p)
		l = append(l, byte(ql.L))
		if q {
			qq = append(qq, byte(ql.Q))
		}
	}
	return string(l), string(qq)
}

// observe takes the snapshot of a real container of the model's kind.
func (m *mCont) observe(x interface{}) oSnap {
	var o oSnap
	q := m.hasQ()
	switch v := x.(type) {
	case *linear.Seq, *linear.QSeq:
		s := v.(seq.Sequence)
		l, qq := readRow(s, s.Start(), s.End(), q)
		o.Rows = []oRow{{s.Start(), s.End(), l, qq, strandOf(s), s.Name()}}
		o.Start, o.End, o.Strand = s.Start(), s.End(), strandOf(s)
		o.Len = s.Len()
	case *alignment.Seq:
		o.Len = v.Len()
		o.Start, o.End, o.Strand = v.Start(), v.End(), int8(v.Strand)
		for i := 0; i < v.Rows(); i++ {
			r := v.Row(i)
			l, _ := readRow(r, v.Start(), v.End(), false)
			o.Rows = append(o.Rows, oRow{r.Start(), r.End(), l, "", strandOf(r), r.Name()})
		}
		// every column is fetched before any is looked at: an answer stays the caller's while later ones are asked for
		var heldC [][]alphabet.Letter
		var heldQ [][]alphabet.QLetter
		for p := 0; p < v.Len(); p++ {
			heldC = append(heldC, v.Column(p, true))
		}
		for p := 0; p < v.Len(); p++ {
			heldQ = append(heldQ, v.ColumnQL(p, true))
		}
		for p := 0; p < v.Len(); p++ {
			o.Cols = append(o.Cols, string(alphabet.LettersToBytes(heldC[p])))
			ql := heldQ[p]
			for k, x := range ql {
				if byte(x.L) != o.Cols[p][k] {
					o.Cols[p] = "ColumnQL disagrees with Column"
				}
			}
		}
	case *alignment.QSeq:
		o.Len = v.Len()
		o.Start, o.End, o.Strand = v.Start(), v.End(), int8(v.Strand)
		for i := 0; i < v.Rows(); i++ {
			r := v.Row(i)
			l, qq := readRow(r, v.Start(), v.End(), true)
			o.Rows = append(o.Rows, oRow{r.Start(), r.End(), l, qq, strandOf(r), r.Name()})
		}
		var heldC [][]alphabet.Letter
		var heldQ [][]alphabet.QLetter
		for p := 0; p < v.Len(); p++ {
			heldQ = append(heldQ, v.ColumnQL(p, true))
		}
		for p := 0; p < v.Len(); p++ {
			heldC = append(heldC, v.Column(p, true))
		}
		for p := 0; p < v.Len(); p++ {
			ql := heldQ[p]
			col := heldC[p]
			c := make([]byte, len(ql))
			qq := make([]byte, len(ql))
			for k, x := range ql {
				c[k], qq[k] = byte(x.L), byte(x.Q)
				if x.Q < qThreshold {
					c[k] = '.'
				} else if k >= len(col) || col[k] != x.L {
					c[k] = '#' // Column disagrees with ColumnQL at or above the threshold
				}
			}
			if len(col) != len(ql) {
				c = []byte("Column and ColumnQL differ in length")
			}
			o.Cols = append(o.Cols, string(c))
			o.ColsQ = append(o.ColsQ, string(qq))
		}
	case *multi.Multi:
		o.Start, o.End = v.Start(), v.End()
		o.Len = v.Len()
		for p := o.Start; p < o.End; p++ {
			nf := string(alphabet.LettersToBytes(v.Column(p, false)))
			for k, x := range v.ColumnQL(p, false) {
				if k >= len(nf) || byte(x.L) != nf[k] {
					nf = "ColumnQL(pos, false) disagrees with Column(pos, false)"
					break
				}
			}
			if len(v.ColumnQL(p, false)) != len(nf) && !strings.HasPrefix(nf, "ColumnQL") {
				nf = "ColumnQL(pos, false) and Column(pos, false) differ in length"
			}
			o.ColsNoFill = append(o.ColsNoFill, nf)
		}
		for i := 0; i < v.Rows(); i++ {
			r := v.Row(i)
			l, qq := readRow(r, r.Start(), r.End(), q)
			o.Rows = append(o.Rows, oRow{r.Start(), r.End(), l, qq, strandOf(r), r.Name()})
		}
		var heldC [][]alphabet.Letter
		var heldQ [][]alphabet.QLetter
		for p := o.Start; p < o.End; p++ {
			heldC = append(heldC, v.Column(p, true))
		}
		for p := o.Start; p < o.End; p++ {
			heldQ = append(heldQ, v.ColumnQL(p, true))
		}
		for p := o.Start; p < o.End; p++ {
			col := heldC[p-o.Start]
			ql := heldQ[p-o.Start]
			c := string(alphabet.LettersToBytes(col))
			if len(ql) != len(col) {
				c = "Column and ColumnQL differ in length"
			} else {
				qq := make([]byte, len(ql))
				for k, x := range ql {
					qq[k] = byte(x.Q)
					if x.L != col[k] {
						c = "ColumnQL disagrees with Column"
					}
				}
				if q {
					o.ColsQ = append(o.ColsQ, string(qq))
				}
			}
			o.Cols = append(o.Cols, c)
		}
	case multi.Set:
		o.Len = v.Len()
		for i := 0; i < v.Rows(); i++ {
			r := v.Row(i)
			l, qq := readRow(r, r.Start(), r.End(), q)
			o.Rows = append(o.Rows, oRow{r.Start(), r.End(), l, qq, strandOf(r), r.Name()})
		}
	}
	return o
}

// quality-less multi rows report the default score through ColumnQL: only compare ColsQ for quality kinds.

func snapDiff(got, want oSnap) string {
	if len(got.Rows) != len(want.Rows) {
		return fmt.Sprintf("%d rows, want %d", len(got.Rows), len(want.Rows))
	}
	for i := range got.Rows {
		g, w := got.Rows[i], want.Rows[i]
		switch {
		case g.L != w.L:
			return fmt.Sprintf("row %d letters %q, want %q", i, g.L, w.L)
		case g.Q != w.Q:
			return fmt.Sprintf("row %d qualities %v, want %v", i, []byte(g.Q), []byte(w.Q))
		case g.Start != w.Start || g.End != w.End:
			return fmt.Sprintf("row %d spans [%d,%d), want [%d,%d)", i, g.Start, g.End, w.Start, w.End)
		case g.Strand != w.Strand:
			return fmt.Sprintf("row %d strand %d, want %d", i, g.Strand, w.Strand)
		case g.Name != w.Name:
			return fmt.Sprintf("row %d name %q, want %q", i, g.Name, w.Name)
		}
	}
	if got.Start != want.Start || got.End != want.End {
		return fmt.Sprintf("container spans [%d,%d), want [%d,%d)", got.Start, got.End, want.Start, want.End)
	}
	if got.Strand != want.Strand {
		return fmt.Sprintf("container strand %d, want %d", got.Strand, want.Strand)
	}
	if len(got.Cols) != len(want.Cols) {
		return fmt.Sprintf("%d columns, want %d", len(got.Cols), len(want.Cols))
	}
	for p := range got.Cols {
		if got.Cols[p] != want.Cols[p] {
			return fmt.Sprintf("column view at index %d is %q, row view gives %q", p, got.Cols[p], want.Cols[p])
		}
	}
	if got.Len != want.Len {
		return fmt.Sprintf("Len() = %d, want %d", got.Len, want.Len)
	}
	if len(got.ColsNoFill) != len(want.ColsNoFill) {
		return fmt.Sprintf("%d columns without fill, want %d", len(got.ColsNoFill), len(want.ColsNoFill))
	}
	for p := range got.ColsNoFill {
		if got.ColsNoFill[p] != want.ColsNoFill[p] {
			return fmt.Sprintf("column view without fill at index %d is %q, the covering rows give %q", p, got.ColsNoFill[p], want.ColsNoFill[p])
		}
	}
	if len(got.ColsQ) != len(want.ColsQ) {
		return fmt.Sprintf("%d quality columns, want %d", len(got.ColsQ), len(want.ColsQ))
	}
	for p := range got.ColsQ {
		if got.ColsQ[p] != want.ColsQ[p] {
			return fmt.Sprintf("column qualities at index %d are %v, row view gives %v", p, []byte(got.ColsQ[p]), []byte(want.ColsQ[p]))
		}
	}
	return ""
}

// ---- building real containers ----

func qletters(l, q []byte) []alphabet.QLetter {
	out := make([]alphabet.QLetter, len(l))
	for i := range l {
		out[i].L = alphabet.Letter(l[i])
		if len(q) == len(l) {
			out[i].Q = alphabet.Qphred(q[i])
		}
	}
	return out
}

func (m *mCont) buildRow(r mRow, quality bool) seq.Sequence {
	// now and then slices with room to spare, as appending leaves them (an empty sequence that kept its array too)
	spare := 0
	if len(r.L)%4 == 0 {
		spare = 6 + len(r.Name)
	}
	if quality {
		ql := make([]alphabet.QLetter, len(r.L), len(r.L)+spare)
		copy(ql, qletters(r.L, r.Q))
		s := linear.NewQSeq(r.Name, nil, m.alpha(), alphabet.Sanger)
		s.Seq = ql // the constructors copy their argument: the roomy slice goes into the exported field
		s.Offset, s.Strand = r.Start, seq.Strand(r.Strand)
		return s
	}
	ls := make([]alphabet.Letter, len(r.L), len(r.L)+spare)
	copy(ls, alphabet.BytesToLetters(append([]byte(nil), r.L...)))
	s := linear.NewSeq(r.Name, nil, m.alpha())
	s.Seq = ls
	s.Offset, s.Strand = r.Start, seq.Strand(r.Strand)
	return s
}

func (m *mCont) build() interface{} {
	switch m.Kind {
	case "lseq":
		return m.buildRow(m.Rows[0], false)
	case "lqseq":
		return m.buildRow(m.Rows[0], true)
	case "aseq", "aqseq":
		n := len(m.Rows[0].L)
		ids := make([]string, len(m.Rows))
		for i, r := range m.Rows {
			ids[i] = r.Name
		}
		if m.Kind == "aseq" {
			cols := make([][]alphabet.Letter, n)
			for p := range cols {
				cols[p] = make([]alphabet.Letter, len(m.Rows))
				for i, r := range m.Rows {
					cols[p][i] = alphabet.Letter(r.L[p])
				}
			}
			a, err := alignment.NewSeq("aln", ids, cols, m.alpha(), seq.DefaultConsensus)
			if err != nil {
				panic("harness: alignment.NewSeq: " + err.Error())
			}
			a.Strand, a.Offset = seq.Strand(m.Strand), m.Off
			for i, r := range m.Rows {
				a.SubAnnotations[i].Offset, a.SubAnnotations[i].Strand = r.Start, seq.Strand(r.Strand)
			}
			return a
		}
		cols := make([][]alphabet.QLetter, n)
		for p := range cols {
			cols[p] = make([]alphabet.QLetter, len(m.Rows))
			for i, r := range m.Rows {
				cols[p][i] = alphabet.QLetter{L: alphabet.Letter(r.L[p]), Q: alphabet.Qphred(r.Q[p])}
			}
		}
		a, err := alignment.NewQSeq("aln", ids, cols, m.alpha(), alphabet.Sanger, seq.DefaultQConsensus)
		if err != nil {
			panic("harness: alignment.NewQSeq: " + err.Error())
		}
		a.Strand, a.Offset = seq.Strand(m.Strand), m.Off
		for i, r := range m.Rows {
			a.SubAnnotations[i].Offset, a.SubAnnotations[i].Strand = r.Start, seq.Strand(r.Strand)
		}
		return a
	case "mseq", "mqseq", "set", "qset":
		rows := make([]seq.Sequence, len(m.Rows))
		for i, r := range m.Rows {
			rows[i] = m.buildRow(r, m.hasQ())
		}
		if m.isSet() {
			return multi.Set(rows)
		}
		mm, err := multi.NewMulti("multi", rows, seq.DefaultConsensus)
		if err != nil {
			panic("harness: multi.NewMulti: " + err.Error())
		}
		mm.Offset = m.Off // the recorded offset only: the rows are already where the model has them
		return mm
	}
	panic("harness: unknown kind " + m.Kind)
}

// ---- generation ----

func genSeqLetters(rng *rand.Rand, alpha string, n int, fromPaired bool) []byte {
	src := seqAlphas[alpha].paired
	if !fromPaired {
		src = seqAlphas[alpha].a.Letters()
	}
	b := make([]byte, n)
	for i := range b {
		b[i] = src[rng.Intn(len(src))]
	}
	return b
}

func genSeqQuals(rng *rand.Rand, n int) []byte {
	q := make([]byte, n)
	for i := range q {
		switch rng.Intn(6) {
		case 0:
			q[i] = byte(rng.Intn(2)) // below the alignment threshold
		default:
			q[i] = byte(2 + rng.Intn(60))
		}
	}
	return q
}

// genCont generates a container of the given kind. paired=true draws letters from the pairing's domain.
func genCont(rng *rand.Rand, kind string, maxRows, maxLen int, paired bool) *mCont {
	m := &mCont{Kind: kind, Alpha: seqAlphaNames[rng.Intn(len(seqAlphaNames))]}
	if !paired {
		m.Alpha = seqAlphaNamesUnpaired[rng.Intn(len(seqAlphaNamesUnpaired))]
	}
	nrows := 1
	if !m.isLinear() {
		nrows = 1 + rng.Intn(maxRows)
	}
	n := rng.Intn(maxLen + 1)
	if m.colStored() && n == 0 {
		n = 1
	}
	flush := rng.Intn(3) == 0
	base := rng.Intn(21) - 10
	wide := -1 // row-stored only: one row lies 100..330 positions away from the others, so padding runs get long
	if !flush && !m.isLinear() && !m.colStored() && nrows > 1 && rng.Intn(12) == 0 {
		wide = rng.Intn(nrows)
	}
	for i := 0; i < nrows; i++ {
		ln := n
		st := 0
		switch {
		case m.isLinear():
			st = rng.Intn(41) - 20
		case m.colStored():
			st = 0
		default: // multi and set: ragged unless flush
			st = base
			if !flush {
				ln = rng.Intn(maxLen + 1)
				st = base + rng.Intn(9) - 4
			}
			if i == wide {
				st += (100 + rng.Intn(231)) * (1 - 2*rng.Intn(2))
			}
		}
		r := mRow{L: genSeqLetters(rng, m.Alpha, ln, paired), Start: st, Strand: 1, Name: fmt.Sprint("r", i)}
		r.Q = genSeqQuals(rng, ln)
		if rng.Intn(4) == 0 {
			r.Strand = int8(rng.Intn(3) - 1)
		}
		m.Rows = append(m.Rows, r)
	}
	if m.colStored() {
		m.Strand = int8(rng.Intn(3) - 1)
		if rng.Intn(2) == 0 {
			m.Strand = 1
		}
		// C05 only: the alignment itself sits at an offset (Add and the consensus functions index columns from 0, so
		// the C07 histories keep their alignments at 0)
		if paired && rng.Intn(3) != 0 {
			m.Off = rng.Intn(41) - 20
		}
	}
	return m
}

func (m *mCont) brief() map[string]interface{} {
	var rows []string
	for _, r := range m.Rows {
		s := fmt.Sprintf("%s@%d strand %d: %s", r.Name, r.Start, r.Strand, r.L)
		if m.hasQ() {
			s += fmt.Sprintf(" q=%v", r.Q)
		}
		rows = append(rows, s)
	}
	return map[string]interface{}{"kind": m.Kind, "alphabet": m.Alpha, "rows": rows, "strand": m.Strand, "offset": m.Off}
}

func snapBrief(o oSnap) string {
	var sb strings.Builder
	for i, r := range o.Rows {
		fmt.Fprintf(&sb, "row%d[%d,%d) strand %d %q; ", i, r.Start, r.End, r.Strand, r.L)
	}
	return sb.String()
}
