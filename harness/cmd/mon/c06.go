package main

import (
	"fmt"
	"math"
	"math/rand"

	"github.com/biogo/biogo/alphabet"
	"github.com/biogo/biogo/feat"
	"github.com/biogo/biogo/seq"
	"github.com/biogo/biogo/seq/linear"
	"github.com/biogo/biogo/seq/sequtils"

	"verif/harness/internal/obs"
)

// C06 — Truncate, Join, Stitch, Compose and Trim follow positional semantics.

func init() {
	register(&obs.Monitor{
		ID:    "C06",
		Level: "exploration",
		Rule: "one call per case on a linear.Seq or linear.QSeq (DNA, RNA, DNAredundant = complementing, Protein = reverse only; length 0..60, offset -20..20, linear/circular/undefined conformation, any strand): Truncate with start/end over [offset-3,end+3]^2 in both orders (1 in 6 with MinInt64/MaxInt64-side coordinates, 1 in 3 into a reused circular destination, others into one of undefined conformation), Join at either end, " +
			"Stitch and Compose with 0..6 features (overlapping, nested, abutting, unsorted, partly or wholly outside, 1 set in 6 with MinInt64/MaxInt64-side coordinates; every orientation mix, 1 feature in 3 of a type without an Orientation method = forward), dst==src and dst!=src, Trim on a dyadic-valued QualityFeature (exact) and on real QSeq qualities (1e-9). " +
			"Oracle: clean-room positional model; source unchanged (conformation, strand, name, description, alphabet included; after a refused call too) and storage-independent from the result. Non-trivial = non-empty sequence and (>=2 features or a wrapping/out-of-range truncation or a join or a trim); distinct = op+parameters+letters",
		Batches: func(t string) int {
			if t == "thorough" {
				return 16
			}
			return 4
		},
		Cases:       func(r *obs.Run) int { return r.Share(r.Pick(40000, 6000000)) },
		Case:        c06Case,
		MinDistinct: func(t string) int { return 5000 },
		Floors: func(string) map[string]int64 {
			return map[string]int64{"truncate_calls": 1500, "truncate_wraps": 100, "truncate_errors_expected": 300, "join_calls": 1000, "stitch_calls": 1500, "compose_calls": 1500,
				"compose_two_or_more_reverse": 200, "trim_calls": 1500, "aliasing_probes": 3000}
		},
		Assumptions: []string{"Compose is never given a feature wholly outside the sequence (the quantifier says partly outside)", "Join's resulting offset is not judged", "features have End >= Start",
			"Truncate with start > end of a source whose conformation is undefined may be refused or wrap: the statement names circular sources only", "what a refused in-place call leaves in the sequence is not judged"},
	})
}

type c06f struct {
	S, E int
	Ori  feat.Orientation
}

func (f *c06f) Start() int                    { return f.S }
func (f *c06f) End() int                      { return f.E }
func (f *c06f) Len() int                      { return f.E - f.S }
func (f *c06f) Name() string                  { return "f" }
func (f *c06f) Description() string           { return "" }
func (f *c06f) Location() feat.Feature        { return nil }
func (f *c06f) Orientation() feat.Orientation { return f.Ori }

// c06p is a feature that carries no orientation at all (feat.Feature does not ask for the method): Compose takes it forward.
type c06p struct{ S, E int }

func (f *c06p) Start() int             { return f.S }
func (f *c06p) End() int               { return f.E }
func (f *c06p) Len() int               { return f.E - f.S }
func (f *c06p) Name() string           { return "p" }
func (f *c06p) Description() string    { return "" }
func (f *c06p) Location() feat.Feature { return nil }

// c06feat is the model's record of one feature; Plain ones are handed over as *c06p, the others as *c06f.
type c06feat struct {
	S, E  int
	Ori   feat.Orientation
	Plain bool
}

type c06set []feat.Feature

func (s c06set) Features() []feat.Feature { return s }

type c06q struct {
	start int
	e     []float64
}

func (q *c06q) Start() int             { return q.start }
func (q *c06q) End() int               { return q.start + len(q.e) }
func (q *c06q) Len() int               { return len(q.e) }
func (q *c06q) Name() string           { return "q" }
func (q *c06q) Description() string    { return "" }
func (q *c06q) Location() feat.Feature { return nil }
func (q *c06q) EAt(i int) float64      { return q.e[i-q.start] }

type c06seq struct {
	L      string
	Q      []byte
	Off    int
	Conf   string // "linear", "circular" or "undefined"
	Alpha  string // "DNA", "Protein", "RNA" or "DNAredundant"
	IsQ    bool
	Strand int8
	Desc   string
}

func (m c06seq) conformation() feat.Conformation {
	switch m.Conf {
	case "circular":
		return feat.Circular
	case "undefined":
		return feat.UndefinedConformation
	}
	return feat.Linear
}

func (m c06seq) alphabet() alphabet.Alphabet {
	switch m.Alpha {
	case "Protein":
		return alphabet.Protein
	case "RNA":
		return alphabet.RNA
	case "DNAredundant":
		return alphabet.DNAredundant
	}
	return alphabet.DNA
}

func (m c06seq) build() seq.Sequence {
	al, conf := m.alphabet(), m.conformation()
	// slices with room to spare (as AppendLetters leaves them): an append onto such a slice writes into its owner's array
	spare := 0
	if len(m.L)%3 == 1 {
		spare = 8 + 7*(len(m.L)%11)
	}
	if len(m.L) == 0 && m.Off%2 == 0 {
		spare = 16 // an empty sequence that kept its array
	}
	if m.IsQ {
		ql := make([]alphabet.QLetter, len(m.L), len(m.L)+spare)
		for i := range ql {
			ql[i] = alphabet.QLetter{L: alphabet.Letter(m.L[i]), Q: alphabet.Qphred(m.Q[i])}
		}
		s := linear.NewQSeq("s", nil, al, alphabet.Sanger)
		s.Seq = ql
		s.Offset, s.Conform, s.Strand, s.Desc = m.Off, conf, seq.Strand(m.Strand), m.Desc
		return s
	}
	ls := make([]alphabet.Letter, len(m.L), len(m.L)+spare)
	copy(ls, alphabet.BytesToLetters([]byte(m.L)))
	s := linear.NewSeq("s", nil, al)
	s.Seq = ls // the constructor copies its argument; the roomy slice goes into the exported field
	s.Offset, s.Conform, s.Strand, s.Desc = m.Off, conf, seq.Strand(m.Strand), m.Desc
	return s
}

func c06Gen(rng *rand.Rand) c06seq {
	m := c06seq{Off: rng.Intn(41) - 20, Conf: "linear", IsQ: rng.Intn(2) == 0, Alpha: "DNA"}
	switch rng.Intn(9) {
	case 0, 1, 2:
		m.Conf = "circular"
	case 3:
		m.Conf = "undefined" // a legal third value; the constructors never give it, a caller can
	}
	m.Strand = int8(rng.Intn(3) - 1)
	m.Desc = []string{"", "d"}[rng.Intn(2)]
	letters := "acgtnACGTN-"
	switch rng.Intn(6) {
	case 0, 1:
		m.Alpha = "Protein"
		letters = "abcdefghiklmnpqrstvwxyz*-ACDEFG"
	case 2:
		m.Alpha = "RNA"
		letters = "acgunACGUN-"
	case 3:
		m.Alpha = "DNAredundant"
		letters = "acmgrsvtwyhkdbnACMGRSVTWYHKDBN-"
	}
	n := rng.Intn(61)
	if rng.Intn(10) == 0 {
		n = rng.Intn(3)
	}
	b := make([]byte, n)
	q := make([]byte, n)
	for i := range b {
		b[i] = letters[rng.Intn(len(letters))]
		q[i] = byte(rng.Intn(60))
	}
	m.L = string(b)
	if m.IsQ {
		m.Q = q
	}
	return m
}

func c06Obs(s seq.Sequence, isQ bool) (string, []byte, int) {
	rec := seqToRec(s, isQ)
	return rec.Letters, rec.Quals, s.Start()
}

// c06Comp is the model's complement: Watson-Crick and IUPAC pairs written out here (not read from the library's tables),
// a with t for the DNA alphabets and with u for RNA, case kept; protein letters stay.
func c06Comp(alpha string, l byte) byte {
	from, to := "acgtmkrybvdhswnx-", "tgcakmyrvbhdswnx-"
	switch alpha {
	case "Protein":
		return l
	case "RNA":
		from, to = "acgunx-", "ugcanx-"
	}
	for i := 0; i < len(from); i++ {
		switch l {
		case from[i]:
			return to[i]
		case from[i] - 'a' + 'A':
			if from[i] != '-' {
				return to[i] - 'a' + 'A'
			}
		}
	}
	return l
}

// c06Same compares everything a caller can see of s with the model it was built from: letters, qualities, offset,
// conformation (by value), strand, name, description and alphabet. It returns "" or what differs.
func c06Same(s seq.Sequence, m c06seq) string {
	l, q, off := c06Obs(s, m.IsQ)
	var strand seq.Strand
	switch v := s.(type) {
	case *linear.Seq:
		strand = v.Strand
	case *linear.QSeq:
		strand = v.Strand
	}
	switch {
	case l != m.L || off != m.Off:
		return fmt.Sprintf("%q at %d, was %q at %d", l, off, m.L, m.Off)
	case m.IsQ && string(q) != string(m.Q):
		return fmt.Sprintf("qualities %v, were %v", q, m.Q)
	case s.Conformation() != m.conformation():
		return fmt.Sprintf("conformation %v, was %v", s.Conformation(), m.conformation())
	case strand != seq.Strand(m.Strand):
		return fmt.Sprintf("strand %v, was %v", strand, seq.Strand(m.Strand))
	case s.Name() != "s" || s.Description() != m.Desc:
		return fmt.Sprintf("name/description %q/%q, were %q/%q", s.Name(), s.Description(), "s", m.Desc)
	case s.Alphabet() != m.alphabet():
		return fmt.Sprintf("alphabet %v, was %v", s.Alphabet(), m.alphabet())
	}
	return ""
}

// scribble overwrites every position of s with a marker letter.
func c06Scribble(s seq.Sequence, mark byte) {
	for p := s.Start(); p < s.End(); p++ {
		s.Set(p, alphabet.QLetter{L: alphabet.Letter(mark), Q: 1})
	}
}

// c06Append appends the given letters (quality 1) to a linear sequence.
func c06Append(s seq.Sequence, l string) {
	switch v := s.(type) {
	case *linear.Seq:
		v.AppendLetters(alphabet.BytesToLetters([]byte(l))...)
	case *linear.QSeq:
		ql := make([]alphabet.QLetter, len(l))
		for i := range ql {
			ql[i] = alphabet.QLetter{L: alphabet.Letter(l[i]), Q: 1}
		}
		v.AppendQLetters(ql...)
	}
}

func c06All(s string, mark byte) bool {
	for i := 0; i < len(s); i++ {
		if s[i] != mark {
			return false
		}
	}
	return true
}

func c06Case(r *obs.Run, i int) {
	rng := r.Rng
	m := c06Gen(rng)
	w := map[string]interface{}{"source": m}
	fail := func(class, what string) {
		w["what"] = what
		r.Violate(class, what, w)
	}
	defer func() {
		if e := recover(); e != nil {
			fail("panic", fmt.Sprintf("panic: %v", e))
		}
	}()
	src := m.build()
	end := m.Off + len(m.L)
	op := []string{"truncate", "truncate", "join", "stitch", "stitch", "compose", "compose", "trim", "trim"}[rng.Intn(9)]
	w["op"] = op
	sameDst := rng.Intn(3) == 0
	dstUndefined := false // the destination's conformation is undefined when the call is made
	mkDst := func() seq.Sequence {
		if sameDst {
			dstUndefined = m.Conf == "undefined"
			return src
		}
		d := src.New()
		if op != "join" && rng.Intn(4) == 0 { // a distinct destination that starts as a shallow copy of the source (`d := *s`), so it holds the source's own storage when the call is made
			switch s := src.(type) {
			case *linear.Seq:
				c := *s
				d = &c
			case *linear.QSeq:
				c := *s
				d = &c
			}
			r.Count("destinations_viewing_the_source", 1)
			dstUndefined = m.Conf == "undefined"
			return d
		}
		if rng.Intn(2) == 0 { // a destination that already holds something
			d.(seq.Appender).AppendLetters(alphabet.Letter('a'), alphabet.Letter('c'))
			d.SetOffset(7)
		}
		if op == "truncate" && rng.Intn(3) == 0 { // a reused destination that was circular: the result must still be linear
			if cs, ok := d.(seq.ConformationSetter); ok {
				cs.SetConformation(feat.Circular)
				r.Count("truncate_into_circular_destination", 1)
			}
		} else if op != "join" && rng.Intn(4) == 0 { // or one whose conformation was never defined, for Stitch and Compose too
			if cs, ok := d.(seq.ConformationSetter); ok {
				cs.SetConformation(feat.UndefinedConformation)
				dstUndefined = true
				r.Count("destinations_with_undefined_conformation", 1)
			}
		}
		return d
	}
	// checkResult compares dst with the expected letters and the source with its original state.
	checkResult := func(dst seq.Sequence, wantL string, wantQ []byte, wantStart int, checkStart bool) bool {
		gl, gq, gs := c06Obs(dst, m.IsQ)
		if gl != wantL {
			fail(op+"-letters", fmt.Sprintf("%s: result letters %q, want %q", op, gl, wantL))
			return false
		}
		if m.IsQ && string(gq) != string(wantQ) {
			fail(op+"-qualities", fmt.Sprintf("%s: result qualities %v, want %v", op, gq, wantQ))
			return false
		}
		if checkStart && gs != wantStart {
			fail(op+"-start", fmt.Sprintf("%s: result starts at %d, want %d", op, gs, wantStart))
			return false
		}
		// Truncate's result is linear whatever the destination was; Stitch and Compose are documented to make a circular
		// sequence linear, so a destination that went in undefined may come out undefined
		if c := dst.Conformation(); checkStart && c != feat.Linear && !(op != "truncate" && dstUndefined && c == feat.UndefinedConformation) {
			fail(op+"-conformation", fmt.Sprintf("%s: result is %v, not linear", op, c))
			return false
		}
		if !sameDst {
			if d := c06Same(src, m); d != "" {
				fail(op+"-source-changed", fmt.Sprintf("%s: the source changed: %s", op, d))
				return false
			}
			var sl string
			// storage independence, both directions
			r.Count("aliasing_probes", 1)
			c06Scribble(src, '?')
			if gl, _, _ = c06Obs(dst, m.IsQ); gl != wantL {
				fail(op+"-shared-storage", fmt.Sprintf("%s: overwriting the source changed the result to %q", op, gl))
				return false
			}
			c06Scribble(dst, '!')
			if sl, _, _ = c06Obs(src, m.IsQ); !c06All(sl, '?') {
				fail(op+"-shared-storage", fmt.Sprintf("%s: overwriting the result changed the source to %q", op, sl))
				return false
			}
			// and through appends: a result (an empty one too) that is a window into the source's array with room behind it
			// would write into the source when appended to, and the other way round
			c06Append(dst, "^^^")
			if sl, _, _ = c06Obs(src, m.IsQ); !c06All(sl, '?') {
				fail(op+"-shared-storage", fmt.Sprintf("%s: appending to the result changed the source to %q", op, sl))
				return false
			}
			before, _, _ := c06Obs(dst, m.IsQ)
			c06Append(src, "$$$$")
			if after, _, _ := c06Obs(dst, m.IsQ); after != before {
				fail(op+"-shared-storage", fmt.Sprintf("%s: appending to the source changed the result from %q to %q", op, before, after))
				return false
			}
		}
		return true
	}
	note := func(sig string, nontrivial bool) {
		r.Note(op+"/"+sig+"/"+m.L+fmt.Sprint(m.Off, m.Conf, m.IsQ, sameDst), nontrivial && len(m.L) > 0)
	}
	// refused compares the source with its model after a call that returned an error into another destination.
	refused := func() bool {
		if sameDst {
			return true // what a refused in-place call leaves behind is not part of the statement
		}
		r.Count("sources_compared_after_a_refused_call", 1)
		if d := c06Same(src, m); d != "" {
			fail(op+"-source-changed", fmt.Sprintf("%s: the call was refused and the source changed: %s", op, d))
			return false
		}
		return true
	}
	sub := func(a, b int) (string, []byte) { // model positions [a,b)
		l := m.L[a-m.Off : b-m.Off]
		var q []byte
		if m.IsQ {
			q = m.Q[a-m.Off : b-m.Off]
		}
		return l, q
	}

	switch op {
	case "truncate":
		st := m.Off - 3 + rng.Intn(len(m.L)+7)
		en := m.Off - 3 + rng.Intn(len(m.L)+7)
		if rng.Intn(3) == 0 && len(m.L) > 0 { // force inside
			st = m.Off + rng.Intn(len(m.L)+1)
			en = m.Off + rng.Intn(len(m.L)+1)
		}
		if rng.Intn(6) == 0 { // extreme coordinates: the range test must not go through an overflowing subtraction
			ext := []int{math.MinInt64, math.MinInt64 + 1 + rng.Intn(40), math.MaxInt64 - rng.Intn(40), math.MaxInt64}
			switch rng.Intn(3) {
			case 0:
				st = ext[rng.Intn(4)]
			case 1:
				en = ext[rng.Intn(4)]
			default:
				st, en = ext[rng.Intn(4)], ext[rng.Intn(4)]
			}
			r.Count("truncate_extreme_coordinates", 1)
		}
		w["start"], w["end"] = st, en
		r.Count("truncate_calls", 1)
		dst := mkDst()
		err := sequtils.Truncate(dst.(sequtils.Sliceable), src.(sequtils.Sliceable), st, en)
		inside := st >= m.Off && st <= end && en >= m.Off && en <= end
		if inside && st > en && m.Conf == "undefined" {
			// the statement wraps "for a circular source" and says nothing of a source that is neither: refusing and wrapping are both taken
			r.Count("truncate_start_after_end_undefined_source", 1)
			if err != nil {
				r.Count("truncate_start_after_end_undefined_source_refused", 1)
				if !refused() {
					return
				}
				note(fmt.Sprint("err", st, en), true)
				break
			}
		}
		switch {
		case !inside || (st > en && m.Conf == "linear"):
			r.Count("truncate_errors_expected", 1)
			if err == nil {
				fail("truncate-no-error", fmt.Sprintf("Truncate(%d,%d) of [%d,%d) %s returned no error", st, en, m.Off, end, m.Conf))
				return
			}
			if !refused() {
				return
			}
			note(fmt.Sprint("err", st, en), true)
		case st <= en:
			if err != nil {
				fail("truncate-error", fmt.Sprintf("Truncate(%d,%d) of [%d,%d) returned %v", st, en, m.Off, end, err))
				return
			}
			l, q := sub(st, en)
			if !checkResult(dst, l, q, st, true) {
				return
			}
			note(fmt.Sprint(st, en), false)
		default: // wrap through the origin
			r.Count("truncate_wraps", 1)
			if err != nil {
				fail("truncate-error", fmt.Sprintf("circular Truncate(%d,%d) of [%d,%d) returned %v", st, en, m.Off, end, err))
				return
			}
			l1, q1 := sub(st, end)
			l2, q2 := sub(m.Off, en)
			if !checkResult(dst, l1+l2, append(append([]byte(nil), q1...), q2...), st, true) {
				return
			}
			note(fmt.Sprint("wrap", st, en), true)
		}
	case "join":
		o := c06Gen(rng)
		o.Alpha, o.IsQ = m.Alpha, m.IsQ
		ol := map[string]string{"DNA": "acgtn", "Protein": "klmnpq", "RNA": "acgun", "DNAredundant": "acgtry"}[m.Alpha]
		b := []byte(o.L)
		for k := range b {
			b[k] = ol[rng.Intn(len(ol))]
		}
		o.L = string(b)
		if o.IsQ && o.Q == nil {
			o.Q = make([]byte, len(o.L))
		}
		if !o.IsQ {
			o.Q = nil
		}
		w["other"] = o
		where := []int{seq.Start, seq.End}[rng.Intn(2)]
		w["where"] = map[int]string{seq.Start: "Start", seq.End: "End"}[where]
		r.Count("join_calls", 1)
		other := o.build()
		dst := src // dst is the receiver that grows; the other sequence is the source
		err := sequtils.Join(dst.(sequtils.Joinable), other.(sequtils.Joinable), where)
		if m.Conf == "circular" || o.Conf == "circular" {
			if err == nil {
				fail("join-no-error", "Join involving a circular sequence returned no error")
				return
			}
			r.Count("sources_compared_after_a_refused_call", 1)
			if d := c06Same(other, o); d != "" {
				fail("join-source-changed", "the Join was refused and its source changed: "+d)
				return
			}
			note("circ", true)
			return
		}
		if m.Conf == "undefined" || o.Conf == "undefined" { // neither is circular: the concatenation is due
			r.Count("join_with_undefined_conformation", 1)
		}
		if err != nil {
			fail("join-error", "Join returned "+err.Error())
			return
		}
		wl, wq := m.L+o.L, append(append([]byte(nil), m.Q...), o.Q...)
		if where == seq.Start {
			wl, wq = o.L+m.L, append(append([]byte(nil), o.Q...), m.Q...)
		}
		gl, gq, _ := c06Obs(dst, m.IsQ)
		if gl != wl || (m.IsQ && string(gq) != string(wq)) {
			fail("join-letters", fmt.Sprintf("Join at %v: %q, want %q", w["where"], gl, wl))
			return
		}
		if d := c06Same(other, o); d != "" {
			fail("join-source-changed", "Join changed its source: "+d)
			return
		}
		r.Count("aliasing_probes", 1)
		c06Scribble(dst, '!')
		if ol, _, _ := c06Obs(other, o.IsQ); ol != o.L {
			fail("join-shared-storage", "overwriting the joined result changed the source")
			return
		}
		dst2 := m.build()
		other2 := o.build()
		sequtils.Join(dst2.(sequtils.Joinable), other2.(sequtils.Joinable), where)
		c06Scribble(other2, '?')
		if gl, _, _ = c06Obs(dst2, m.IsQ); gl != wl {
			fail("join-shared-storage", "overwriting the source changed the joined result")
			return
		}
		note(fmt.Sprint(where, o.L), true)
	case "stitch", "compose":
		nf := rng.Intn(7)
		var fl []c06feat
		nrev, nplain := 0, 0
		for k := 0; k < nf; k++ {
			var s, e int
			for tries := 0; ; tries++ {
				s = m.Off - 5 + rng.Intn(len(m.L)+11)
				e = s + rng.Intn(len(m.L)/2+4)
				if len(fl) > 0 && rng.Intn(4) == 0 { // abut or nest relative to an earlier feature
					p := fl[rng.Intn(len(fl))]
					if rng.Intn(2) == 0 {
						s, e = p.E, p.E+rng.Intn(6)
					} else if p.E-p.S >= 2 {
						s = p.S + rng.Intn(p.E-p.S)
						e = s + rng.Intn(p.E-s+1)
					}
				}
				// features wholly outside the sequence contribute nothing, to Stitch and to Compose alike
				break
			}
			f := c06feat{S: s, E: e, Ori: feat.Orientation(rng.Intn(3) - 1)}
			if rng.Intn(3) == 0 { // a feature type without an Orientation method: forward
				f.Ori, f.Plain = feat.NotOriented, true
				nplain++
			}
			if f.Ori == feat.Reverse {
				nrev++
			}
			fl = append(fl, f)
		}
		if nf > 0 && rng.Intn(6) == 0 { // "from the beginning of time to 5", "from 2 onwards": extreme coordinates on the outer side
			k := rng.Intn(nf)
			switch rng.Intn(3) {
			case 0:
				fl[k].S = math.MinInt64 + rng.Intn(40)
			case 1:
				fl[k].E = math.MaxInt64 - rng.Intn(40)
			default:
				fl[k].S, fl[k].E = math.MinInt64+rng.Intn(40), math.MaxInt64-rng.Intn(40)
			}
			if op == "stitch" && rng.Intn(4) == 0 { // wholly outside, far away
				if rng.Intn(2) == 0 {
					fl[k].S, fl[k].E = math.MinInt64+rng.Intn(5), math.MinInt64+5+rng.Intn(40)
				} else {
					fl[k].S, fl[k].E = math.MaxInt64-45-rng.Intn(5), math.MaxInt64-rng.Intn(40)
				}
			}
			r.Count("feature_sets_with_extreme_coordinates", 1)
		}
		fs := make(c06set, nf)
		for k, f := range fl {
			if f.Plain {
				fs[k] = &c06p{f.S, f.E}
			} else {
				fs[k] = &c06f{f.S, f.E, f.Ori}
			}
		}
		if nplain > 0 {
			r.Count(op+"_with_features_that_have_no_orientation", 1)
		}
		if op == "compose" && nplain > 0 && nrev > 0 {
			r.Count("compose_mixing_reverse_and_unoriented_features", 1)
		}
		w["features"] = fl
		dst := mkDst()
		var err error
		var wl string
		var wq []byte
		if op == "stitch" {
			r.Count("stitch_calls", 1)
			err = sequtils.Stitch(dst.(sequtils.Sliceable), src.(sequtils.Sliceable), fs)
			for p := m.Off; p < end; p++ {
				for _, f := range fl {
					if f.S <= p && p < f.E {
						wl += string(m.L[p-m.Off])
						if m.IsQ {
							wq = append(wq, m.Q[p-m.Off])
						}
						break
					}
				}
			}
		} else {
			r.Count("compose_calls", 1)
			if nrev >= 1 && m.Alpha != "DNA" && m.Alpha != "Protein" {
				r.Count("compose_reverse_"+m.Alpha, 1)
			}
			if nrev >= 2 {
				r.Count("compose_two_or_more_reverse", 1)
			}
			err = sequtils.Compose(dst.(sequtils.Sliceable), src.(sequtils.Sliceable), fs)
			for _, f := range fl {
				a, b := maxInt(f.S, m.Off), minInt(f.E, end)
				if a >= b {
					continue
				}
				l, q := sub(a, b)
				if f.Ori == feat.Reverse {
					rl := make([]byte, len(l))
					rq := make([]byte, len(q))
					for k := range l {
						rl[len(l)-1-k] = c06Comp(m.Alpha, l[k])
						if m.IsQ {
							rq[len(l)-1-k] = q[k]
						}
					}
					l, q = string(rl), rq
				}
				wl += l
				wq = append(wq, q...)
			}
		}
		if err != nil {
			fail(op+"-error", fmt.Sprintf("%s returned %v", op, err))
			return
		}
		if !checkResult(dst, wl, wq, 0, true) {
			return
		}
		note(fmt.Sprint(fl), nf >= 2)
	case "trim":
		r.Count("trim_calls", 1)
		if rng.Intn(2) == 0 || !m.IsQ {
			// dyadic errors and limit: all partial sums are exact
			n := rng.Intn(40)
			q := &c06q{start: rng.Intn(41) - 20, e: make([]float64, n)}
			for k := range q.e {
				q.e[k] = float64(rng.Intn(17)) / 16
			}
			limit := float64(rng.Intn(17)) / 16
			w["trim_feature"] = map[string]interface{}{"start": q.start, "errors": q.e, "limit": limit}
			s, e := sequtils.Trim(q, limit)
			c06CheckTrim(r, fail, q.start, q.e, limit, s, e, 0)
			note(fmt.Sprint(q.start, q.e, limit), n >= 2)
		} else {
			qs := src.(*linear.QSeq)
			es := make([]float64, qs.Len())
			for k := range es {
				es[k] = qs.EAt(qs.Start() + k)
			}
			limit := math.Pow(10, -float64(rng.Intn(40))/10)
			w["limit"] = limit
			s, e := sequtils.Trim(qs, limit)
			c06CheckTrim(r, fail, qs.Start(), es, limit, s, e, 1e-9)
			note(fmt.Sprint("q", limit), len(es) >= 2)
		}
	}
	if r.WantSample() && i%50 == 3 && len(m.L) < 30 {
		r.Sample(w)
	}
}

func c06CheckTrim(r *obs.Run, fail func(string, string), start int, es []float64, limit float64, s, e int, tol float64) {
	end := start + len(es)
	if s < start || e > end || s > e {
		if len(es) == 0 && s == 0 && e == 0 {
			return // empty feature: the zero window is all there is to return
		}
		fail("trim-window", fmt.Sprintf("Trim returned [%d,%d) for a feature spanning [%d,%d)", s, e, start, end))
		return
	}
	sum := 0.0
	for p := s; p < e; p++ {
		sum += limit - es[p-start]
	}
	best := 0.0
	for a := 0; a <= len(es); a++ {
		acc := 0.0
		for b := a; b < len(es); b++ {
			acc += limit - es[b]
			if acc > best {
				best = acc
			}
		}
	}
	if math.Abs(sum-best) > tol*math.Max(1, math.Abs(best)) {
		fail("trim-not-maximal", fmt.Sprintf("Trim window [%d,%d) sums to %g, the best window sums to %g", s, e, sum, best))
	}
}
