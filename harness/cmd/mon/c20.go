package main

import (
	"fmt"
	"math"
	"strings"

	"github.com/biogo/biogo/feat"
	"github.com/biogo/biogo/feat/gene"

	"verif/harness/internal/obs"
)

// C20 — gene models keep exons, introns and coding regions as exact partitions.

func init() {
	register(&obs.Monitor{
		ID:    "C20",
		Level: "exploration",
		Rule: "one history per case: a coding or non-coding transcript on a random location chain (exon -> transcript -> gene, left out in a fifth of the cases -> 0..4 regions, each orientable or, one in four, a band without an Orientation method -> chromosome; now and then 100..1000 links deep), " +
			"then up to 8 operations from {accepted SetExons (random cuts, abutting/single exon, shuffled), rejected SetExons (overlap, foreign location including a same-named twin of the transcript, no zero start, no exons; also before any set was accepted), accepted Exons.Add beyond the end and, shuffled, into the introns of a subset, rejected Exons.Add, on the transcript's own slice and on caller slices with and without spare capacity, re-orientation of the transcript, the gene or a region (regions and genes may report NotOriented)}; " +
			"all invariants re-checked after every operation, the introns once more after the caller overwrote a returned intron list. Non-trivial = at least 2 exons or a rejected update; distinct = canonical text of chain+operations",
		Batches: func(t string) int {
			if t == "thorough" {
				return 8
			}
			return 2
		},
		Cases:       func(r *obs.Run) int { return 1 + r.Share(r.Pick(20000, 4000000)) },
		Case:        c20Case,
		MinDistinct: func(t string) int { return 3000 },
		Floors: func(string) map[string]int64 {
			return map[string]int64{"accepted_setexons": 3000, "rejected_setexons": 1000, "rejected_add": 1000, "rejected_add_spare_capacity": 300, "reverse_base_orientation": 500, "base_orientation_stops_at_unoriented_ancestor": 300, "reorientations": 1000, "deep_chains": 5, "tilings_checked": 5000}
		},
		Assumptions: []string{
			"orientations at every orientable level are Forward or Reverse (UTR accessors are documented to panic otherwise)",
			"an accepted Exons.Add is allowed to reuse spare capacity of its receiver: only the returned slice is compared, the receiver is not read again",
			"1-based/0-based conversions are judged away from math.MaxInt (overflow) and OneToZero(0) is a documented panic",
		},
	})
}

type c20node struct {
	name   string
	start  int
	length int
	ori    feat.Orientation
	loc    feat.Feature
}

func (n *c20node) Start() int                    { return n.start }
func (n *c20node) End() int                      { return n.start + n.length }
func (n *c20node) Len() int                      { return n.length }
func (n *c20node) Name() string                  { return n.name }
func (n *c20node) Description() string           { return "" }
func (n *c20node) Location() feat.Feature        { return n.loc }
func (n *c20node) Orientation() feat.Orientation { return n.ori }

type c20chrom struct {
	name   string
	start  int
	length int
}

func (n *c20chrom) Start() int             { return n.start }
func (n *c20chrom) End() int               { return n.start + n.length }
func (n *c20chrom) Len() int               { return n.length }
func (n *c20chrom) Name() string           { return n.name }
func (n *c20chrom) Description() string    { return "" }
func (n *c20chrom) Location() feat.Feature { return nil }

// c20band is a level without an Orientation method (in the style of genome.Band and genome.Fragment): the base
// orientation walk ends at it wherever it sits in the chain, positions pass through it.
type c20band struct {
	name   string
	start  int
	length int
	loc    feat.Feature
}

func (n *c20band) Start() int             { return n.start }
func (n *c20band) End() int               { return n.start + n.length }
func (n *c20band) Len() int               { return n.length }
func (n *c20band) Name() string           { return n.name }
func (n *c20band) Description() string    { return "" }
func (n *c20band) Location() feat.Feature { return n.loc }

type c20ex struct{ Off, Len int }

type c20hist struct {
	Chain  []string `json:"chain"`
	Coding bool     `json:"coding"`
	Ops    []string `json:"ops"`
}

func c20Cut(r *obs.Run, maxExons int) []c20ex {
	n := 1 + r.Rng.Intn(maxExons)
	if r.Rng.Intn(8) == 0 {
		n = 1
	}
	var out []c20ex
	pos := 0
	for i := 0; i < n; i++ {
		l := 1 + r.Rng.Intn(30)
		out = append(out, c20ex{pos, l})
		pos += l
		if r.Rng.Intn(4) != 0 { // otherwise abutting
			pos += 1 + r.Rng.Intn(40)
		}
	}
	return out
}

func c20Case(r *obs.Run, i int) {
	if i == 0 {
		c20Conversions(r)
		return
	}
	if i%400 == 250 {
		c20AtTheLimit(r)
		return
	}
	rng := r.Rng
	v0 := r.NViolations()
	h := &c20hist{}
	fail := func(class, what string) {
		r.Violate(class, what, map[string]interface{}{"history": h, "what": what})
	}
	defer func() {
		if e := recover(); e != nil {
			fail("panic", fmt.Sprintf("panic: %v", e))
		}
	}()

	// location chain, root first
	chr := &c20chrom{"chr", rng.Intn(50), 1 << 40}
	starts := []int{chr.start}
	oris := []feat.Orientation{} // orientations of orientable levels above the gene (root excluded)
	var loc feat.Feature = chr
	feats := []feat.Feature{chr}
	depth := rng.Intn(5)
	deep := rng.Intn(150) == 0
	if deep {
		depth = 100 + rng.Intn(896) // total links stay <= 1000 with gene, transcript, exon
		if rng.Intn(3) == 0 {
			depth = 996
		}

		r.Count("deep_chains", 1)
	}
	pm := func() feat.Orientation {
		if rng.Intn(2) == 0 {
			return feat.Reverse
		}
		return feat.Forward
	}
	h.Chain = append(h.Chain, fmt.Sprintf("chr@%d", chr.start))
	bands := 0
	for d := 0; d < depth; d++ {
		if !deep && rng.Intn(4) == 0 { // a level that is not orientable at all, in the middle of the chain
			b := &c20band{fmt.Sprint("band", d), rng.Intn(2000) - 200, 1 << 30, loc}
			loc = b
			feats = append(feats, b)
			starts = append(starts, b.start)
			oris = append(oris, feat.NotOriented)
			h.Chain = append(h.Chain, fmt.Sprintf("band@%d", b.start))
			bands++
			continue
		}
		n := &c20node{fmt.Sprint("region", d), rng.Intn(2000) - 200, 1 << 30, pm(), loc}
		if !deep && rng.Intn(6) == 0 {
			n.ori = feat.NotOriented // an orientable type that reports no orientation: base orientation stops here
		}
		loc = n
		feats = append(feats, n)
		starts = append(starts, n.start)
		oris = append(oris, n.ori)
		if !deep {
			h.Chain = append(h.Chain, fmt.Sprintf("region@%d/%d", n.start, n.ori))
		}
	}
	if deep {
		h.Chain = append(h.Chain, fmt.Sprintf("%d regions", depth))
	}
	// the transcript "can be located on any feat.Feature such as a gene or a chromosome": one case in five has no gene
	var g *gene.Gene
	gi := -1 // index of the gene's orientation in oris
	if deep || rng.Intn(5) != 0 {
		g = &gene.Gene{ID: "g", Chrom: loc, Offset: rng.Intn(5000), Orient: pm()}
		if rng.Intn(8) == 0 {
			g.Orient = feat.NotOriented
		}
		loc = g
		feats = append(feats, g)
		starts = append(starts, g.Offset)
		oris = append(oris, g.Orient)
		gi = len(oris) - 1
		h.Chain = append(h.Chain, fmt.Sprintf("gene@%d/%d", g.Offset, g.Orient))
	} else {
		r.Count("transcripts_located_without_a_gene", 1)
	}
	if bands > 0 {
		r.Count("chains_with_a_level_that_has_no_orientation_method", 1)
	}
	coding := rng.Intn(2) == 0
	h.Coding = coding
	tOff, tOri := rng.Intn(300), pm()
	var t gene.Transcript
	var ct *gene.CodingTranscript
	var nct *gene.NonCodingTranscript
	if coding {
		ct = &gene.CodingTranscript{ID: "t", Loc: loc, Offset: tOff, Orient: tOri}
		t = ct
	} else {
		nct = &gene.NonCodingTranscript{ID: "t", Loc: loc, Offset: tOff, Orient: tOri}
		t = nct
	}
	other := &gene.NonCodingTranscript{ID: "other", Loc: loc, Offset: 0, Orient: feat.Forward}
	feats = append(feats, t)
	starts = append(starts, tOff)
	oris = append(oris, tOri)
	h.Chain = append(h.Chain, fmt.Sprintf("transcript@%d/%d", tOff, tOri))

	var model []c20ex // accepted exon set
	mk := func(xs []c20ex, tr gene.Transcript) []gene.Exon {
		out := make([]gene.Exon, len(xs))
		for k, x := range xs {
			out[k] = gene.Exon{Transcript: tr, Offset: x.Off, Length: x.Len, Desc: fmt.Sprint("e", x.Off)}
		}
		return out
	}
	snapshot := func() []gene.Exon { return append([]gene.Exon(nil), t.Exons()...) }
	// twin: another transcript object that cannot be told from t by name: a copy of the struct (same ID, location,
	// offset, orientation, even the same exon slice) or a transcript of the other kind with t's ID
	twin := func() gene.Transcript {
		r.Count("foreign_location_is_a_same_named_twin", 1)
		if rng.Intn(2) == 0 {
			if ct != nil {
				b := *ct
				return &b
			}
			b := *nct
			return &b
		}
		if ct != nil {
			return &gene.NonCodingTranscript{ID: ct.ID, Loc: ct.Loc, Offset: ct.Offset, Orient: ct.Orient}
		}
		return &gene.CodingTranscript{ID: nct.ID, Loc: nct.Loc, Offset: nct.Offset, Orient: nct.Orient}
	}
	same := func(a, b []gene.Exon) bool {
		if len(a) != len(b) {
			return false
		}
		for k := range a {
			if a[k] != b[k] {
				return false
			}
		}
		return true
	}

	check := func(when string) {
		ex := t.Exons()
		if len(ex) != len(model) {
			fail("exon-set", fmt.Sprintf("%s: %d exons, model has %d", when, len(ex), len(model)))
			return
		}
		for k, e := range ex {
			if e.Start() != model[k].Off || e.Len() != model[k].Len || e.End() != model[k].Off+model[k].Len || e.Location() != feat.Feature(t) {
				fail("exon-set", fmt.Sprintf("%s: exon %d is [%d,%d) want [%d,%d)", when, k, e.Start(), e.End(), model[k].Off, model[k].Off+model[k].Len))
				return
			}
			if k > 0 && (e.Start() < ex[k-1].End() || e.Start() < ex[k-1].Start()) {
				fail("exon-order", fmt.Sprintf("%s: exons %d,%d unsorted or overlapping", when, k-1, k))
			}
		}
		if len(model) == 0 {
			// nothing accepted yet (only rejected updates so far): no exons means no pieces at all
			if n, sl := len(t.Introns()), ex.SplicedLen(); n != 0 || sl != 0 {
				fail("exon-set", fmt.Sprintf("%s: transcript without exons has %d introns, spliced length %d", when, n, sl))
			}
			return
		}
		L := model[len(model)-1].Off + model[len(model)-1].Len
		if t.Len() != L || t.End()-t.Start() != L || t.Start() != tOff {
			fail("transcript-span", fmt.Sprintf("%s: transcript Len=%d Start=%d End=%d want Len %d Start %d", when, t.Len(), t.Start(), t.End(), L, tOff))
		}
		// exons and introns alternate and tile [0,L)
		in := t.Introns()
		if len(in) != len(ex)-1 {
			fail("intron-count", fmt.Sprintf("%s: %d introns for %d exons", when, len(in), len(ex)))
			return
		}
		pos := 0
		spliced := 0
		for k := range ex {
			if ex[k].Start() != pos {
				fail("tiling", fmt.Sprintf("%s: exon %d starts at %d, previous piece ended at %d", when, k, ex[k].Start(), pos))
			}
			pos = ex[k].End()
			spliced += ex[k].Len()
			if k < len(in) {
				if in[k].Start() != pos || in[k].Len() < 0 || in[k].End() != in[k].Start()+in[k].Len() || in[k].Location() != feat.Feature(t) {
					fail("tiling", fmt.Sprintf("%s: intron %d is [%d,%d) after exon ending %d", when, k, in[k].Start(), in[k].End(), pos))
				}
				pos = in[k].End()
			}
		}
		if pos != L {
			fail("tiling", fmt.Sprintf("%s: pieces end at %d, transcript length %d", when, pos, L))
		}
		if ex.SplicedLen() != spliced || ex.Start() != 0 || ex.End() != L {
			fail("tiling", fmt.Sprintf("%s: SplicedLen/Start/End = %d/%d/%d", when, ex.SplicedLen(), ex.Start(), ex.End()))
		}
		r.Count("tilings_checked", 1)
		// the intron list is the caller's once returned ("built dynamically"): writing to it and appending to it
		// changes nothing for the next reader
		if len(in) > 0 && rng.Intn(2) == 0 {
			for k := range in {
				in[k] = gene.Intron{Transcript: other, Offset: -77, Length: 1, Desc: "overwritten by the caller"}
			}
			_ = append(in, gene.Intron{Transcript: other, Offset: -78, Length: 1, Desc: "appended by the caller"})
			for which, again := range []gene.Introns{t.Introns(), t.Exons().Introns()} {
				bad := len(again) != len(model)-1
				for k := 0; k < len(again) && !bad; k++ {
					from := model[k].Off + model[k].Len
					bad = again[k].Start() != from || again[k].End() != model[k+1].Off || again[k].Len() != model[k+1].Off-from || again[k].Location() != feat.Feature(t)
				}
				if bad {
					fail("tiling", fmt.Sprintf("%s: after the caller wrote to a returned intron list, %s reports %d introns that no longer lie between the exons %v",
						when, []string{"Introns()", "Exons().Introns()"}[which], len(again), model))
					break
				}
			}
			r.Count("intron_lists_overwritten_by_caller", 1)
		}
		// positions and orientations through the chain
		// the base reference is the nearest ancestor that is not orientable (the chromosome) or reports
		// NotOriented; the base orientation is the product of the orientations below it
		stop := 0
		for k, o := range oris[:len(oris)-1] { // oris[k] belongs to feats[k+1]; the transcript itself is always oriented
			if o == feat.NotOriented {
				stop = k + 1
			}
		}
		prod := feat.Forward
		for _, o := range oris[stop:] {
			prod *= o
		}
		if stop > 0 {
			r.Count("base_orientation_stops_at_unoriented_ancestor", 1)
			if _, isBand := feats[stop].(*c20band); isBand {
				r.Count("base_orientation_stops_at_level_without_orientation_method", 1)
			}
		}
		e := ex[rng.Intn(len(ex))]
		p := rng.Intn(e.Len())
		sum := p + e.Start()
		for _, s := range starts {
			sum += s
		}
		bp, ref := feat.BasePositionOf(e, p)
		if bp != sum || ref != feat.Feature(chr) {
			fail("position-compose", fmt.Sprintf("%s: BasePositionOf(exon@%d,%d)=%d want %d", when, e.Start(), p, bp, sum))
		}
		bo, oref := feat.BaseOrientationOf(e)
		if bo != prod || oref != feats[stop] {
			fail("orientation-compose", fmt.Sprintf("%s: BaseOrientationOf(exon)=%d want %d (reference at level %d, same as expected: %v)", when, bo, prod, stop, oref == feats[stop]))
		}
		if bo, tref := feat.BaseOrientationOf(t); bo != prod || tref != feats[stop] {
			fail("orientation-compose", fmt.Sprintf("%s: BaseOrientationOf(transcript)=%d want %d (reference at level %d, same as expected: %v)", when, bo, prod, stop, tref == feats[stop]))
		}
		// relative to a random ancestor
		j := rng.Intn(len(feats)) // feats[j] is the reference; levels j+1.. are summed
		if deep && rng.Intn(2) == 0 {
			j = rng.Intn(3) // near the root: the walk is as long as the chain allows
		}
		wantPos := p + e.Start()
		wantOri := feat.Forward // exon itself is Forward
		for lv := j + 1; lv < len(feats); lv++ {
			wantPos += starts[lv]
		}
		for lv := j; lv < len(oris); lv++ { // oris[k] belongs to feats[k+1]
			wantOri *= oris[lv]
		}
		if got, ok := feat.PositionWithin(e, feats[j], p); !ok || got != wantPos {
			fail("position-compose", fmt.Sprintf("%s: PositionWithin(exon, level %d, %d)=%d,%v want %d", when, j, p, got, ok, wantPos))
		}
		if _, isBand := feats[j].(*c20band); isBand {
			r.Count("orientation_and_position_within_a_level_without_orientation_method", 1)
		}
		if got := feat.OrientationWithin(e, feats[j]); got != wantOri {
			fail("orientation-compose", fmt.Sprintf("%s: OrientationWithin(exon, level %d)=%d want %d", when, j, got, wantOri))
		}
		if _, ok := feat.PositionWithin(e, other, p); ok {
			fail("position-compose", when+": PositionWithin reports a position within an unrelated feature")
		}
		if got := feat.OrientationWithin(e, other); got != feat.NotOriented {
			fail("orientation-compose", when+": OrientationWithin an unrelated feature is oriented")
		}
		if prod == feat.Reverse {
			r.Count("reverse_base_orientation", 1)
		}
		if ct != nil {
			u5, cds, u3 := ct.UTR5(), ct.CDS(), ct.UTR3()
			first, last := u5, u3
			if prod == feat.Reverse {
				first, last = u3, u5
			}
			if first.Start() != 0 || first.End() != cds.Start() || cds.End() != last.Start() || last.End() != L ||
				cds.Start() != ct.CDSstart || cds.End() != ct.CDSend ||
				first.Len() != first.End()-first.Start() || last.Len() != last.End()-last.Start() || cds.Len() != cds.End()-cds.Start() {
				fail("utr-tiling", fmt.Sprintf("%s: base orientation %d: UTR5 [%d,%d) CDS [%d,%d) UTR3 [%d,%d) transcript length %d",
					when, prod, u5.Start(), u5.End(), cds.Start(), cds.End(), u3.Start(), u3.End(), L))
			}
			if ct.UTR5start() != u5.Start() || ct.UTR5end() != u5.End() || ct.UTR3start() != u3.Start() || ct.UTR3end() != u3.End() {
				fail("utr-tiling", when+": UTR shorthand accessors disagree with the features")
			}
			if u5.Location() != feat.Feature(ct) || cds.Location() != feat.Feature(ct) || u3.Location() != feat.Feature(ct) {
				fail("utr-tiling", when+": UTR/CDS not located on the transcript")
			}
			// the three parts lie on the transcript in its own direction: one more level of the same composition
			for name, part := range map[string]feat.Feature{"UTR5": u5, "CDS": cds, "UTR3": u3} {
				if got := feat.OrientationWithin(part, ct); got != feat.Forward {
					fail("orientation-compose", fmt.Sprintf("%s: OrientationWithin(%s, transcript)=%d want %d", when, name, got, feat.Forward))
				}
				if bo, bref := feat.BaseOrientationOf(part); bo != prod || bref != feats[stop] {
					fail("orientation-compose", fmt.Sprintf("%s: BaseOrientationOf(%s)=%d want %d (the transcript's)", when, name, bo, prod))
				}
				if bp, _ := feat.BasePositionOf(part, 0); bp != part.Start()+sum-p-e.Start() {
					fail("position-compose", fmt.Sprintf("%s: BasePositionOf(%s, 0)=%d want %d", when, name, bp, part.Start()+sum-p-e.Start()))
				}
			}
		}
	}

	nops := 2 + rng.Intn(7)
	rejected := false
	maxEx := 1
	for op := 0; op < nops; op++ {
		kind := rng.Intn(8)
		if kind == 7 {
			kind = 8 // 7 is drawn from 0 below
		}
		if len(model) == 0 {
			kind = 0
			if rng.Intn(10) == 0 {
				kind = 2 // a rejected update of a transcript that has no exons yet: "none" is the set to keep
			}
		}
		if kind == 0 && len(model) != 0 && rng.Intn(3) == 0 {
			kind = 7
		}
		switch kind {
		case 7:
			// layouts with empty exons at the start or the end of another exon, inside one or in an intron, in any argument
			// order. Whether such a set is to be accepted is not fixed by the statement (and on the pinned tree depends on
			// the order); what is fixed is that an accepted set is sorted, non-overlapping and tiles, and that a rejected one
			// changes nothing. An ordinary set is installed again afterwards.
			cut := c20Cut(r, 6)
			withEmpty := append([]c20ex(nil), cut...)
			for n := 1 + rng.Intn(2); n > 0; n-- {
				k := rng.Intn(len(cut))
				at := []int{cut[k].Off, cut[k].Off + cut[k].Len, cut[k].Off + rng.Intn(cut[k].Len), cut[k].Off + cut[k].Len + rng.Intn(3)}[rng.Intn(4)]
				withEmpty = append(withEmpty, c20ex{at, 0})
			}
			in := mk(withEmpty, t)
			rng.Shuffle(len(in), func(a, b int) { in[a], in[b] = in[b], in[a] })
			var order []c20ex
			for _, e := range in {
				order = append(order, c20ex{e.Offset, e.Length})
			}
			h.Ops = append(h.Ops, fmt.Sprintf("SetExons(with empty exons, in this order: %v)", order))
			before := snapshot()
			if err := t.SetExons(in...); err != nil {
				if !same(before, t.Exons()) {
					fail("rejected-update-changed-exons", "rejected SetExons (layout with empty exons) changed the exon set")
					return
				}
				r.Count("layouts_with_empty_exons_rejected", 1)
			} else {
				ex := t.Exons()
				maxEnd := 0
				for _, e := range withEmpty {
					if e.Off+e.Len > maxEnd {
						maxEnd = e.Off + e.Len
					}
				}
				bad := ""
				if len(ex) != len(withEmpty) {
					bad = fmt.Sprintf("%d exons kept of %d given", len(ex), len(withEmpty))
				}
				for k := 1; k < len(ex) && bad == ""; k++ {
					if ex[k].Start() < ex[k-1].Start() || ex[k].Start() < ex[k-1].End() {
						bad = fmt.Sprintf("exon %d [%d,%d) follows exon [%d,%d)", k, ex[k].Start(), ex[k].End(), ex[k-1].Start(), ex[k-1].End())
					}
				}
				if bad == "" && (ex.Start() != 0 || ex.End() != maxEnd || t.Len() != maxEnd) {
					bad = fmt.Sprintf("exons span [%d,%d), transcript length %d, the largest exon end is %d", ex.Start(), ex.End(), t.Len(), maxEnd)
				}
				if bad == "" {
					in := t.Introns()
					for k := range in {
						if in[k].Len() < 0 || in[k].Start() != ex[k].End() || in[k].End() != ex[k+1].Start() {
							bad = fmt.Sprintf("intron %d is [%d,%d) between exons ending %d and starting %d", k, in[k].Start(), in[k].End(), ex[k].End(), ex[k+1].Start())
						}
					}
				}
				if bad != "" {
					fail("accepted-layout-broken", "SetExons accepted a layout with empty exons and the transcript is not tiled: "+bad)
					return
				}
				r.Count("layouts_with_empty_exons_accepted", 1)
			}
			valid := c20Cut(r, 16)
			if err := t.SetExons(mk(valid, t)...); err != nil {
				fail("accepted-rejected", fmt.Sprintf("SetExons rejected a valid exon set %v: %v", valid, err))
				return
			}
			h.Ops = append(h.Ops, fmt.Sprintf("SetExons(valid %v)", valid))
			model = valid
			if len(valid) > maxEx {
				maxEx = len(valid)
			}
			if ct != nil {
				L := valid[len(valid)-1].Off + valid[len(valid)-1].Len
				ct.CDSstart = rng.Intn(L + 1)
				ct.CDSend = ct.CDSstart + rng.Intn(L-ct.CDSstart+1)
				h.Ops = append(h.Ops, fmt.Sprintf("CDS=[%d,%d)", ct.CDSstart, ct.CDSend))
			}
		case 6: // re-orientation of one level of the chain (the fields are the caller's to assign): nothing may remember the old one
			flipT := func() { // the transcript itself stays oriented
				no := -oris[len(oris)-1]
				if ct != nil {
					ct.Orient = no
				} else {
					nct.Orient = no
				}
				oris[len(oris)-1] = no
				h.Ops = append(h.Ops, fmt.Sprintf("transcript.Orient=%d", no))
			}
			var region *c20node // a band has nothing to re-orient
			k := 0
			if depth > 0 && !deep {
				k = rng.Intn(depth)
				region, _ = feats[k+1].(*c20node)
			}
			switch lv := rng.Intn(3); {
			case lv == 0:
				flipT()
			case g != nil && (lv == 1 || region == nil):
				no := []feat.Orientation{feat.Forward, feat.Reverse, feat.NotOriented}[rng.Intn(3)]
				g.Orient = no
				oris[gi] = no
				h.Ops = append(h.Ops, fmt.Sprintf("gene.Orient=%d", no))
			case region != nil:
				no := []feat.Orientation{feat.Forward, feat.Reverse, feat.NotOriented}[rng.Intn(3)]
				region.ori = no
				oris[k] = no
				h.Ops = append(h.Ops, fmt.Sprintf("region%d.ori=%d", k, no))
			default: // no gene, and no region or a band was drawn
				flipT()
			}
			r.Count("reorientations", 1)
		case 0, 1: // accepted SetExons
			cut := c20Cut(r, 16)
			in := mk(cut, t)
			rng.Shuffle(len(in), func(a, b int) { in[a], in[b] = in[b], in[a] })
			h.Ops = append(h.Ops, fmt.Sprintf("SetExons(valid %v shuffled)", cut))
			if err := t.SetExons(in...); err != nil {
				fail("accepted-rejected", fmt.Sprintf("SetExons rejected a valid exon set %v: %v", cut, err))
				return
			}
			for k := range in { // the argument slice stays the caller's: overwriting it afterwards changes nothing
				in[k] = gene.Exon{Transcript: other, Offset: -77, Length: 1, Desc: "overwritten by the caller"}
			}
			model = cut
			if len(cut) > maxEx {
				maxEx = len(cut)
			}
			if ct != nil {
				L := cut[len(cut)-1].Off + cut[len(cut)-1].Len
				ct.CDSstart = rng.Intn(L + 1)
				ct.CDSend = ct.CDSstart + rng.Intn(L-ct.CDSstart+1)
				h.Ops = append(h.Ops, fmt.Sprintf("CDS=[%d,%d)", ct.CDSstart, ct.CDSend))
			}
			r.Count("accepted_setexons", 1)
		case 2: // rejected SetExons
			cut := c20Cut(r, 8)
			in := mk(cut, t)
			why := rng.Intn(3)
			if rng.Intn(8) == 0 {
				why = 3
			}
			switch why {
			case 3: // no exons at all: nothing has a zero start, nothing is located on the transcript
				in = nil
				r.Count("rejected_setexons_without_exons", 1)
			case 0: // overlap
				if len(in) == 1 {
					in = append(in, gene.Exon{Transcript: t, Offset: in[0].Offset + in[0].Length - 1, Length: 3})
				} else {
					k := 1 + rng.Intn(len(in)-1)
					in[k].Offset = in[k-1].Offset + rng.Intn(in[k-1].Length)
				}
			case 1: // foreign location
				var foreign gene.Transcript = other
				if rng.Intn(2) == 0 {
					foreign = twin()
				}
				if rng.Intn(2) == 0 {
					in = mk(cut, foreign)
				} else {
					in[rng.Intn(len(in))].Transcript = foreign
				}
			default: // no zero start: the whole set shifted right, or left (the first exon then starts below zero)
				d := 1 + rng.Intn(20)
				if rng.Intn(3) == 0 {
					d = -d
				}
				for k := range in {
					in[k].Offset += d
				}
			}
			rng.Shuffle(len(in), func(a, b int) { in[a], in[b] = in[b], in[a] })
			h.Ops = append(h.Ops, fmt.Sprintf("SetExons(invalid kind %d from %v)", why, cut))
			before := snapshot()
			lenBefore, endBefore, intronsBefore := t.Len(), t.End(), len(t.Introns())
			err := t.SetExons(in...)
			if err == nil {
				fail("invalid-accepted", fmt.Sprintf("SetExons accepted an invalid exon set (kind %d)", why))
				return
			}
			if !same(before, t.Exons()) {
				fail("rejected-update-changed-exons", fmt.Sprintf("rejected SetExons (kind %d) changed the exon set", why))
				return
			}
			if t.Len() != lenBefore || t.End() != endBefore || len(t.Introns()) != intronsBefore {
				fail("rejected-update-changed-exons", fmt.Sprintf("rejected SetExons (kind %d) changed the transcript: Len/End/introns %d/%d/%d, before %d/%d/%d",
					why, t.Len(), t.End(), len(t.Introns()), lenBefore, endBefore, intronsBefore))
				return
			}
			if len(model) == 0 {
				r.Count("rejected_setexons_on_transcript_without_exons", 1)
			}
			rejected = true
			r.Count("rejected_setexons", 1)
		case 8: // accepted Add into the introns of a non-empty set, arguments in any order
			cut := c20Cut(r, 16)
			var keep, rest []c20ex
			for k, x := range cut {
				if k == 0 || rng.Intn(2) == 0 {
					keep = append(keep, x)
				} else {
					rest = append(rest, x)
				}
			}
			in := mk(keep, t)
			rng.Shuffle(len(in), func(a, b int) { in[a], in[b] = in[b], in[a] })
			if err := t.SetExons(in...); err != nil {
				fail("accepted-rejected", fmt.Sprintf("SetExons rejected a valid exon set %v: %v", keep, err))
				return
			}
			r.Count("accepted_setexons", 1)
			s := t.Exons()
			own := rng.Intn(2) == 0
			if !own {
				s = make(gene.Exons, len(keep), len(keep)+rng.Intn(2)*rng.Intn(21))
				copy(s, t.Exons())
			}
			add := mk(rest, t)
			rng.Shuffle(len(add), func(a, b int) { add[a], add[b] = add[b], add[a] })
			var order []int
			for _, e := range add {
				order = append(order, e.Offset)
			}
			h.Ops = append(h.Ops, fmt.Sprintf("SetExons(valid %v shuffled) then Add(valid %v in the order %v) on %s slice len %d cap %d then SetExons",
				keep, rest, order, map[bool]string{true: "transcript's own", false: "caller"}[own], len(s), cap(s)))
			ns, err := s.Add(add...)
			if err != nil {
				fail("accepted-rejected", fmt.Sprintf("Add rejected valid exons %v (given in the order %v) for the set %v: %v", rest, order, keep, err))
				return
			}
			if !same(ns, mk(cut, t)) {
				fail("add-result", fmt.Sprintf("Add of %v (given in the order %v) to %v returned %d exons that are not the sorted union", rest, order, keep, len(ns)))
				return
			}
			if err := t.SetExons(ns...); err != nil {
				fail("accepted-rejected", "SetExons rejected the result of an accepted Add: "+err.Error())
				return
			}
			model = cut
			if len(cut) > maxEx {
				maxEx = len(cut)
			}
			if ct != nil {
				L := cut[len(cut)-1].Off + cut[len(cut)-1].Len
				ct.CDSstart = rng.Intn(L + 1)
				ct.CDSend = ct.CDSstart + rng.Intn(L-ct.CDSstart+1)
				h.Ops = append(h.Ops, fmt.Sprintf("CDS=[%d,%d)", ct.CDSstart, ct.CDSend))
			}
			r.Count("accepted_add_between_existing_exons", 1)
			if len(rest) == 0 {
				r.Count("accepted_add_of_nothing", 1)
			}
		case 3: // accepted Add beyond the end, on the transcript's own slice
			s := t.Exons()
			end := s.End()
			extra := c20Cut(r, 3)
			gap := rng.Intn(10)
			for k := range extra {
				extra[k].Off += end + gap
			}
			h.Ops = append(h.Ops, fmt.Sprintf("Exons().Add(valid %v) then SetExons", extra))
			ns, err := s.Add(mk(extra, t)...)
			if err != nil {
				fail("accepted-rejected", fmt.Sprintf("Add rejected valid exons %v: %v", extra, err))
				return
			}
			want := append(append([]c20ex(nil), model...), extra...)
			if len(ns) != len(want) {
				fail("add-result", "Add returned a slice of the wrong length")
				return
			}
			for k := range ns {
				if ns[k].Offset != want[k].Off || ns[k].Length != want[k].Len {
					fail("add-result", fmt.Sprintf("Add result element %d is [%d,+%d) want [%d,+%d)", k, ns[k].Offset, ns[k].Length, want[k].Off, want[k].Len))
				}
			}
			if err := t.SetExons(ns...); err != nil {
				fail("accepted-rejected", "SetExons rejected the result of an accepted Add: "+err.Error())
				return
			}
			model = want
		case 4, 5: // rejected Add
			var s gene.Exons
			own := kind == 4
			if own {
				s = t.Exons()
			} else {
				spare := rng.Intn(2) * (1 + rng.Intn(4))
				s = make(gene.Exons, len(model), len(model)+spare)
				copy(s, t.Exons())
			}
			spareCap := cap(s) > len(s)
			why := rng.Intn(2)
			var bad []gene.Exon
			switch why {
			case 0: // overlapping an existing exon; placed so that it sorts before the end
				k := rng.Intn(len(model))
				bad = append(bad, gene.Exon{Transcript: t, Offset: model[k].Off + rng.Intn(model[k].Len), Length: 1 + rng.Intn(5), Desc: "overlap"})
				if rng.Intn(2) == 0 { // plus a good one
					bad = append(bad, gene.Exon{Transcript: t, Offset: s.End() + 5, Length: 3, Desc: "fine"})
				}
			default: // foreign location in a gap or beyond the end
				var foreign gene.Transcript = other
				if rng.Intn(2) == 0 {
					foreign = twin()
				}
				bad = append(bad, gene.Exon{Transcript: foreign, Offset: s.End() + rng.Intn(5), Length: 2, Desc: "foreign"})
				if len(model) > 1 && model[1].Off > model[0].Off+model[0].Len {
					bad = append(bad, gene.Exon{Transcript: foreign, Offset: model[0].Off + model[0].Len, Length: model[1].Off - model[0].Off - model[0].Len, Desc: "foreign-in-gap"})
				}
			}
			h.Ops = append(h.Ops, fmt.Sprintf("Add(invalid kind %d %v) on %s slice len %d cap %d", why, bad, map[bool]string{true: "transcript's own", false: "caller"}[own], len(s), cap(s)))
			before := append([]gene.Exon(nil), s...)
			tbefore := snapshot()
			ns, err := s.Add(bad...)
			if err == nil {
				fail("invalid-accepted", fmt.Sprintf("Add accepted invalid exons (kind %d)", why))
				return
			}
			r.Count("rejected_add", 1)
			if spareCap {
				r.Count("rejected_add_spare_capacity", 1)
			}
			rejected = true
			if !same(before, ns) {
				fail("rejected-add-changed-slice", fmt.Sprintf("rejected Add (kind %d, spare capacity %v) returned a slice that differs from the old one", why, spareCap))
				return
			}
			if !same(before, s) {
				fail("rejected-add-changed-slice", fmt.Sprintf("rejected Add (kind %d, spare capacity %v) changed the caller's original slice", why, spareCap))
				return
			}
			if !same(tbefore, t.Exons()) {
				fail("rejected-update-changed-exons", fmt.Sprintf("rejected Add (kind %d, spare capacity %v) changed the transcript's exon set", why, spareCap))
				return
			}
		}
		check(fmt.Sprintf("after op %d", op))
		if r.NViolations() > v0 {
			return
		}
	}
	sig := fmt.Sprint(h.Chain, h.Coding, h.Ops)
	if deep {
		sig = fmt.Sprint("deep", depth, h.Ops)
	}
	r.Note(sig, maxEx >= 2 || rejected)
	if r.WantSample() && !deep && len(h.Ops) <= 5 {
		r.Sample(h)
	}
}

// c20AtTheLimit: a chain in which the exon lies exactly 1000 links below the chromosome. The five walkers say they
// panic for chains "deeper than 1000 links", so each of them has to answer here; each is called under its own recover.
func c20AtTheLimit(r *obs.Run) {
	rng := r.Rng
	chr := &c20chrom{"chr", rng.Intn(50), 1 << 40}
	var loc feat.Feature = chr
	sum := chr.start
	prod := feat.Forward
	pm := func() feat.Orientation {
		if rng.Intn(2) == 0 {
			return feat.Reverse
		}
		return feat.Forward
	}
	var first feat.Feature // the region just below the chromosome
	for d := 0; d < 997; d++ {
		n := &c20node{fmt.Sprint("region", d), rng.Intn(20) - 5, 1 << 30, pm(), loc}
		if d == 0 {
			first = n
		}
		loc = n
		sum += n.start
		prod *= n.ori
	}
	g := &gene.Gene{ID: "g", Chrom: loc, Offset: rng.Intn(50), Orient: pm()}
	t := &gene.NonCodingTranscript{ID: "t", Loc: g, Offset: rng.Intn(30), Orient: pm()}
	other := &gene.NonCodingTranscript{ID: "other", Loc: g, Offset: 0, Orient: feat.Forward}
	if err := t.SetExons(gene.Exon{Transcript: t, Offset: 0, Length: 10}, gene.Exon{Transcript: t, Offset: 20, Length: 7}); err != nil {
		r.Inconclusive("harness: SetExons: " + err.Error())
		return
	}
	e := t.Exons()[1]
	sum += g.Offset + t.Offset + e.Start()
	prod *= g.Orient * t.Orient
	w := map[string]interface{}{"links_from_exon_to_chromosome": 1000}
	try := func(name, class string, f func() string) {
		defer func() {
			if p := recover(); p != nil {
				class := "panic"
				if fmt.Sprint(p) == "feat: feature chain too long" && (strings.HasPrefix(name, "BasePositionOf") || strings.HasPrefix(name, "PositionWithin") || strings.HasSuffix(name, "unrelated feature)")) {
					class = "walk-gives-up-at-exactly-1000-links" // listed in known_findings.txt for these three walks only
				}
				r.Violate(class, fmt.Sprintf("exon exactly 1000 links below the chromosome: %s panicked: %v", name, p), w)
			}
		}()
		if bad := f(); bad != "" {
			r.Violate(class, "exon exactly 1000 links below the chromosome: "+name+": "+bad, w)
		}
	}
	p := rng.Intn(7)
	try("BasePositionOf(exon)", "position-compose", func() string {
		if bp, ref := feat.BasePositionOf(e, p); bp != sum+p || ref != feat.Feature(chr) {
			return fmt.Sprintf("%d, want %d", bp, sum+p)
		}
		return ""
	})
	try("PositionWithin(exon, chromosome)", "position-compose", func() string {
		if got, ok := feat.PositionWithin(e, chr, p); !ok || got != sum+p-chr.start {
			return fmt.Sprintf("%d,%v want %d", got, ok, sum+p-chr.start)
		}
		return ""
	})
	try("BaseOrientationOf(exon)", "orientation-compose", func() string {
		if bo, ref := feat.BaseOrientationOf(e); bo != prod || ref != feat.Feature(chr) {
			return fmt.Sprintf("%d, want %d", bo, prod)
		}
		return ""
	})
	try("OrientationWithin(exon, chromosome)", "orientation-compose", func() string {
		if got := feat.OrientationWithin(e, chr); got != prod {
			return fmt.Sprintf("%d, want %d", got, prod)
		}
		return ""
	})
	try("OrientationWithin(exon, region below the chromosome)", "orientation-compose", func() string {
		want := prod * first.(*c20node).ori // the region's own orientation is not part of the product
		if got := feat.OrientationWithin(e, first); got != want {
			return fmt.Sprintf("%d, want %d", got, want)
		}
		return ""
	})
	try("OrientationWithin(exon, an unrelated feature)", "orientation-compose", func() string {
		if got := feat.OrientationWithin(e, other); got != feat.NotOriented {
			return fmt.Sprintf("%d, want NotOriented", got)
		}
		return ""
	})
	r.Count("chains_of_exactly_1000_links", 1)
	r.Note(fmt.Sprintf("limit/%d/%d", sum, prod), true)
}

func c20Conversions(r *obs.Run) {
	if r.Batch != 0 {
		return
	}
	chk := func(p int) {
		func() {
			defer func() {
				if e := recover(); e != nil {
					r.Violate("index-conversion", fmt.Sprintf("panic converting %d: %v", p, e), p)
				}
			}()
			if got := feat.OneToZero(feat.ZeroToOne(p)); got != p {
				r.Violate("index-conversion", fmt.Sprintf("OneToZero(ZeroToOne(%d))=%d", p, got), p)
			}
			if p != 0 {
				if got := feat.ZeroToOne(feat.OneToZero(p)); got != p {
					r.Violate("index-conversion", fmt.Sprintf("ZeroToOne(OneToZero(%d))=%d", p, got), p)
				}
			}
			if p >= 0 && feat.ZeroToOne(p) != p+1 {
				r.Violate("index-conversion", fmt.Sprintf("ZeroToOne(%d)=%d", p, feat.ZeroToOne(p)), p)
			}
			if p > 0 && feat.OneToZero(p) != p-1 {
				r.Violate("index-conversion", fmt.Sprintf("OneToZero(%d)=%d", p, feat.OneToZero(p)), p)
			}
		}()
		r.Count("conversions_checked", 1)
	}
	for p := -100000; p <= 100000; p++ {
		chk(p)
	}
	for k := 0; k < 100000; k++ {
		p := int(r.Rng.Int63()) - int(r.Rng.Int63())
		if p == math.MaxInt {
			continue
		}
		chk(p)
	}
	chk(math.MinInt)
	chk(math.MaxInt - 1)
	r.Note("conversions", true)
}
