package main

import (
	"fmt"
	"github.com/biogo/biogo/seq"
	"math/rand"
	"strings"
	"sync"

	"github.com/biogo/biogo/align"
	"github.com/biogo/biogo/align/matrix"
	"github.com/biogo/biogo/alphabet"
	"github.com/biogo/biogo/feat"
	"github.com/biogo/biogo/seq/linear"

	"verif/harness/internal/obs"
)

// C08 — aligners return an optimal-scoring alignment.
// C09 — alignment descriptions are well-formed, faithfully scored and type-independent.
// One harness, two verdict streams.

var alnAlgs = []string{"NW", "SW", "Fitted", "NWAffine", "SWAffine", "FittedAffine"}

func alnAffine(alg string) bool { return strings.HasSuffix(alg, "Affine") }

var alnSmall = map[int]alphabet.Alphabet{
	2: alphabet.Must(alphabet.NewAlphabet("-ab", feat.Undefined, '-', 'n', !alphabet.CaseSensitive)),
	3: alphabet.Must(alphabet.NewAlphabet("-abc", feat.Undefined, '-', 'n', !alphabet.CaseSensitive)),
}

// alnFamily returns the fixed family of 40 matrices for k letters (size k+1, index 0 = gap).
func alnFamily(k int) [][][]int {
	n := k + 1
	mk := func(match, mismatch, gapRow, gapCol int) [][]int {
		m := make([][]int, n)
		for i := range m {
			m[i] = make([]int, n)
			for j := range m[i] {
				switch {
				case i == 0 && j == 0:
				case i == 0:
					m[i][j] = gapRow
				case j == 0:
					m[i][j] = gapCol
				case i == j:
					m[i][j] = match
				default:
					m[i][j] = mismatch
				}
			}
		}
		return m
	}
	fam := [][][]int{
		mk(1, -1, -1, -1), mk(2, -1, -2, -2), mk(1, -100, -1, -1), mk(0, 0, 0, 0), mk(1, -1, 0, 0),
		mk(-1, -1, -1, -1), mk(0, 0, -1, -1), mk(3, -2, 0, 0), mk(1, -1, -1, -3), mk(1, -1, -3, -1),
		mk(2, 2, -1, -1), mk(1, 0, -1, 0), mk(5, -4, -5, -5), mk(1, -3, -2, -2), mk(-2, -5, -1, -1),
		mk(1, 1, 0, 0), mk(2, -3, 0, -1), mk(4, -1, -3, 0),
	}
	rng := rand.New(rand.NewSource(int64(1000 + k)))
	for len(fam) < 40 {
		m := make([][]int, n)
		for i := range m {
			m[i] = make([]int, n)
			for j := range m[i] {
				switch {
				case i == 0 && j == 0:
				case i == 0 || j == 0:
					m[i][j] = -rng.Intn(4)
				default:
					m[i][j] = rng.Intn(9) - 4
					if i == j && rng.Intn(2) == 0 {
						m[i][j] = 1 + rng.Intn(4)
					}
				}
			}
		}
		if len(fam)%3 == 0 { // symmetric variant
			for i := range m {
				for j := 0; j < i; j++ {
					m[i][j] = m[j][i]
				}
			}
		}
		fam = append(fam, m)
	}
	return fam
}

var alnFamilies = map[int][][][]int{2: alnFamily(2), 3: alnFamily(3)}

func alnSeqs(k, maxLen int) [][]byte {
	letters := "abc"[:k]
	var out [][]byte
	var rec func(cur []byte, l int)
	rec = func(cur []byte, l int) {
		if len(cur) == l {
			out = append(out, append([]byte(nil), cur...))
			return
		}
		for i := 0; i < k; i++ {
			rec(append(cur, letters[i]), l)
		}
	}
	for l := 1; l <= maxLen; l++ {
		rec(nil, l)
	}
	return out
}

type alnRunOut struct {
	pairs    []alnPair
	raw      []feat.Pair
	err      error
	panicked interface{}
}

func alnAligner(alg string, M [][]int, open int) align.Aligner {
	switch alg {
	case "NW":
		return align.NW(M)
	case "SW":
		return align.SW(M)
	case "Fitted":
		return align.Fitted(M)
	case "NWAffine":
		return align.NWAffine{Matrix: M, GapOpen: open}
	case "SWAffine":
		return align.SWAffine{Matrix: M, GapOpen: open}
	}
	return align.FittedAffine{Matrix: M, GapOpen: open}
}

func alnMkSeq(b []byte, al alphabet.Alphabet, quality bool, rng *rand.Rand) align.AlphabetSlicer {
	if quality {
		ql := make([]alphabet.QLetter, len(b))
		for i := range ql {
			ql[i] = alphabet.QLetter{L: alphabet.Letter(b[i]), Q: alphabet.Qphred(rng.Intn(60))}
		}
		return linear.NewQSeq("s", ql, al, alphabet.Sanger)
	}
	return linear.NewSeq("s", alphabet.BytesToLetters(append([]byte(nil), b...)), al)
}

func alnRun(a align.Aligner, ref, query align.AlphabetSlicer) (out alnRunOut) {
	defer func() {
		if p := recover(); p != nil {
			out.panicked = p
		}
	}()
	raw, err := a.Align(ref, query)
	out.raw, out.err = raw, err
	for _, p := range raw {
		fs := p.Features()
		sc := 0
		if s, ok := p.(interface{ Score() int }); ok {
			sc = s.Score()
		}
		out.pairs = append(out.pairs, alnPair{fs[0].Start(), fs[0].End(), fs[1].Start(), fs[1].End(), sc})
	}
	// the returned slice is the caller's: it is overwritten with the pairs of an earlier, unrelated answer (and
	// truncated), so an aligner that hands out a shared value would hand the damage on to a later caller
	out.raw = append([]feat.Pair(nil), raw...)
	// an answer stays the caller's after later calls: the answers held from earlier calls are read again, then this one is held
	alnHeldAfterCall(out.raw, out.pairs)
	if len(raw) > 0 {
		if alnKept == nil || (len(raw) > 1 && len(raw) < 6) {
			alnKept = append([]feat.Pair(nil), raw...)
		}
		for i := range raw {
			raw[i] = alnKept[i%len(alnKept)]
		}
		raw = append(raw[:0], alnKept...)
		_ = raw
	}
	return
}

// alnKept is a (copied) earlier non-trivial answer used to overwrite later ones.
var alnKept []feat.Pair

func alnIdx(al alphabet.Alphabet, b []byte) []int {
	out := make([]int, len(b))
	for i, c := range b {
		out[i] = al.IndexOf(alphabet.Letter(c))
	}
	return out
}

type alnCase struct {
	Alg      string  `json:"aligner"`
	Alphabet string  `json:"alphabet"`
	Matrix   [][]int `json:"matrix,omitempty"`
	MatrixID string  `json:"matrix_id,omitempty"`
	Open     int     `json:"gap_open"`
	R        string  `json:"reference"`
	Q        string  `json:"query"`
}

func (c alnCase) witness(out alnRunOut, extra map[string]interface{}) map[string]interface{} {
	w := map[string]interface{}{"case": c, "pairs": fmt.Sprint(out.raw)}
	if len(c.Matrix) > 6 {
		cc := c
		cc.Matrix = nil
		w["case"] = cc
	}
	for k, v := range extra {
		w[k] = v
	}
	return w
}

// alnCheck runs one aligner configuration on one pair and reports to the stream selected by which ("C08" or "C09").
// It returns whether the case was non-trivial (>=2 pairs, or several optimal choices existed).
//
// given is either empty (fresh sequence objects are built for every call) or holds the caller's own long-lived objects:
// plain reference, plain query, quality reference, quality query, all spelling c.R and c.Q.
func alnCheck(r *obs.Run, which string, c alnCase, al alphabet.Alphabet, callerM [][]int, given ...align.AlphabetSlicer) bool {
	affine := alnAffine(c.Alg)
	rb, qb := []byte(c.R), []byte(c.Q)
	ri, qi := alnIdx(al, rb), alnIdx(al, qb)
	// the aligner gets the caller's matrix object; everything the verdicts are computed from reads M, a copy taken before
	// the call (an aligner that rewrites the matrix it was given is judged by the scores it was given)
	M := alnCopyMatrix(callerM)
	ag := alnAligner(c.Alg, callerM, c.Open)
	cur := c
	alnCur = &cur
	// C08 is stated for plain and quality letters alike: half of its runs go through the quality-letter bodies
	// (C09 runs both and compares them)
	qual := which == "C08" && r.Rng.Intn(2) == 0
	mkPair := func(quality bool) (align.AlphabetSlicer, align.AlphabetSlicer) {
		if len(given) == 4 {
			if quality {
				return given[2], given[3]
			}
			return given[0], given[1]
		}
		return alnMkSeq(rb, al, quality, r.Rng), alnMkSeq(qb, al, quality, r.Rng)
	}
	ref0, qry0 := mkPair(qual)
	out := alnRun(ag, ref0, qry0)
	matrixChanged := alnRestoreMatrix(callerM, M)
	if qual {
		r.Count("quality_letter_runs", 1)
	}
	r.Count("alignments_run", 1)
	r.Count("alg_"+c.Alg, 1)
	viol := func(class, brief string, extra map[string]interface{}) {
		r.Violate(class, fmt.Sprintf("%s open=%d r=%q q=%q: %s", c.Alg, c.Open, truncStr(c.R, 40), truncStr(c.Q, 40), brief), c.witness(out, extra))
	}
	if out.panicked != nil {
		if which == "C09" {
			viol("panic-on-valid-input", fmt.Sprintf("panic: %v", out.panicked), nil)
		} else {
			viol("no-alignment", fmt.Sprintf("panic: %v", out.panicked), nil)
		}
		return true
	}
	if out.err != nil {
		viol("error-on-valid-input", "error: "+out.err.Error(), nil)
		return true
	}
	f := analyse(out.pairs, ri, qi, M, c.Open, affine)
	n, m := len(ri), len(qi)

	// reference optima
	var optFull, optRestricted int
	kind := strings.TrimSuffix(c.Alg, "Affine")
	var fittedFull, fittedRestricted []int
	if affine {
		a, b := refAffine(ri, qi, M, c.Open, true), refAffine(ri, qi, M, c.Open, false)
		switch kind {
		case "NW":
			optFull, optRestricted = a.global, b.global
		case "SW":
			optFull, optRestricted = a.local, b.local
		default:
			fittedFull, fittedRestricted = a.fitted, b.fitted
		}
	} else {
		g, l, fit := refLinear(ri, qi, M)
		switch kind {
		case "NW":
			optFull, optRestricted = g, g
		case "SW":
			optFull, optRestricted = l, l
		default:
			fittedFull, fittedRestricted = fit, fit
		}
	}
	if kind == "Fitted" && f.wellFormed {
		optFull, optRestricted = fittedFull[f.aEnd], fittedRestricted[f.aEnd]
	}
	facts := map[string]interface{}{"recomputed_total": f.recomputed, "reported_total": f.reported, "optimum": optFull, "optimum_without_adjacent_gaps": optRestricted, "columns": truncStr(string(f.cols), 2000)}
	if matrixChanged {
		facts["the_call_changed_the_callers_matrix"] = true
		r.Count("calls_that_changed_the_callers_matrix", 1)
	}
	nontrivial := len(out.pairs) >= 2

	if which == "C08" {
		switch {
		case !f.wellFormed:
			viol("malformed-alignment", "cannot be scored: "+f.why, facts)
		case kind == "NW" && (f.aStart != 0 || f.bStart != 0 || f.aEnd != n || f.bEnd != m):
			viol("not-global", fmt.Sprintf("alignment covers [%d,%d)/[%d,%d) of %d/%d", f.aStart, f.aEnd, f.bStart, f.bEnd, n, m), facts)
		case kind == "Fitted" && (f.bStart != 0 || f.bEnd != m):
			viol("query-not-consumed", fmt.Sprintf("alignment consumes [%d,%d) of the %d query letters", f.bStart, f.bEnd, m), facts)
		case f.recomputed == optFull:
			// optimal
		case f.recomputed > optFull:
			viol("score-above-optimum", fmt.Sprintf("recomputed score %d exceeds the reference optimum %d", f.recomputed, optFull), facts)
		case affine && f.recomputed == optRestricted && optRestricted < optFull:
			r.Violate(alnKnownClass(r, which, "affine-no-adjacent-gaps", c), fmt.Sprintf("%s open=%d r=%q q=%q: score %d, optimum %d needs a gap in one sequence directly followed by a gap in the other", c.Alg, c.Open, c.R, c.Q, f.recomputed, optFull), c.witness(out, facts))
		case affine && f.reported == optRestricted && f.recomputed != f.reported:
			r.Violate(alnKnownClass(r, which, "affine-layer-confusion", c), fmt.Sprintf("%s open=%d r=%q q=%q: described path scores %d but the reported pair scores sum to the table value %d", c.Alg, c.Open, c.R, c.Q, f.recomputed, f.reported), c.witness(out, facts))
		default:
			viol("suboptimal", fmt.Sprintf("recomputed score %d, reference optimum %d", f.recomputed, optFull), facts)
		}
		if optFull != optRestricted {
			r.Count("cases_where_adjacent_gaps_matter", 1)
		}
		return nontrivial
	}

	// ---- C09 ----
	switch {
	case !f.wellFormed:
		viol("malformed-path", f.why, facts)
		return nontrivial
	case kind == "NW" && (f.aStart != 0 || f.bStart != 0 || f.aEnd != n || f.bEnd != m):
		viol("global-not-spanning", fmt.Sprintf("global alignment covers [%d,%d)/[%d,%d) of %d/%d", f.aStart, f.aEnd, f.bStart, f.bEnd, n, m), facts)
		return nontrivial
	case kind == "Fitted" && (f.bStart != 0 || f.bEnd != m): // global in the query
		viol("global-not-spanning", fmt.Sprintf("fitted alignment consumes [%d,%d) of the %d query letters", f.bStart, f.bEnd, m), facts)
		return nontrivial
	}
	for k, p := range out.pairs {
		if p.AE == p.AS && p.BE == p.BS && p.Score != 0 {
			viol("empty-pair-scored", fmt.Sprintf("empty pair %d reports score %d", k, p.Score), facts)
			return nontrivial
		}
	}
	if f.pairMismatch >= 0 {
		p := out.pairs[f.pairMismatch]
		brief := fmt.Sprintf("pair %d [%d,%d)/[%d,%d) reports score %d, recomputed %d", f.pairMismatch, p.AS, p.AE, p.BS, p.BE, p.Score, f.pairWant)
		switch {
		case affine && (f.recomputed != f.reported || f.oppositeAbut) && (f.reported == optRestricted || f.reported == optFull):
			r.Violate(alnKnownClass(r, which, "affine-layer-confusion", c), fmt.Sprintf("%s open=%d r=%q q=%q: %s (reported scores sum to the table value %d)", c.Alg, c.Open, c.R, c.Q, brief, f.reported), c.witness(out, facts))
		default:
			viol("pair-score", brief, facts)
		}
		return nontrivial
	}
	// type independence: the QLetters run gives pair for pair the same coordinates and scores
	qref, qqry := mkPair(true)
	qout := alnRun(ag, qref, qqry)
	if alnRestoreMatrix(callerM, M) {
		r.Count("calls_that_changed_the_callers_matrix", 1)
	}
	r.Count("qletters_runs_compared", 1)
	switch {
	case qout.panicked != nil:
		viol("panic-on-valid-input", fmt.Sprintf("QLetters run panicked: %v", qout.panicked), nil)
		return nontrivial
	case qout.err != nil:
		viol("type-dependence", "QLetters run returned an error: "+qout.err.Error(), nil)
		return nontrivial
	case len(qout.pairs) != len(out.pairs):
		viol("type-dependence", fmt.Sprintf("QLetters run returned %d pairs, Letters run %d", len(qout.pairs), len(out.pairs)), map[string]interface{}{"qletters_pairs": fmt.Sprint(qout.raw)})
		return nontrivial
	}
	for k := range out.pairs {
		if out.pairs[k] != qout.pairs[k] {
			viol("type-dependence", fmt.Sprintf("pair %d differs between the Letters and QLetters runs: %v vs %v", k, out.pairs[k], qout.pairs[k]), map[string]interface{}{"qletters_pairs": fmt.Sprint(qout.raw)})
			return nontrivial
		}
	}
	// Format renders two equal-length rows that reduce to the aligned subsequences
	func() {
		defer func() {
			if p := recover(); p != nil {
				viol("format-panic", fmt.Sprintf("Format panicked: %v", p), nil)
			}
		}()
		// rendered from plain or from quality-carrying sequences, with the alphabet's gap letter or another filler that
		// occurs in neither sequence
		gapArg := al.Gap()
		if k := r.Rng.Intn(4); k > 1 {
			gapArg = alphabet.Letter([]byte{'.', '~'}[k-2])
		}
		for _, other := range []byte{'.', '~', '#', '+'} {
			// the sequences hold the filler themselves (the gap letter is a letter like any other, and '.' is a letter of
			// some alphabets): only a filler that occurs in neither can be told apart
			if strings.IndexByte(c.R+c.Q, byte(gapArg)) < 0 {
				break
			}
			gapArg = alphabet.Letter(other)
		}
		quality := r.Rng.Intn(2) == 0
		withOffsets := r.Rng.Intn(5) == 0
		qualitySide := [2]bool{quality, quality}
		if !withOffsets && r.Rng.Intn(6) == 0 {
			// the pairs do not depend on the kind of sequence they were computed from: the plain copy of one sequence is
			// rendered against the quality-carrying copy of the other
			qualitySide[r.Rng.Intn(2)] = !quality
			r.Count("format_renderings_of_one_plain_and_one_quality_sequence", 1)
		}
		rsq, qsq := alnMkSeq(rb, al, qualitySide[0], r.Rng), alnMkSeq(qb, al, qualitySide[1], r.Rng)
		pairsForFormat := out.raw
		if withOffsets {
			// sequences that do not start at position 0. Whether pairs then count from the first letter (as the pinned tree
			// does) or in sequence coordinates is not fixed by the statement; they must be one of the two, and Format must
			// read them the way the aligner wrote them.
			ro, qo := 1+r.Rng.Intn(50), 1+r.Rng.Intn(50)
			if r.Rng.Intn(3) == 0 {
				ro = -1 - r.Rng.Intn(7)
			}
			rsq.(interface{ SetOffset(int) error }).SetOffset(ro)
			qsq.(interface{ SetOffset(int) error }).SetOffset(qo)
			po := alnPlainRun(ag, rsq, qsq)
			alnRestoreMatrix(callerM, M)
			same, shifted := po.panicked == nil && po.err == nil && len(po.pairs) == len(out.pairs), true
			shifted = same
			for k := range out.pairs {
				if !same && !shifted {
					break
				}
				a, b := out.pairs[k], po.pairs[k]
				if a != b {
					same = false
				}
				if (alnPair{a.AS + ro, a.AE + ro, a.BS + qo, a.BE + qo, a.Score}) != b {
					shifted = false
				}
			}
			if !same && !shifted {
				viol("offset-dependence", fmt.Sprintf("with the sequences starting at %d and %d the aligner answers %v (err %v, panic %v); starting at 0 it answered %v", ro, qo, po.pairs, po.err, po.panicked, out.pairs), nil)
				return
			}
			pairsForFormat = po.raw
			r.Count("format_renderings_of_sequences_with_an_offset", 1)
		}
		fa := align.Format(rsq.(seq.Sequence), qsq.(seq.Sequence), pairsForFormat, gapArg)
		var rows [2]string
		for k := range rows {
			switch v := fa[k].(type) {
			case alphabet.Letters:
				rows[k] = string(alphabet.LettersToBytes(v))
			case alphabet.QLetters:
				b := make([]byte, len(v))
				for x := range v {
					b[x] = byte(v[x].L)
				}
				rows[k] = string(b)
				// the subsequence of a quality-carrying sequence consists of (letter, quality) elements
				if src, ok := [2]align.AlphabetSlicer{rsq, qsq}[k].(*linear.QSeq); ok {
					at := [2]int{f.aStart, f.bStart}[k]
					for x := range v {
						if v[x].L == gapArg {
							continue
						}
						if at < len(src.Seq) && v[x] != src.Seq[at] {
							viol("format", fmt.Sprintf("Format row %d column %d holds %q with quality %d, element %d of the quality sequence is %q with quality %d", k, x, byte(v[x].L), v[x].Q, at, byte(src.Seq[at].L), src.Seq[at].Q), nil)
							return
						}
						at++
					}
					r.Count("format_rows_compared_with_letters_and_qualities", 1)
				}
			default:
				viol("format", fmt.Sprintf("Format row %d has type %T", k, fa[k]), nil)
				return
			}
		}
		if quality {
			r.Count("format_renderings_of_quality_sequences", 1)
		}
		r.Count("format_renderings_checked", 1)
		if len(rows[0]) != len(rows[1]) {
			viol("format", fmt.Sprintf("Format rows differ in length: %q / %q", rows[0], rows[1]), nil)
			return
		}
		g := string([]byte{byte(gapArg)})
		if strings.ReplaceAll(rows[0], g, "") != c.R[f.aStart:f.aEnd] || strings.ReplaceAll(rows[1], g, "") != c.Q[f.bStart:f.bEnd] {
			viol("format", fmt.Sprintf("Format rows %q / %q do not reduce to the aligned subsequences %q / %q", rows[0], rows[1], c.R[f.aStart:f.aEnd], c.Q[f.bStart:f.bEnd]), nil)
			return
		}
		if len(rows[0]) != len(f.cols) {
			viol("format", fmt.Sprintf("Format rows have %d columns, the pairs describe %d", len(rows[0]), len(f.cols)), nil)
			return
		}
		if r.Rng.Intn(4) == 0 {
			// the rows are the caller's: they are overwritten and appended to, then the same sequence objects are rendered
			// again; rows that were windows into the sequences would hand the damage on to the second rendering
			for k := range fa {
				switch v := fa[k].(type) {
				case alphabet.Letters:
					for x := range v {
						v[x] = gapArg
					}
					_ = append(v, gapArg, gapArg)
				case alphabet.QLetters:
					for x := range v {
						v[x] = alphabet.QLetter{L: gapArg, Q: 1}
					}
					_ = append(v, alphabet.QLetter{L: gapArg}, alphabet.QLetter{L: gapArg})
				}
			}
			fb := align.Format(rsq.(seq.Sequence), qsq.(seq.Sequence), pairsForFormat, gapArg)
			for k := range fb {
				again := ""
				switch v := fb[k].(type) {
				case alphabet.Letters:
					again = string(alphabet.LettersToBytes(v))
				case alphabet.QLetters:
					b := make([]byte, len(v))
					for x := range v {
						b[x] = byte(v[x].L)
					}
					again = string(b)
				}
				if again != rows[k] {
					viol("format", fmt.Sprintf("Format row %d was %q; after the caller overwrote the rows it got, rendering the same sequences and pairs again gives %q", k, truncStr(rows[k], 80), truncStr(again, 80)), nil)
					return
				}
			}
			r.Count("format_renderings_repeated_after_overwriting_the_rows", 1)
		}
	}()
	if f.oppositeAbut {
		r.Count("paths_with_abutting_opposite_gaps", 1)
	}
	return nontrivial
}

func truncStr(s string, n int) string {
	if len(s) > n {
		return s[:n] + "..."
	}
	return s
}

// ---- case enumeration ----

const alnOpens = 3

var alnOpenVals = []int{0, -1, -3}

func alnExhaustivePlan(r *obs.Run) (k2, k3 [][]byte) {
	k2 = alnSeqs(2, 4)
	if r.Thorough() {
		k2 = alnSeqs(2, 5)
		k3 = alnSeqs(3, 4)
	} else {
		k3 = alnSeqs(3, 3)
	}
	return
}

func alnCases(r *obs.Run) int {
	k2, k3 := alnExhaustivePlan(r)
	ex := 40*len(k2) + 40*len(k3)
	return r.Share(ex) + r.Share(r.Pick(10000, 100000)) + r.Share(r.Pick(3000, 20000))
}

func alnCaseFn(which string) func(r *obs.Run, i int) {
	return func(r *obs.Run, i int) {
		defer alnHeldReport(r)
		k2, k3 := alnExhaustivePlan(r)
		ex := 40*len(k2) + 40*len(k3)
		myEx := r.Share(ex)
		if i < myEx {
			e := i*r.NBatch + r.Batch
			k, seqs := 2, k2
			if e >= 40*len(k2) {
				e -= 40 * len(k2)
				k, seqs = 3, k3
			}
			mi, xi := e/len(seqs), e%len(seqs)
			M := alnFamilies[k][mi]
			al := alnSmall[k]
			x := seqs[xi]
			for _, y := range seqs {
				for _, alg := range alnAlgs {
					opens := []int{0}
					if alnAffine(alg) {
						opens = alnOpenVals
					}
					for _, o := range opens {
						c := alnCase{Alg: alg, Alphabet: fmt.Sprint("-", "abc"[:k]), Matrix: M, MatrixID: fmt.Sprintf("family%d/%d", k, mi), Open: o, R: string(x), Q: string(y)}
						nt := alnCheck(r, which, c, al, M)
						r.Note(fmt.Sprintf("ex/%d/%d/%s/%d/%s/%s", k, mi, alg, o, x, y), nt)
					}
				}
			}
			r.Count("exhaustive_blocks", 1)
			return
		}
		i -= myEx
		if i < 4 { // every batch starts its random part with four large problems, the aligners taking turns
			alnBigCase(r, which, i, alnAlgs[(4*r.Batch+i+int(r.Seed))%len(alnAlgs)])
			return
		}
		nRandom := r.Share(r.Pick(10000, 100000))
		if i < nRandom {
			alnRandomCase(r, which)
			return
		}
		if which == "C09" {
			alnIllTyped(r)
		} else {
			alnRandomCase(r, which)
		}
	}
}

type alnAlpha struct {
	name    string
	a       alphabet.Alphabet
	letters string
	builtin [][][]int
}

var alnAlphas = []alnAlpha{
	{"DNAgapped", alphabet.DNAgapped, "acgtACGT", [][][]int{matrix.NUC_4}},
	{"DNAredundant", alphabet.DNAredundant, "acmgrsvtwyhkdbnACGTN", [][][]int{matrix.NUC_4_4}},
	{"Protein", alphabet.Protein, "abcdefghiklmnpqrstvwyzACDEFGHIKLMNPQRSTVWY", [][][]int{matrix.BLOSUM62, matrix.PAM250, matrix.BLOSUM45}},
	// alphabets that tell upper from lower case, and alphabets whose gap letter is not '-' (there '-' and '.' are
	// letters like any other); the first two entries are the ones the ill-typed calls draw from
	{"RNAgapped", alphabet.RNAgapped, "acguACGU", [][][]int{matrix.NUC_4}},
	{"RNAredundant", alphabet.RNAredundant, "acmgrsvuwyhkdbnACGUN", [][][]int{matrix.NUC_4_4}},
	{"cased -acgtACGT", alphabet.Must(alphabet.NewAlphabet("-acgtACGT", feat.Undefined, '-', 'n', alphabet.CaseSensitive)), "acgtACGT", nil},
	{"cased *xyzXY.- (gap *)", alphabet.Must(alphabet.NewAlphabet("*xyzXY.-", feat.Undefined, '*', 'n', alphabet.CaseSensitive)), "xyzXY.-", nil},
	{".acgu (gap .)", alphabet.Must(alphabet.NewAlphabet(".acgu", feat.Undefined, '.', 'n', !alphabet.CaseSensitive)), "acguACGU", nil},
}

func init() {
	// every valid letter of each alphabet except the gap letter, both cases (the literals above are the common ones)
	for k := range alnAlphas {
		a := alnAlphas[k].a
		var all []byte
		for b := 1; b < 128; b++ {
			if a.IsValid(alphabet.Letter(b)) && alphabet.Letter(b) != a.Gap() {
				all = append(all, byte(b))
			}
		}
		alnAlphas[k].letters += string(all) // the common ones stay more frequent
	}
}

func alnRandomMatrix(rng *rand.Rand, n int) [][]int {
	m := make([][]int, n)
	mode := rng.Intn(4)
	// a third of the matrices are laid out as matrix.Match lays them out: rows are windows into one row-major block
	var block []int
	if rng.Intn(3) == 0 {
		block = make([]int, n*n)
	}
	defer func() {
		if block != nil && n > 2 && rng.Intn(2) == 0 {
			// ... and the caller then replaces a middle row by a slice of its own (or swaps two): the rows are what counts
			i := 1 + rng.Intn(n-2)
			if rng.Intn(2) == 0 {
				row := append([]int(nil), m[i]...)
				for j := 1; j < n; j++ {
					if j != i {
						row[j] -= 1 + rng.Intn(4)
					}
				}
				m[i] = row
			} else {
				j := 1 + rng.Intn(n-2)
				m[i], m[j] = m[j], m[i]
				for k := range m { // keep it a sensible matrix: swap the columns as well
					m[k][i], m[k][j] = m[k][j], m[k][i]
				}
				m[i], m[j] = append([]int(nil), m[i]...), append([]int(nil), m[j]...)
			}
		}
	}()
	for i := range m {
		m[i] = make([]int, n)
		if block != nil {
			m[i] = block[i*n : (i+1)*n]
		}
		for j := range m[i] {
			switch {
			case i == 0 && j == 0:
				if rng.Intn(4) == 0 {
					m[i][j] = -rng.Intn(4) // a gap letter opposite a gap letter (only met when the sequences hold gap letters)
				}
			case i == 0 || j == 0:
				switch mode {
				case 0:
					m[i][j] = 0
				case 1:
					m[i][j] = -1 - rng.Intn(3)
				default:
					m[i][j] = -rng.Intn(8)
				}
			case i == j:
				m[i][j] = rng.Intn(12) - 2
			default:
				m[i][j] = rng.Intn(14) - 9
			}
		}
	}
	if rng.Intn(2) == 0 {
		for i := range m {
			for j := 0; j < i; j++ {
				m[i][j] = m[j][i]
			}
		}
	}
	return m
}

// alnPlainRun is alnRun without the shared scribbling state: it may be called from several goroutines.
func alnPlainRun(a align.Aligner, ref, query align.AlphabetSlicer) (out alnRunOut) {
	defer func() {
		if p := recover(); p != nil {
			out.panicked = p
		}
	}()
	raw, err := a.Align(ref, query)
	out.err, out.raw = err, raw
	for _, p := range raw {
		fs := p.Features()
		sc := 0
		if s, ok := p.(interface{ Score() int }); ok {
			sc = s.Score()
		}
		out.pairs = append(out.pairs, alnPair{fs[0].Start(), fs[0].End(), fs[1].Start(), fs[1].End(), sc})
	}
	return
}

// alnParallel lets several goroutines align at the same time: in half of the groups unrelated problems, each with an
// aligner value, a matrix and sequences of its own (nothing is shared on the caller's side), in the other half with one
// aligner value, matrix and reference object shared read-only. Every answer must be the answer the same problem
// gave when it ran alone: an aligner that keeps working storage between calls shows up here (and, in the builds under
// the race detector, as a report).
func alnParallel(r *obs.Run, which string) {
	rng := r.Rng
	aa := alnAlphas[rng.Intn(len(alnAlphas))]
	type task struct {
		c        alnCase
		ag       align.Aligner
		ref, qry align.AlphabetSlicer
		want     alnRunOut
		got      []alnRunOut
	}
	n := 3 + rng.Intn(6)
	reps := 2 + rng.Intn(4)
	oneAlg := ""
	if rng.Intn(2) == 0 { // all callers inside the same aligner
		oneAlg = alnAlgs[rng.Intn(len(alnAlgs))]
	}
	gen := func(n int) []byte {
		b := make([]byte, n)
		for i := range b {
			b[i] = aa.letters[rng.Intn(len(aa.letters))]
		}
		return b
	}
	ln := func() int {
		if rng.Intn(3) == 0 {
			return 1 + rng.Intn(60)
		}
		return 128 + rng.Intn(100) // tables of 16384 cells and more
	}
	// in half of the groups the callers share, read-only, what a worker pool shares: one aligner value (and a second one
	// built over the same matrix object), one reference sequence object, now and then one query object
	type sharedAligner struct {
		alg  string
		open int
		ag   align.Aligner
	}
	var shared []sharedAligner
	var sharedM [][]int
	var sharedX []byte
	var sharedRef align.AlphabetSlicer
	sharedQual := rng.Intn(2) == 0
	if rng.Intn(2) == 0 {
		sharedM = alnRandomMatrix(rng, aa.a.Len())
		for k := 0; k < 2; k++ {
			alg := oneAlg
			if alg == "" {
				alg = alnAlgs[rng.Intn(len(alnAlgs))]
			}
			open := 0
			if alnAffine(alg) {
				open = -rng.Intn(12)
			}
			shared = append(shared, sharedAligner{alg, open, alnAligner(alg, sharedM, open)})
		}
		sharedX = gen(ln())
		sharedRef = alnMkSeq(sharedX, aa.a, sharedQual, rng)
		r.Count("concurrent_caller_groups_sharing_aligner_matrix_and_reference", 1)
	}
	tasks := make([]*task, n)
	for k := range tasks {
		alg := oneAlg
		if alg == "" {
			alg = alnAlgs[rng.Intn(len(alnAlgs))]
		}
		if shared != nil {
			sh := shared[0]
			if rng.Intn(4) == 0 {
				sh = shared[1]
			}
			t := &task{c: alnCase{Alg: sh.alg, Alphabet: aa.name, Matrix: sharedM, MatrixID: "random/shared", Open: sh.open, R: string(sharedX)}, ag: sh.ag, ref: sharedRef}
			if k > 0 && rng.Intn(3) == 0 { // the same query object as the caller before
				t.c.Q, t.qry = tasks[k-1].c.Q, tasks[k-1].qry
			} else {
				y := gen(ln())
				if rng.Intn(2) == 0 && len(sharedX) > 4 {
					y = append([]byte(nil), sharedX[rng.Intn(len(sharedX)/2):]...)
					for j := 0; j < len(y)/8+1; j++ {
						y[rng.Intn(len(y))] = aa.letters[rng.Intn(len(aa.letters))]
					}
				}
				t.c.Q, t.qry = string(y), alnMkSeq(y, aa.a, sharedQual, rng)
			}
			t.want = alnPlainRun(t.ag, t.ref, t.qry)
			tasks[k] = t
			continue
		}
		M := alnRandomMatrix(rng, aa.a.Len())
		open := 0
		if alnAffine(alg) {
			open = -rng.Intn(12)
		}
		x := gen(ln())
		y := gen(ln())
		if rng.Intn(2) == 0 && len(x) > 4 { // related sequences
			a := rng.Intn(len(x) / 2)
			y = append([]byte(nil), x[a:]...)
			for j := 0; j < len(y)/8+1; j++ {
				y[rng.Intn(len(y))] = aa.letters[rng.Intn(len(aa.letters))]
			}
		}
		qual := rng.Intn(2) == 0
		t := &task{c: alnCase{Alg: alg, Alphabet: aa.name, Matrix: M, MatrixID: "random", Open: open, R: string(x), Q: string(y)}}
		t.ag = alnAligner(alg, M, open)
		t.ref, t.qry = alnMkSeq(x, aa.a, qual, rng), alnMkSeq(y, aa.a, qual, rng)
		t.want = alnPlainRun(t.ag, t.ref, t.qry)
		tasks[k] = t
	}
	start := make(chan struct{})
	var wg sync.WaitGroup
	for _, t := range tasks {
		t := t
		t.got = make([]alnRunOut, reps)
		wg.Add(1)
		go func() {
			defer wg.Done()
			<-start
			for k := range t.got {
				t.got[k] = alnPlainRun(t.ag, t.ref, t.qry)
			}
		}()
	}
	close(start)
	wg.Wait()
	alnHeldRecheck(-1) // the answers held from the sequential calls, after the concurrent ones
	r.Count("concurrent_caller_groups", 1)
	sharing := "unrelated problems"
	if shared != nil {
		sharing = "with the same aligner values, matrix and reference object"
	}
	for ti, t := range tasks {
		for k, g := range t.got {
			r.Count("concurrent_alignments_compared", 1)
			same := g.panicked == nil && t.want.panicked == nil && (g.err == nil) == (t.want.err == nil) && len(g.pairs) == len(t.want.pairs)
			if same {
				for j := range g.pairs {
					if g.pairs[j] != t.want.pairs[j] {
						same = false
						break
					}
				}
			}
			if same {
				continue
			}
			what := fmt.Sprintf("pairs %v", g.pairs)
			if g.panicked != nil {
				what = fmt.Sprintf("panic: %v", g.panicked)
			} else if g.err != nil {
				what = "error: " + g.err.Error()
			}
			cc := t.c
			cc.Matrix = nil
			var others []string
			for _, o := range tasks {
				others = append(others, o.c.Alg)
			}
			r.Violate("concurrent-callers", fmt.Sprintf("%s open=%d r=%q q=%q: with %d other callers aligning %s at the same time, repeat %d of caller %d gives %s; alone it gave %s",
				t.c.Alg, t.c.Open, truncStr(t.c.R, 30), truncStr(t.c.Q, 30), n-1, sharing, k, ti, truncStr(what, 200), truncStr(fmt.Sprintf("pairs %v err %v panic %v", t.want.pairs, t.want.err, t.want.panicked), 200)),
				map[string]interface{}{"case": cc, "matrix": t.c.Matrix, "callers": others, "alone": fmt.Sprint(t.want.pairs), "concurrent": what})
			return
		}
	}
}

func alnRandomCase(r *obs.Run, which string) {
	rng := r.Rng
	if rng.Intn(40) == 0 {
		alnParallel(r, which)
		return
	}
	ai := rng.Intn(len(alnAlphas))
	aa := alnAlphas[ai]
	switch {
	case ai >= 5:
		r.Count("random_cases_over_alphabets_that_tell_case_or_have_another_gap_letter", 1)
	case ai >= 3:
		r.Count("random_cases_over_RNA_alphabets", 1)
	}
	var M [][]int
	id := "random"
	if rng.Intn(20) == 0 {
		alnWindowSession(r, which, aa)
		return
	}
	if rng.Intn(3) == 0 && len(aa.builtin) > 0 {
		k := rng.Intn(len(aa.builtin))
		// built-ins carry zero gap scores: copy and (sometimes) set the gap row and column
		src := aa.builtin[k]
		M = make([][]int, len(src))
		for i := range src {
			M[i] = append([]int(nil), src[i]...)
		}
		id = fmt.Sprintf("builtin-%s-%d", aa.name, k)
		if rng.Intn(3) != 0 {
			g := -1 - rng.Intn(8)
			for i := 1; i < len(M); i++ {
				M[i][0], M[0][i] = g, g
			}
			id += fmt.Sprint("/gap", g)
		}
	} else {
		M = alnRandomMatrix(rng, aa.a.Len())
		if rng.Intn(5) == 0 { // a square matrix larger than the alphabet: the extra rows and columns are never addressed
			M = alnRandomMatrix(rng, aa.a.Len()+1+rng.Intn(3))
			id = "random-oversize"
			r.Count("oversize_square_matrices", 1)
		}
	}
	if rng.Intn(12) == 0 { // scores that need more than 32 bits: a pairing ruled out by a penalty of -2^40, match weights of 3e9
		n := aa.a.Len()
		if rng.Intn(2) == 0 {
			for k := 1 + rng.Intn(3); k > 0; k-- {
				i, j := 1+rng.Intn(n-1), 1+rng.Intn(n-1)
				if i != j {
					M[i][j], M[j][i] = -(1 << 40), -(1 << 40)
				}
			}
		} else {
			for i := 1; i < n; i++ {
				M[i][i] = 3000000000 + rng.Intn(5)
			}
		}
		id += "/wide-values"
		r.Count("matrices_with_scores_beyond_32_bits", 1)
	}
	beyond53 := false
	if rng.Intn(25) == 0 {
		// match weights just above 2^53, odd: exact as integers, not as float64 (short sequences, so that sums stay
		// far inside 64 bits)
		for i := 1; i < aa.a.Len(); i++ {
			M[i][i] = 1<<53 + 1 + 2*rng.Intn(50)
		}
		id += "/beyond-2^53"
		beyond53 = true
		r.Count("matrices_with_scores_beyond_53_bits", 1)
	}
	ln := func() int {
		if beyond53 {
			return 1 + rng.Intn(12)
		}
		switch rng.Intn(4) {
		case 0:
			return 1 + rng.Intn(8)
		case 1:
			return 1 + rng.Intn(40)
		default:
			return 1 + rng.Intn(200)
		}
	}
	gen := func(n int) []byte {
		b := make([]byte, n)
		for i := range b {
			b[i] = aa.letters[rng.Intn(len(aa.letters))]
		}
		return b
	}
	x := gen(ln())
	var y []byte
	lopsided := !beyond53 && rng.Intn(15) == 0 // one sequence a few letters, the other hundreds: gap runs of 200 and more
	if lopsided {
		x = gen(1 + rng.Intn(3))
	}
	gapLetters := rng.Intn(8) == 0 // the gap letter is a letter of a gapped alphabet like any other
	if rng.Intn(2) == 0 {          // related sequences: mutate a window of x
		a := rng.Intn(len(x))
		b := a + 1 + rng.Intn(len(x)-a)
		y = append([]byte(nil), x[a:b]...)
		for k := 0; k < len(y)/6+1; k++ {
			switch rng.Intn(3) {
			case 0:
				y[rng.Intn(len(y))] = aa.letters[rng.Intn(len(aa.letters))]
			case 1:
				p := rng.Intn(len(y) + 1)
				y = append(y[:p], append(gen(1+rng.Intn(3)), y[p:]...)...)
			default:
				if len(y) > 2 {
					p := rng.Intn(len(y) - 1)
					y = append(y[:p], y[p+1:]...)
				}
			}
		}
	} else {
		y = gen(ln())
	}
	if lopsided {
		y = gen(205 + rng.Intn(300))
		if rng.Intn(2) == 0 {
			x, y = y, x
		}
		r.Count("lopsided_pairs", 1)
	}
	if gapLetters {
		for _, sq := range [][]byte{x, y} {
			for k := range sq {
				if rng.Intn(6) == 0 {
					sq[k] = byte(aa.a.Gap())
				}
			}
			if rng.Intn(2) == 0 {
				sq[len(sq)-1] = byte(aa.a.Gap())
			}
			if rng.Intn(3) == 0 {
				sq[0] = byte(aa.a.Gap())
			}
		}
		r.Count("cases_with_gap_letters_in_the_sequences", 1)
	}
	alg := alnAlgs[rng.Intn(len(alnAlgs))]
	open := 0
	if alnAffine(alg) {
		open = -rng.Intn(12)
		if rng.Intn(4) == 0 {
			open = 0
		}
		if rng.Intn(12) == 0 { // penalties that make gaps rare or forbid them
			open = alnLargeOpens[rng.Intn(len(alnLargeOpens))]
			r.Count("affine_cases_with_a_gap_open_of_37_to_2_to_the_40", 1)
		}
	}
	c := alnCase{Alg: alg, Alphabet: aa.name, Matrix: M, MatrixID: id, Open: open, R: string(x), Q: string(y)}
	nt := alnCheck(r, which, c, aa.a, M)
	r.Note(fmt.Sprintf("rnd/%s/%s/%d/%s/%s/%x", aa.name, alg, open, x, y, hashBytes([]byte(fmt.Sprint(M)))), nt)
	r.Count("random_cases", 1)
	if rng.Intn(4) == 0 { // the caller edits the same matrix object in place and aligns again: nothing may remember the old scores
		n := aa.a.Len()
		g := -rng.Intn(7)
		for i := 1; i < n; i++ {
			M[i][0], M[0][i] = g, g-rng.Intn(2)
		}
		M[1+rng.Intn(n-1)][1+rng.Intn(n-1)] += 1 + rng.Intn(3)
		c2 := c
		c2.MatrixID = id + "/edited-in-place-after-a-first-call"
		alnCheck(r, which, c2, aa.a, M)
		r.Count("second_calls_after_editing_the_matrix_in_place", 1)
	}
	if r.WantSample() && len(x) < 20 && len(y) < 20 {
		out := alnRun(alnAligner(alg, M, open), alnMkSeq(x, aa.a, false, rng), alnMkSeq(y, aa.a, false, rng))
		cc := c
		cc.Matrix = nil
		r.Sample(map[string]interface{}{"case": cc, "pairs": fmt.Sprint(out.raw)})
	}
}

// alnIllTyped feeds ill-typed inputs: they must produce an error, never a panic.
func alnIllTyped(r *obs.Run) {
	rng := r.Rng
	aa := alnAlphas[rng.Intn(2)]
	M := alnRandomMatrix(rng, aa.a.Len())
	gen := func(n int) []byte {
		b := make([]byte, n)
		for i := range b {
			b[i] = aa.letters[rng.Intn(len(aa.letters))]
		}
		return b
	}
	x, y := gen(1+rng.Intn(12)), gen(1+rng.Intn(12))
	alg := alnAlgs[rng.Intn(len(alnAlgs))]
	open := -rng.Intn(4)
	kind := rng.Intn(7)
	var ref, query align.AlphabetSlicer
	desc := ""
	run := func() {
		alnCur = nil
		out := alnRun(alnAligner(alg, M, open), ref, query)
		r.Count("ill_typed_calls", 1)
		w := map[string]interface{}{"aligner": alg, "what": desc, "reference": string(x), "query": string(y), "matrix_rows": len(M)}
		switch {
		case out.panicked != nil:
			r.Violate("ill-typed-panic", fmt.Sprintf("%s with %s panicked: %v", alg, desc, out.panicked), w)
		case out.err == nil:
			r.Violate("ill-typed-accepted", fmt.Sprintf("%s with %s returned no error", alg, desc), w)
		}
		r.Note(fmt.Sprintf("ill/%s/%s/%s/%s", alg, desc, x, y), true)
	}
	switch kind {
	case 0, 1: // illegal letter at every position of one sequence
		bad := []byte{'!', 'z', 0, 0xff, 'J', '?', ' '}[rng.Intn(7)]
		if aa.a.IsValid(alphabet.Letter(bad)) {
			bad = '!'
		}
		for side := 0; side < 2; side++ {
			src := x
			if side == 1 {
				src = y
			}
			for p := range src {
				mut := append([]byte(nil), src...)
				mut[p] = bad
				q := rng.Intn(2) == 0
				if side == 0 {
					ref, query = alnMkSeq(mut, aa.a, q, rng), alnMkSeq(y, aa.a, q, rng)
				} else {
					ref, query = alnMkSeq(x, aa.a, q, rng), alnMkSeq(mut, aa.a, q, rng)
				}
				desc = fmt.Sprintf("illegal letter %q at position %d of the %s (quality=%v)", bad, p, []string{"reference", "query"}[side], q)
				run()
				r.Count("illegal_letter_positions", 1)
			}
		}
	case 2: // different alphabets
		switch rng.Intn(3) {
		case 0:
			other := alphabet.RNAgapped
			ref, query = alnMkSeq(x, aa.a, false, rng), alnMkSeq([]byte("acgu"), other, false, rng)
			desc = "different alphabets"
		case 1: // an alphabet with the very same letters that is not the same alphabet (other molecule type and ambiguity letter)
			twin, err := alphabet.NewAlphabet(aa.a.Letters()[:aa.a.Len()], feat.Undefined, aa.a.Gap(), aa.a.Letter(1), false)
			if err != nil {
				r.Inconclusive("harness: cannot build the twin alphabet: " + err.Error())
				return
			}
			ref, query = alnMkSeq(x, aa.a, false, rng), alnMkSeq(y, twin, false, rng)
			desc = "different alphabets with identical letters"
			if rng.Intn(2) == 0 {
				ref, query = alnMkSeq(x, twin, false, rng), alnMkSeq(y, aa.a, false, rng)
			}
		default: // one sequence has no alphabet at all
			q := linear.NewSeq("q", alphabet.BytesToLetters(append([]byte(nil), y...)), nil)
			ref, query = alnMkSeq(x, aa.a, false, rng), q
			desc = "query without an alphabet"
			switch rng.Intn(3) {
			case 1:
				ref, query = q, alnMkSeq(x, aa.a, false, rng)
				desc = "reference without an alphabet"
			case 2:
				ref, query = q, linear.NewSeq("r", alphabet.BytesToLetters(append([]byte(nil), x...)), nil)
				desc = "neither sequence has an alphabet"
			}
		}
		for _, a := range alnAlgs {
			alg = a
			run()
		}
	case 3: // Letters vs QLetters
		ref, query = alnMkSeq(x, aa.a, false, rng), alnMkSeq(y, aa.a, true, rng)
		desc = "mismatched sequence types"
		if rng.Intn(2) == 0 { // one side is of a kind no aligner handles, the other plain or quality letters
			what := ""
			ref, what = alnOddSeq(rng, aa.a, x)
			query = alnMkSeq(y, aa.a, rng.Intn(2) == 0, rng)
			desc = "mismatched sequence types: " + what + " against letters"
			r.Count("ill_typed_calls_with_columns_or_no_data_on_one_side", 1)
		}
		if rng.Intn(2) == 0 {
			ref, query = query, ref
		}
		for _, a := range alnAlgs {
			alg = a
			run()
		}
	case 4: // ragged or otherwise non-square matrix
		if rng.Intn(4) == 0 { // a matrix with rows to spare (allowed when square) whose ragged row is one of the spare ones
			n := aa.a.Len() + 1 + rng.Intn(3)
			M = alnRandomMatrix(rng, n)
			row := aa.a.Len() + rng.Intn(n-aa.a.Len())
			if rng.Intn(2) == 0 {
				M[row] = M[row][:len(M[row])-1-rng.Intn(2)]
			} else {
				M[row] = append(append([]int(nil), M[row]...), 0)
			}
			desc = fmt.Sprintf("ragged matrix of %d rows for %d letters (spare row %d has %d entries)", n, aa.a.Len(), row, len(M[row]))
			qm := rng.Intn(2) == 0
			ref, query = alnMkSeq(x, aa.a, qm, rng), alnMkSeq(y, aa.a, qm, rng)
			r.Count("nonsquare_matrices", 1)
			r.Count("oversize_matrices_with_a_ragged_spare_row", 1)
			for _, a := range alnAlgs {
				alg = a
				run()
			}
			break
		}
		row := rng.Intn(len(M))
		if rng.Intn(2) == 0 { // the matrix object was used, well-formed, just before
			for _, a := range alnAlgs {
				alnRun(alnAligner(a, M, open), alnMkSeq(x, aa.a, false, rng), alnMkSeq(y, aa.a, false, rng))
			}
		}
		switch rng.Intn(5) {
		case 0:
			M[row] = M[row][:len(M[row])-1-rng.Intn(2)]
			desc = fmt.Sprintf("ragged matrix (row %d has %d entries)", row, len(M[row]))
		case 1:
			M[row] = append(M[row], 0)
			desc = fmt.Sprintf("ragged matrix (row %d has %d entries)", row, len(M[row]))
		case 2: // one row short, another long by the same amount: the number of cells is still n*n
			other := (row + 1 + rng.Intn(len(M)-1)) % len(M)
			d := 1 + rng.Intn(2)
			M[row] = M[row][:len(M[row])-d]
			M[other] = append(M[other], make([]int, d)...)
			desc = fmt.Sprintf("ragged matrix with n*n cells (row %d has %d entries, row %d has %d)", row, len(M[row]), other, len(M[other]))
		case 3: // one row too many
			M = append(M, make([]int, len(M[0])))
			desc = fmt.Sprintf("non-square matrix (%d rows of %d entries)", len(M), len(M[0]))
		default: // every row one entry too long
			for i := range M {
				M[i] = append(M[i], -1)
			}
			desc = fmt.Sprintf("non-square matrix (%d rows of %d entries)", len(M), len(M[0]))
		}
		qm := rng.Intn(2) == 0 // each aligner validates the matrix once more in its quality-letter body
		ref, query = alnMkSeq(x, aa.a, qm, rng), alnMkSeq(y, aa.a, qm, rng)
		r.Count("nonsquare_matrices", 1)
		for _, a := range alnAlgs { // every aligner validates the matrix itself
			alg = a
			run()
		}
	case 5: // undersized square matrix
		n := 1 + rng.Intn(aa.a.Len()-1)
		M = alnRandomMatrix(rng, n)
		qu := rng.Intn(2) == 0
		ref, query = alnMkSeq(x, aa.a, qu, rng), alnMkSeq(y, aa.a, qu, rng)
		desc = fmt.Sprintf("undersized matrix (%dx%d for %d letters)", n, n, aa.a.Len())
		if rng.Intn(3) == 0 { // no cells at all, or whole rows missing
			M, desc = alnOddMatrix(rng, aa.a.Len())
			if rng.Intn(2) == 0 {
				open = 0
			}
			r.Count("matrices_without_cells_or_with_nil_rows", 1)
		}
		for _, a := range alnAlgs {
			alg = a
			run()
		}
	default: // alphabet without a leading gap
		ref, query = alnMkSeq([]byte("acgt"), alphabet.DNA, false, rng), alnMkSeq([]byte("acg"), alphabet.DNA, false, rng)
		M = alnRandomMatrix(rng, 5)
		desc = "alphabet without gap at index 0"
		run()
	}
}

func init() {
	batches := func(t string) int {
		if t == "thorough" {
			return 16
		}
		return 8
	}
	register(&obs.Monitor{
		ID:    "C08",
		Level: "exploration",
		Rule: "bounded-exhaustive: every ordered pair of sequences of length 1..4 over {a,b} (thorough 1..5) and 1..3 over {a,b,c} (thorough 1..4) x a fixed family of 40 matrices (symmetric, asymmetric gap row/column, all ties, zero gaps, zero everything, large negative mismatch, seeded random) " +
			"x gap-open {0,-1,-3} for the affine aligners, all six aligners; random: lengths 1..200 over DNAgapped/DNAredundant/Protein with random or built-in (NUC.4, NUC.4.4, BLOSUM62, PAM250, BLOSUM45) matrices (a fifth of the random ones square but larger than the alphabet; in 1 case of 4 the same matrix object is edited in place and used again; 1 case of 8 with gap letters inside the sequences) and gap-open 0..-11, related and unrelated pairs. " +
			"Oracle: score recomputed from coordinates, letters, matrix and gap parameters equals the optimum of clean-room O(nm) DPs (global, local, fitted by end position; affine with three states including adjacent opposite gaps). Non-trivial = alignment of >=2 pairs; distinct = aligner+parameters+sequences",
		Batches:     batches,
		Cases:       alnCases,
		Case:        alnCaseFn("C08"),
		MinDistinct: func(t string) int { return 100000 },
		Floors: func(string) map[string]int64 {
			return map[string]int64{"alignments_run": 300000, "alg_NW": 20000, "alg_SW": 20000, "alg_Fitted": 20000, "alg_NWAffine": 60000, "alg_SWAffine": 60000, "alg_FittedAffine": 60000, "random_cases": 2500, "cases_where_adjacent_gaps_matter": 100}
		},
		Assumptions: []string{"sequences are non-empty and made of non-gap letters", "fitted: the end position is read from the returned alignment; optimality is demanded among alignments ending there"},
	})
	register(&obs.Monitor{
		ID:    "C09",
		Level: "exploration",
		Rule: "same inputs as C08, judged for shape and fidelity: pairs abut and form one monotone path, each is an equal-length block, a one-sided gap or empty with score 0, global alignments span both sequences, every pair's Score() equals the score recomputed from letters, matrix and gap parameters, " +
			"the QLetters run equals the Letters run pair for pair, Format gives two equal-length rows reducing to the aligned subsequences; plus ill-typed calls (illegal letter at every position of either sequence; different alphabets, a twin alphabet with identical letters, a query without alphabet; Letters vs QLetters; ragged matrices incl. one row short and another long by the same amount, a row too many, every row too long, undersized - each for all six aligners; alphabet without leading gap) that must return an error and not panic. " +
			"Non-trivial = alignment of >=2 pairs or an ill-typed call; distinct = aligner+parameters+sequences",
		Batches:     batches,
		Cases:       alnCases,
		Case:        alnCaseFn("C09"),
		MinDistinct: func(t string) int { return 100000 },
		Floors: func(string) map[string]int64 {
			return map[string]int64{"alignments_run": 300000, "qletters_runs_compared": 200000, "format_renderings_checked": 200000, "ill_typed_calls": 2000, "illegal_letter_positions": 1000, "random_cases": 2500}
		},
		Assumptions: []string{"sequences are non-empty and made of non-gap letters", "panics are caught by recover in the child; fatal errors end the child and are reported from its exit status"},
	})
}
