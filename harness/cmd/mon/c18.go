package main

import (
	"fmt"
	"math"
	"strings"

	"github.com/biogo/biogo/alphabet"
	"github.com/biogo/biogo/seq/linear"
	"github.com/biogo/biogo/seq/quality"

	"verif/harness/internal/obs"
)

// C18 — quality scores encode, decode and convert consistently.
//
// Exhaustive over the 8-bit domains, oracle = independent math formulas.

var c18AllEncs = []alphabet.Encoding{alphabet.Sanger, alphabet.Solexa, alphabet.Illumina1_3, alphabet.Illumina1_5, alphabet.Illumina1_8, alphabet.Illumina1_9, alphabet.None}

func init() {
	register(&obs.Monitor{
		ID:    "C18",
		Level: "exploration",
		Rule: "exhaustive over 256 Phred x 5 Phred-offset encodings, 256 Solexa x Solexa encoding (alphabet, seq/quality and linear.QSeq entry points), " +
			"all score values for ProbE/E*/conversions, plus seeded probabilities in (0,1); a case is non-trivial when the value lies in the range the statement judges " +
			"(printable range, finite and representable conversion, non-tie probability); distinct = (section,value[,encoding])",
		Batches:     func(string) int { return 1 },
		Cases:       func(r *obs.Run) int { return 8 },
		Case:        c18Case,
		MinDistinct: func(string) int { return 2000 },
		Floors: func(string) map[string]int64 {
			return map[string]int64{"roundtrip_pairs_judged": 400, "conversions_judged": 300, "probabilities_judged": 10000}
		},
		Assumptions: []string{
			"reference formulas use float64 math.Pow/Log10; ties closer than 1e-9 to a rounding boundary are not judged",
			"Solexa printable range taken as -5..62 (the documented Q-range mapped to bytes 59..126); Phred ranges 0..93 (+33), 0..62 (+64), 2..62 (Illumina 1.5)",
			"sentinels (Phred 254/255, Solexa 127/-128) judged only for mutual agreement of error probabilities",
		},
	})
}

type c18w struct {
	Section string      `json:"section"`
	Value   interface{} `json:"value"`
	Enc     string      `json:"encoding,omitempty"`
	Got     interface{} `json:"got"`
	Want    interface{} `json:"want"`
}

var encNames = map[alphabet.Encoding]string{
	alphabet.Sanger: "Sanger", alphabet.Solexa: "Solexa", alphabet.Illumina1_3: "Illumina1_3",
	alphabet.Illumina1_5: "Illumina1_5", alphabet.Illumina1_8: "Illumina1_8", alphabet.Illumina1_9: "Illumina1_9", alphabet.None: "None",
}

func phredRange(e alphabet.Encoding) (lo, hi int) {
	switch e {
	case alphabet.Sanger, alphabet.Illumina1_8, alphabet.Illumina1_9:
		return 0, 93
	case alphabet.Illumina1_3:
		return 0, 62
	case alphabet.Illumina1_5:
		return 2, 62
	}
	return 0, -1
}

func phredOffset(e alphabet.Encoding) int {
	switch e {
	case alphabet.Sanger, alphabet.Illumina1_8, alphabet.Illumina1_9:
		return 33
	}
	return 64
}

func nearTie(x float64) bool {
	f := x - math.Floor(x)
	return math.Abs(f-0.5) < 1e-9
}

func relClose(a, b float64) bool {
	if a == b {
		return true
	}
	return math.Abs(a-b) <= 1e-12*math.Max(math.Abs(a), math.Abs(b))
}

func c18Case(r *obs.Run, i int) {
	switch i {
	case 0: // encode/decode round trip, Phred under Phred-offset encodings
		for _, e := range []alphabet.Encoding{alphabet.Sanger, alphabet.Illumina1_3, alphabet.Illumina1_5, alphabet.Illumina1_8, alphabet.Illumina1_9} {
			lo, hi := phredRange(e)
			for q := 0; q < 256; q++ {
				in := q >= lo && q <= hi
				r.Note(fmt.Sprint("rtP/", encNames[e], "/", q), in)
				if !in {
					continue
				}
				r.Count("roundtrip_pairs_judged", 1)
				b := alphabet.Qphred(q).Encode(e)
				if int(b) != q+phredOffset(e) {
					r.Violate("phred-encode-byte", fmt.Sprintf("Qphred(%d).Encode(%s)=%d want %d", q, encNames[e], b, q+phredOffset(e)),
						c18w{"phred-encode", q, encNames[e], b, q + phredOffset(e)})
				}
				if got := e.DecodeToQphred(b); int(got) != q {
					r.Violate("phred-roundtrip", fmt.Sprintf("decode(encode(Qphred %d, %s))=%d", q, encNames[e], got),
						c18w{"phred-roundtrip", q, encNames[e], got, q})
				}
				// seq/quality and linear.QSeq entry points
				ph := quality.NewPhred("x", []alphabet.Qphred{alphabet.Qphred(q)}, e)
				if got := ph.QDecode(ph.QEncode(0)); int(got) != q {
					r.Violate("phred-roundtrip", fmt.Sprintf("quality.Phred QDecode(QEncode) %d under %s = %d", q, encNames[e], got),
						c18w{"quality.Phred-roundtrip", q, encNames[e], got, q})
				}
				qs := linear.NewQSeq("x", []alphabet.QLetter{{L: 'a', Q: alphabet.Qphred(q)}}, alphabet.DNA, e)
				if got := qs.Encoding().DecodeToQphred(qs.QEncode(0)); int(got) != q {
					r.Violate("phred-roundtrip", fmt.Sprintf("linear.QSeq QDecode(QEncode) %d under %s = %d", q, encNames[e], got),
						c18w{"linear.QSeq-roundtrip", q, encNames[e], got, q})
				}
				// the same through containers that do not start at position 0
				for _, off := range []int{-3, 1, 40} {
					php := quality.NewPhred("x", []alphabet.Qphred{7, alphabet.Qphred(q), 9}, e)
					php.SetOffset(off)
					qsp := linear.NewQSeq("x", []alphabet.QLetter{{L: 'a', Q: 7}, {L: 'c', Q: alphabet.Qphred(q)}, {L: 'g', Q: 9}}, alphabet.DNA, e)
					qsp.SetOffset(off)
					if g1, g2 := php.QDecode(php.QEncode(off+1)), qsp.Encoding().DecodeToQphred(qsp.QEncode(off+1)); int(g1) != q || int(g2) != q || int(php.At(off+1)) != q || int(qsp.At(off+1).Q) != q || !relClose(php.EAt(off+1), alphabet.Qphred(q).ProbE()) || !relClose(qsp.EAt(off+1), alphabet.Qphred(q).ProbE()) {
						r.Violate("phred-roundtrip", fmt.Sprintf("containers starting at %d, middle position holding %d under %s: quality.Phred decode(QEncode)=%d At=%d EAt=%g, linear.QSeq decode(QEncode)=%d At=%d EAt=%g", off, q, encNames[e], g1, php.At(off+1), php.EAt(off+1), g2, qsp.At(off+1).Q, qsp.EAt(off+1)),
							c18w{"placed-container-roundtrip", q, encNames[e], []int{int(g1), int(g2)}, q})
					}
					// ... and its FASTQ rendering, whole and cut short by a precision
					want3 := string([]byte{byte(7 + phredOffset(e)), byte(q + phredOffset(e)), byte(9 + phredOffset(e))})
					if lines := strings.Split(fmt.Sprintf("%q", qsp), "\n"); len(lines) < 4 || lines[3] != want3 {
						r.Violate("phred-encode-byte", fmt.Sprintf("linear.QSeq starting at %d: %%q rendering of the scores 7,%d,9 under %s is %q, want the quality line %q", off, q, encNames[e], lines, want3),
							c18w{"linear.QSeq-%q-placed", q, encNames[e], lines, want3})
					}
					if lines := strings.Split(fmt.Sprintf("%.2q", qsp), "\n"); len(lines) < 4 || !strings.HasPrefix(lines[3], want3[:2]) {
						r.Violate("phred-encode-byte", fmt.Sprintf("linear.QSeq starting at %d: %%.2q rendering of the scores 7,%d,9 under %s is %q, want a quality line starting %q", off, q, encNames[e], lines, want3[:2]),
							c18w{"linear.QSeq-%.2q-placed", q, encNames[e], lines, want3[:2]})
					}
					r.Count("placed_container_checks", 1)
				}
				// the string rendering of the score container carries the same byte, also when the encoding was set afterwards
				ph2 := quality.NewPhred("x", []alphabet.Qphred{alphabet.Qphred(q), alphabet.Qphred(q)}, alphabet.None)
				ph2.SetEncoding(e)
				if str := ph2.String(); len(str) != 2 || int(str[0]) != q+phredOffset(e) || str[1] != str[0] || ph2.Encoding() != e {
					r.Violate("phred-encode-byte", fmt.Sprintf("quality.Phred String() of two scores %d under %s (set with SetEncoding) is %q", q, encNames[e], str),
						c18w{"quality.Phred-String", q, encNames[e], str, q + phredOffset(e)})
				}
				// the error probability read through the containers is the score's, whatever the encoding
				if !relClose(ph.EAt(0), alphabet.Qphred(q).ProbE()) || !relClose(qs.EAt(0), alphabet.Qphred(q).ProbE()) {
					r.Violate("phred-prob", fmt.Sprintf("EAt of Qphred(%d) under %s: quality.Phred %g, linear.QSeq %g, ProbE %g", q, encNames[e], ph.EAt(0), qs.EAt(0), alphabet.Qphred(q).ProbE()),
						c18w{"EAt", q, encNames[e], []float64{ph.EAt(0), qs.EAt(0)}, alphabet.Qphred(q).ProbE()})
				}
				// the FASTQ rendering (%q verb) carries the same byte
				if lines := strings.Split(fmt.Sprintf("%q", qs), "\n"); len(lines) < 4 || len(lines[3]) != 1 || int(lines[3][0]) != q+phredOffset(e) {
					r.Violate("phred-encode-byte", fmt.Sprintf("linear.QSeq %%q rendering of Qphred(%d) under %s is %q, want quality byte %d", q, encNames[e], lines, q+phredOffset(e)),
						c18w{"linear.QSeq-%q", q, encNames[e], lines, q + phredOffset(e)})
				}
			}
		}
		// every byte under every encoding, through both decoders: neither panics, and the decoder of the other score type
		// is the own-type decoder followed by the conversion
		for _, e := range c18AllEncs {
			for b := 0; b < 256; b++ {
				func() {
					defer func() {
						if p := recover(); p != nil {
							r.Violate("decode-panic", fmt.Sprintf("decoding byte %d under %s panicked: %v", b, encNames[e], p), c18w{"decode", b, encNames[e], fmt.Sprint(p), nil})
						}
					}()
					qp, qs := e.DecodeToQphred(byte(b)), e.DecodeToQsolexa(byte(b))
					switch e {
					case alphabet.None:
					case alphabet.Solexa:
						if qp != qs.Qphred() {
							r.Violate("decode-cross-type", fmt.Sprintf("Solexa.DecodeToQphred(%d)=%d, DecodeToQsolexa then Qphred gives %d", b, qp, qs.Qphred()), c18w{"decode", b, encNames[e], int(qp), int(qs.Qphred())})
						}
					default:
						if qs != qp.Qsolexa() {
							r.Violate("decode-cross-type", fmt.Sprintf("%s.DecodeToQsolexa(%d)=%d, DecodeToQphred then Qsolexa gives %d", encNames[e], b, qs, qp.Qsolexa()), c18w{"decode", b, encNames[e], int(qs), int(qp.Qsolexa())})
						}
					}
				}()
				r.Count("bytes_decoded_both_ways", 1)
			}
		}
	case 1: // Solexa under Solexa encoding
		for s := -128; s < 128; s++ {
			in := s >= -5 && s <= 62
			r.Note(fmt.Sprint("rtS/", s), in)
			if !in {
				continue
			}
			r.Count("roundtrip_pairs_judged", 1)
			b := alphabet.Qsolexa(s).Encode(alphabet.Solexa)
			if int(b) != s+64 {
				r.Violate("solexa-encode-byte", fmt.Sprintf("Qsolexa(%d).Encode(Solexa)=%d want %d", s, b, s+64),
					c18w{"solexa-encode", s, "Solexa", b, s + 64})
			}
			if got := alphabet.Solexa.DecodeToQsolexa(b); int(got) != s {
				r.Violate("solexa-roundtrip", fmt.Sprintf("decode(encode(Qsolexa %d))=%d", s, got),
					c18w{"solexa-roundtrip", s, "Solexa", got, s})
			}
			so2 := quality.NewSolexa("x", []alphabet.Qsolexa{alphabet.Qsolexa(s), alphabet.Qsolexa(s)}, alphabet.None)
			so2.SetEncoding(alphabet.Solexa)
			if str := so2.String(); len(str) != 2 || int(str[0]) != s+64 || str[1] != str[0] || !relClose(so2.EAt(1), alphabet.Qsolexa(s).ProbE()) {
				r.Violate("solexa-encode-byte", fmt.Sprintf("quality.Solexa String()/EAt of two scores %d (encoding set with SetEncoding): %q, %g", s, str, so2.EAt(1)),
					c18w{"quality.Solexa-String", s, "Solexa", str, s + 64})
			}
			for _, off := range []int{-3, 1, 40} {
				sop := quality.NewSolexa("x", []alphabet.Qsolexa{7, alphabet.Qsolexa(s), 9}, alphabet.Solexa)
				sop.SetOffset(off)
				if g := sop.QDecode(sop.QEncode(off + 1)); int(g) != s || int(sop.At(off+1)) != s || !relClose(sop.EAt(off+1), alphabet.Qsolexa(s).ProbE()) {
					r.Violate("solexa-roundtrip", fmt.Sprintf("quality.Solexa starting at %d, middle position holding %d: decode(QEncode)=%d At=%d EAt=%g", off, s, g, sop.At(off+1), sop.EAt(off+1)),
						c18w{"placed-container-roundtrip", s, "Solexa", int(g), s})
				}
				r.Count("placed_container_checks", 1)
			}
			so := quality.NewSolexa("x", []alphabet.Qsolexa{alphabet.Qsolexa(s)}, alphabet.Solexa)
			if got := so.QDecode(so.QEncode(0)); int(got) != s {
				r.Violate("solexa-roundtrip", fmt.Sprintf("quality.Solexa QDecode(QEncode) %d = %d", s, got),
					c18w{"quality.Solexa-roundtrip", s, "Solexa", got, s})
			}
		}
	case 2: // decoding every byte: Phred-offset decoders are byte - offset on the printable range
		for _, e := range []alphabet.Encoding{alphabet.Sanger, alphabet.Illumina1_3, alphabet.Illumina1_5, alphabet.Illumina1_8, alphabet.Illumina1_9} {
			lo, hi := phredRange(e)
			for b := 0; b < 256; b++ {
				q := b - phredOffset(e)
				in := q >= lo && q <= hi
				r.Note(fmt.Sprint("dec/", encNames[e], "/", b), in)
				if !in {
					continue
				}
				if got := e.DecodeToQphred(byte(b)); int(got) != q {
					r.Violate("phred-decode", fmt.Sprintf("%s.DecodeToQphred(%d)=%d want %d", encNames[e], b, got, q), c18w{"phred-decode", b, encNames[e], got, q})
				}
				if got := alphabet.Qphred(q).Encode(e); int(got) != b {
					r.Violate("phred-encode-byte", fmt.Sprintf("Qphred(%d).Encode(%s)=%d want %d", q, encNames[e], got, b), c18w{"phred-encode", q, encNames[e], got, b})
				}
			}
		}
		for b := 59; b <= 126; b++ {
			r.Note(fmt.Sprint("decS/", b), true)
			if got := alphabet.Solexa.DecodeToQsolexa(byte(b)); int(got) != b-64 {
				r.Violate("solexa-decode", fmt.Sprintf("Solexa.DecodeToQsolexa(%d)=%d want %d", b, got, b-64), c18w{"solexa-decode", b, "Solexa", got, b - 64})
			}
		}
	case 3: // Phred ProbE, Ephred, monotone
		prev := math.Inf(1)
		for q := 0; q < 256; q++ {
			p := alphabet.Qphred(q).ProbE()
			r.Note(fmt.Sprint("probP/", q), true)
			switch {
			case q == 255:
				if !math.IsNaN(p) {
					r.Violate("phred-prob", "Qphred(255).ProbE not NaN", c18w{"phred-prob", q, "", p, "NaN"})
				}
				if got := alphabet.Ephred(math.NaN()); got != 255 {
					r.Violate("phred-prob", "Ephred(NaN) != 255", c18w{"ephred", "NaN", "", got, 255})
				}
				continue
			case q == 254:
				if p != 0 {
					r.Violate("phred-prob", "Qphred(254).ProbE not 0", c18w{"phred-prob", q, "", p, 0})
				}
				if got := alphabet.Ephred(0); got != 254 {
					r.Violate("phred-prob", "Ephred(0) != 254", c18w{"ephred", 0, "", got, 254})
				}
			default:
				want := math.Pow(10, -float64(q)/10)
				if !relClose(p, want) {
					r.Violate("phred-prob", fmt.Sprintf("Qphred(%d).ProbE=%g want %g", q, p, want), c18w{"phred-prob", q, "", p, want})
				}
				if got := alphabet.Ephred(p); int(got) != q {
					r.Violate("phred-prob-roundtrip", fmt.Sprintf("Ephred(ProbE(%d))=%d", q, got), c18w{"ephred-roundtrip", q, "", got, q})
				}
				// seq/quality SetE/EAt path
				ph := quality.NewPhred("x", []alphabet.Qphred{0}, alphabet.Sanger)
				ph.SetE(0, want)
				if int(ph.At(0)) != q || !relClose(ph.EAt(0), want) {
					r.Violate("phred-prob-roundtrip", fmt.Sprintf("quality.Phred SetE/At for q=%d gave %d", q, ph.At(0)), c18w{"quality.Phred-SetE", q, "", int(ph.At(0)), q})
				}
				// ... and linear.QSeq's, at a position other than 0 (q=0 is probability 1 exactly)
				qs := linear.NewQSeq("x", []alphabet.QLetter{{L: 'a', Q: 3}, {L: 'c', Q: 3}}, alphabet.DNA, alphabet.Sanger)
				qs.SetOffset(5)
				if err := qs.SetE(6, want); err != nil || int(qs.At(6).Q) != q || int(qs.At(5).Q) != 3 || !relClose(qs.EAt(6), want) {
					r.Violate("phred-prob-roundtrip", fmt.Sprintf("linear.QSeq SetE(%g) for q=%d returned %v and stored %d", want, q, err, qs.At(6).Q), c18w{"linear.QSeq-SetE", q, "", int(qs.At(6).Q), q})
				}
			}
			if !(p <= prev) {
				r.Violate("phred-monotone", fmt.Sprintf("ProbE(%d)=%g > ProbE(%d)=%g", q, p, q-1, prev), c18w{"phred-monotone", q, "", p, prev})
			}
			prev = p
		}
	case 4: // Solexa ProbE, Esolexa, monotone
		prev := math.Inf(1)
		for s := -128; s < 128; s++ {
			p := alphabet.Qsolexa(s).ProbE()
			r.Note(fmt.Sprint("probS/", s), true)
			switch {
			case s == -128:
				if !math.IsNaN(p) {
					r.Violate("solexa-prob", "Qsolexa(-128).ProbE not NaN", c18w{"solexa-prob", s, "", p, "NaN"})
				}
				if got := alphabet.Esolexa(math.NaN()); got != -128 {
					r.Violate("solexa-prob", "Esolexa(NaN) != -128", c18w{"esolexa", "NaN", "", got, -128})
				}
				continue
			case s == 127:
				if p != 0 {
					r.Violate("solexa-prob", "Qsolexa(127).ProbE not 0", c18w{"solexa-prob", s, "", p, 0})
				}
				if got := alphabet.Esolexa(0); got != 127 {
					r.Violate("solexa-prob", "Esolexa(0) != 127", c18w{"esolexa", 0, "", got, 127})
				}
			default:
				want := 1 / (1 + math.Pow(10, float64(s)/10))
				if !relClose(p, want) {
					r.Violate("solexa-prob", fmt.Sprintf("Qsolexa(%d).ProbE=%g want %g", s, p, want), c18w{"solexa-prob", s, "", p, want})
				}
				if got := alphabet.Esolexa(p); int(got) != s {
					r.Violate("solexa-prob-roundtrip", fmt.Sprintf("Esolexa(ProbE(%d))=%d", s, got), c18w{"esolexa-roundtrip", s, "", got, s})
				}
				so := quality.NewSolexa("x", []alphabet.Qsolexa{0}, alphabet.Solexa)
				sop := quality.NewSolexa("x", []alphabet.Qsolexa{3, 3}, alphabet.Solexa)
				sop.SetOffset(5)
				if err := sop.SetE(6, want); err != nil || int(sop.At(6)) != s || int(sop.At(5)) != 3 {
					r.Violate("solexa-prob-roundtrip", fmt.Sprintf("quality.Solexa starting at 5: SetE(6, %g) for s=%d returned %v and stored %d", want, s, err, sop.At(6)), c18w{"quality.Solexa-SetE", s, "", int(sop.At(6)), s})
				}
				so.SetE(0, want)
				if int(so.At(0)) != s {
					r.Violate("solexa-prob-roundtrip", fmt.Sprintf("quality.Solexa SetE/At for s=%d gave %d", s, so.At(0)), c18w{"quality.Solexa-SetE", s, "", int(so.At(0)), s})
				}
			}
			if !(p <= prev) {
				r.Violate("solexa-monotone", fmt.Sprintf("ProbE(%d)=%g > ProbE(%d)=%g", s, p, s-1, prev), c18w{"solexa-monotone", s, "", p, prev})
			}
			prev = p
		}
	case 5: // conversions
		for q := 0; q < 256; q++ {
			got := alphabet.Qphred(q).Qsolexa()
			switch {
			case q == 255:
				r.Note(fmt.Sprint("p2s/", q), true)
				if got != -128 {
					r.Violate("phred-to-solexa-sentinel", "Qphred(255).Qsolexa() != -128 (NaN<->NaN)", c18w{"p2s", q, "", got, -128})
				}
			case q == 254:
				r.Note(fmt.Sprint("p2s/", q), true)
				if pe := got.ProbE(); pe != 0 {
					r.Violate("phred-to-solexa-sentinel", fmt.Sprintf("Qphred(254).Qsolexa()=%d has ProbE %g, want 0", got, pe), c18w{"p2s", q, "", got, 127})
				}
			case q == 0:
				r.Note(fmt.Sprint("p2s/", q), false) // analytic value -inf: not judged
			default:
				a := 10 * math.Log10(math.Pow(10, float64(q)/10)-1)
				want := math.Floor(a + 0.5)
				judged := !nearTie(a) && want >= -127 && want <= 126
				r.Note(fmt.Sprint("p2s/", q), judged)
				if !judged {
					continue
				}
				r.Count("conversions_judged", 1)
				if float64(got) != want {
					r.Violate("phred-to-solexa", fmt.Sprintf("Qphred(%d).Qsolexa()=%d want round(%g)=%g", q, got, a, want), c18w{"p2s", q, "", got, want})
				}
			}
		}
		for s := -128; s < 128; s++ {
			got := alphabet.Qsolexa(s).Qphred()
			switch {
			case s == -128:
				r.Note(fmt.Sprint("s2p/", s), true)
				if got != 255 {
					r.Violate("solexa-to-phred-sentinel", "Qsolexa(-128).Qphred() != 255 (NaN<->NaN)", c18w{"s2p", s, "", got, 255})
				}
			case s == 127:
				r.Note(fmt.Sprint("s2p/", s), true)
				// the "certain" sentinel must stay certain (ProbE 0) or be read as the ordinary score 127
				if pe := got.ProbE(); pe != 0 && got != 127 {
					r.Violate("solexa-to-phred-sentinel", fmt.Sprintf("Qsolexa(127).Qphred()=%d has ProbE %g", got, pe), c18w{"s2p", s, "", got, "254 (or 127)"})
				}
			default:
				a := 10 * math.Log10(math.Pow(10, float64(s)/10)+1)
				want := math.Floor(a + 0.5)
				judged := !nearTie(a) && want >= 0 && want <= 253
				r.Note(fmt.Sprint("s2p/", s), judged)
				if !judged {
					continue
				}
				r.Count("conversions_judged", 1)
				if float64(got) != want {
					r.Violate("solexa-to-phred", fmt.Sprintf("Qsolexa(%d).Qphred()=%d want round(%g)=%g", s, got, a, want), c18w{"s2p", s, "", got, want})
				}
			}
		}
		for q := 10; q <= 126; q++ {
			r.Note(fmt.Sprint("inv/", q), true)
			if back := alphabet.Qphred(q).Qsolexa().Qphred(); int(back) != q {
				r.Violate("conversion-inverse", fmt.Sprintf("Qphred(%d)->Solexa->Phred=%d", q, back), c18w{"p2s2p", q, "", back, q})
			}
			if back := alphabet.Qsolexa(q).Qphred().Qsolexa(); int(back) != q {
				r.Violate("conversion-inverse", fmt.Sprintf("Qsolexa(%d)->Phred->Solexa=%d", q, back), c18w{"s2p2s", q, "", back, q})
			}
		}
		// agreement of error probabilities across the conversion, wherever both are ordinary scores
		for q := 1; q <= 126; q++ {
			s := alphabet.Qphred(q).Qsolexa()
			if s == 127 || s == -128 {
				continue
			}
			r.Note(fmt.Sprint("agreeP/", q), true)
			// exact analytic solexa value a; rounding moves it by at most 0.5 → probabilities agree within that band
			lo := 1 / (1 + math.Pow(10, (float64(s)+0.5+1e-9)/10))
			hi := 1 / (1 + math.Pow(10, (float64(s)-0.5-1e-9)/10))
			if p := alphabet.Qphred(q).ProbE(); p < lo || p > hi {
				r.Violate("conversion-prob-agreement", fmt.Sprintf("ProbE(Qphred %d)=%g outside the band [%g,%g] of its Solexa conversion %d", q, p, lo, hi, s), c18w{"agreeP", q, "", p, []float64{lo, hi}})
			}
		}
		for s := -127; s <= 126; s++ {
			q := alphabet.Qsolexa(s).Qphred()
			if q >= 254 {
				continue
			}
			r.Note(fmt.Sprint("agreeS/", s), true)
			lo := math.Pow(10, -(float64(q)+0.5+1e-9)/10)
			hi := math.Pow(10, -(float64(q)-0.5-1e-9)/10)
			if p := alphabet.Qsolexa(s).ProbE(); p < lo || p > hi {
				r.Violate("conversion-prob-agreement", fmt.Sprintf("ProbE(Qsolexa %d)=%g outside the band [%g,%g] of its Phred conversion %d", s, p, lo, hi, q), c18w{"agreeS", s, "", p, []float64{lo, hi}})
			}
		}
	case 6, 7: // sampled probabilities: nearest score
		n := r.Pick(50000, 5000000)
		for k := 0; k < n; k++ {
			var p float64
			switch k % 3 {
			case 0:
				p = r.Rng.Float64()
			case 1:
				p = math.Pow(10, -25*r.Rng.Float64())
				if k%12 == 1 { // far below the probability of the largest score: the nearest representable score is the largest one
					p = math.Pow(10, -25-300*r.Rng.Float64())
				}
			default:
				p = 1 - math.Pow(10, -12*r.Rng.Float64())
				if k%12 == 2 { // so close to 1 that the Solexa score lies below the smallest one
					p = 1 - math.Pow(10, -13.5-2.4*r.Rng.Float64())
				}
			}
			if p <= 0 || p >= 1 {
				continue
			}
			if i == 6 {
				a := -10 * math.Log10(p)
				want := math.Floor(a + 0.5)
				if want > 254 {
					want = 254 // saturates: 254 is the largest score (p = 0 sentinel included)
					r.Count("probabilities_below_the_largest_score", 1)
				}
				judged := !nearTie(a) && (want <= 253 || a > 255)
				r.Note(fmt.Sprintf("pe/%x", math.Float64bits(p)), judged)
				if !judged {
					continue
				}
				r.Count("probabilities_judged", 1)
				if got := alphabet.Ephred(p); float64(got) != want {
					r.Violate("ephred-nearest", fmt.Sprintf("Ephred(%g)=%d want %g", p, got, want), c18w{"ephred", p, "", got, want})
				}
				if k%8 == 0 { // the containers' SetE, whatever their encoding, store the same nearest score
					for _, e := range c18AllEncs {
						ph := quality.NewPhred("x", []alphabet.Qphred{0}, e)
						ph.SetE(0, p)
						if float64(ph.At(0)) != want {
							r.Violate("ephred-nearest", fmt.Sprintf("quality.Phred (encoding %s) SetE(%g) stored %d want %g", encNames[e], p, ph.At(0), want), c18w{"quality.Phred-SetE", p, encNames[e], int(ph.At(0)), want})
						}
						qs := linear.NewQSeq("x", []alphabet.QLetter{{L: 'a'}}, alphabet.DNA, e)
						qs.SetE(0, p)
						if float64(qs.At(0).Q) != want {
							r.Violate("ephred-nearest", fmt.Sprintf("linear.QSeq (encoding %s) SetE(%g) stored %d want %g", encNames[e], p, qs.At(0).Q, want), c18w{"linear.QSeq-SetE", p, encNames[e], int(qs.At(0).Q), want})
						}
					}
					r.Count("container_sete_checked", 1)
				}
			} else {
				a := -10 * math.Log10(p/(1-p))
				want := math.Floor(a + 0.5)
				// outside the score range the nearest representable score is the last ordinary one at that end: 127 (which
				// doubles as the p = 0 sentinel, as 254 does for Phred) and -127 (-128 stands for NaN)
				saturated := false
				if a > 128 {
					want, saturated = 127, true
				} else if a < -128 {
					want, saturated = -127, true
				}
				if saturated {
					r.Count("solexa_probabilities_outside_the_score_range", 1)
				}
				judged := saturated || (!nearTie(a) && want >= -127 && want <= 126 && math.Abs(a-math.Round(a)) < 0.49)
				r.Note(fmt.Sprintf("se/%x", math.Float64bits(p)), judged)
				if !judged {
					continue
				}
				r.Count("probabilities_judged", 1)
				if got := alphabet.Esolexa(p); float64(got) != want {
					r.Violate("esolexa-nearest", fmt.Sprintf("Esolexa(%g)=%d want %g", p, got, want), c18w{"esolexa", p, "", got, want})
				}
				if k%8 == 0 {
					for _, e := range c18AllEncs {
						so := quality.NewSolexa("x", []alphabet.Qsolexa{0}, e)
						so.SetE(0, p)
						if float64(so.At(0)) != want {
							r.Violate("esolexa-nearest", fmt.Sprintf("quality.Solexa (encoding %s) SetE(%g) stored %d want %g", encNames[e], p, so.At(0), want), c18w{"quality.Solexa-SetE", p, encNames[e], int(so.At(0)), want})
						}
					}
					r.Count("container_sete_checked", 1)
				}
			}
			if k < 2 && r.WantSample() {
				r.Sample(map[string]interface{}{"section": "probability->score", "p": p, "ephred": alphabet.Ephred(p), "esolexa": alphabet.Esolexa(p)})
			}
		}
	}
	if i < 6 && r.WantSample() && i%2 == 0 {
		r.Sample(map[string]interface{}{"section": i, "example": fmt.Sprintf("Qphred(40): Sanger byte %d, ProbE %g, Solexa %d; Qsolexa(-5): byte %d, ProbE %g, Phred %d",
			alphabet.Qphred(40).Encode(alphabet.Sanger), alphabet.Qphred(40).ProbE(), alphabet.Qphred(40).Qsolexa(),
			alphabet.Qsolexa(-5).Encode(alphabet.Solexa), alphabet.Qsolexa(-5).ProbE(), alphabet.Qsolexa(-5).Qphred())})
	}
}
