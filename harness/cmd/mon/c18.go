package main

import (
	"fmt"
	"math"
	"strings"

	"github.com/biogo/biogo/alphabet"
	"github.com/biogo/biogo/seq/linear"
	"github.com/biogo/biogo/seq/quality"

	"verif/harness/internal/obs"
)

// C18 — quality scores encode, decode and convert consistently.
//
// Exhaustive over the 8-bit domains, oracle = independent math formulas.

var c18AllEncs = []alphabet.Encoding{alphabet.Sanger, alphabet.Solexa, alphabet.Illumina1_3, alphabet.Illumina1_5, alphabet.Illumina1_8, alphabet.Illumina1_9, alphabet.None}

func init() {
	register(&obs.Monitor{
		ID:    "C18",
		Level: "exploration",
		Rule: "exhaustive over 256 Phred x 5 Phred-offset encodings, 256 Solexa x Solexa encoding (alphabet, seq/quality and linear.QSeq entry points), " +
			"all score values for ProbE/E*/conversions, plus seeded probabilities in (0,1); a case is non-trivial when the value lies in the range the statement judges " +
			"(printable range, finite and representable conversion, non-tie probability); distinct = (section,value[,encoding])",
		Batches:     func(string) int { return 1 },
		Cases:       func(r *obs.Run) int { return 9 },
		Case:        c18Case,
		MinDistinct: func(string) int { return 2000 },
		Floors: func(string) map[string]int64 {
			return map[string]int64{"roundtrip_pairs_judged": 400, "conversions_judged": 300, "probabilities_judged": 10000}
		},
		Assumptions: []string{
			"reference formulas use float64 math.Pow/Log10; ties closer than 1e-9 to a rounding boundary are not judged",
			"Solexa printable range taken as -5..62 (the documented Q-range mapped to bytes 59..126); Phred ranges 0..93 (+33), 0..62 (+64), 2..62 (Illumina 1.5)",
			"sentinels (Phred 254/255, Solexa 127/-128) judged only for mutual agreement of error probabilities",
			"under None the two decoders only have to agree with each other (one result is the conversion of the other); derived containers (Copy, Clone) are judged on what they report themselves, not on independence from the original",
		},
	})
}

type c18w struct {
	Section string      `json:"section"`
	Value   interface{} `json:"value"`
	Enc     string      `json:"encoding,omitempty"`
	Got     interface{} `json:"got"`
	Want    interface{} `json:"want"`
}

var encNames = map[alphabet.Encoding]string{
	alphabet.Sanger: "Sanger", alphabet.Solexa: "Solexa", alphabet.Illumina1_3: "Illumina1_3",
	alphabet.Illumina1_5: "Illumina1_5", alphabet.Illumina1_8: "Illumina1_8", alphabet.Illumina1_9: "Illumina1_9", alphabet.None: "None",
}

func phredRange(e alphabet.Encoding) (lo, hi int) {
	switch e {
	case alphabet.Sanger, alphabet.Illumina1_8, alphabet.Illumina1_9:
		return 0, 93
	case alphabet.Illumina1_3:
		return 0, 62
	case alphabet.Illumina1_5:
		return 2, 62
	}
	return 0, -1
}

func phredOffset(e alphabet.Encoding) int {
	switch e {
	case alphabet.Sanger, alphabet.Illumina1_8, alphabet.Illumina1_9:
		return 33
	}
	return 64
}

func nearTie(x float64) bool {
	f := x - math.Floor(x)
	return math.Abs(f-0.5) < 1e-9
}

func relClose(a, b float64) bool {
	if a == b {
		return true
	}
	return math.Abs(a-b) <= 1e-12*math.Max(math.Abs(a), math.Abs(b))
}

func c18Case(r *obs.Run, i int) {
	switch i {
	case 0: // encode/decode round trip, Phred under Phred-offset encodings
		for _, e := range []alphabet.Encoding{alphabet.Sanger, alphabet.Illumina1_3, alphabet.Illumina1_5, alphabet.Illumina1_8, alphabet.Illumina1_9} {
			lo, hi := phredRange(e)
			for q := 0; q < 256; q++ {
				in := q >= lo && q <= hi
				r.Note(fmt.Sprint("rtP/", encNames[e], "/", q), in)
				if !in {
					continue
				}
				r.Count("roundtrip_pairs_judged", 1)
				b := alphabet.Qphred(q).Encode(e)
				if int(b) != q+phredOffset(e) {
					r.Violate("phred-encode-byte", fmt.Sprintf("Qphred(%d).Encode(%s)=%d want %d", q, encNames[e], b, q+phredOffset(e)),
						c18w{"phred-encode", q, encNames[e], b, q + phredOffset(e)})
				}
				if got := e.DecodeToQphred(b); int(got) != q {
					r.Violate("phred-roundtrip", fmt.Sprintf("decode(encode(Qphred %d, %s))=%d", q, encNames[e], got),
						c18w{"phred-roundtrip", q, encNames[e], got, q})
				}
				// seq/quality and linear.QSeq entry points
				ph := quality.NewPhred("x", []alphabet.Qphred{alphabet.Qphred(q)}, e)
				if got := ph.QDecode(ph.QEncode(0)); int(got) != q {
					r.Violate("phred-roundtrip", fmt.Sprintf("quality.Phred QDecode(QEncode) %d under %s = %d", q, encNames[e], got),
						c18w{"quality.Phred-roundtrip", q, encNames[e], got, q})
				}
				qs := linear.NewQSeq("x", []alphabet.QLetter{{L: 'a', Q: alphabet.Qphred(q)}}, alphabet.DNA, e)
				if got := qs.Encoding().DecodeToQphred(qs.QEncode(0)); int(got) != q {
					r.Violate("phred-roundtrip", fmt.Sprintf("linear.QSeq QDecode(QEncode) %d under %s = %d", q, encNames[e], got),
						c18w{"linear.QSeq-roundtrip", q, encNames[e], got, q})
				}
				// the containers were asked for encoding e: they report it, their byte is the byte of e (not merely one that
				// their own decoder undoes), and their decoder reads the byte of e
				if ph.Encoding() != e || qs.Encoding() != e {
					r.Violate("phred-encode-byte", fmt.Sprintf("containers built with encoding %s report %s (quality.Phred) and %s (linear.QSeq)", encNames[e], encNames[ph.Encoding()], encNames[qs.Encoding()]),
						c18w{"container-encoding", q, encNames[e], []int{int(ph.Encoding()), int(qs.Encoding())}, int(e)})
				}
				if b1, b2 := ph.QEncode(0), qs.QEncode(0); int(b1) != q+phredOffset(e) || int(b2) != q+phredOffset(e) {
					r.Violate("phred-encode-byte", fmt.Sprintf("containers built with encoding %s holding %d: QEncode gives %d (quality.Phred) and %d (linear.QSeq), want %d", encNames[e], q, b1, b2, q+phredOffset(e)),
						c18w{"container-QEncode", q, encNames[e], []int{int(b1), int(b2)}, q + phredOffset(e)})
				}
				if got := ph.QDecode(byte(q + phredOffset(e))); int(got) != q {
					r.Violate("phred-decode", fmt.Sprintf("quality.Phred built with encoding %s: QDecode(%d)=%d want %d", encNames[e], q+phredOffset(e), got, q),
						c18w{"quality.Phred-QDecode", q + phredOffset(e), encNames[e], int(got), q})
				}
				r.Count("container_bytes_compared", 2)
				// the same through containers that do not start at position 0
				for _, off := range []int{-3, 1, 40} {
					php := quality.NewPhred("x", []alphabet.Qphred{7, alphabet.Qphred(q), 9}, e)
					php.SetOffset(off)
					qsp := linear.NewQSeq("x", []alphabet.QLetter{{L: 'a', Q: 7}, {L: 'c', Q: alphabet.Qphred(q)}, {L: 'g', Q: 9}}, alphabet.DNA, e)
					qsp.SetOffset(off)
					if g1, g2 := php.QDecode(php.QEncode(off+1)), qsp.Encoding().DecodeToQphred(qsp.QEncode(off+1)); int(g1) != q || int(g2) != q || int(php.At(off+1)) != q || int(qsp.At(off+1).Q) != q || !relClose(php.EAt(off+1), alphabet.Qphred(q).ProbE()) || !relClose(qsp.EAt(off+1), alphabet.Qphred(q).ProbE()) {
						r.Violate("phred-roundtrip", fmt.Sprintf("containers starting at %d, middle position holding %d under %s: quality.Phred decode(QEncode)=%d At=%d EAt=%g, linear.QSeq decode(QEncode)=%d At=%d EAt=%g", off, q, encNames[e], g1, php.At(off+1), php.EAt(off+1), g2, qsp.At(off+1).Q, qsp.EAt(off+1)),
							c18w{"placed-container-roundtrip", q, encNames[e], []int{int(g1), int(g2)}, q})
					}
					if b1, b2 := php.QEncode(off+1), qsp.QEncode(off+1); int(b1) != q+phredOffset(e) || int(b2) != q+phredOffset(e) {
						r.Violate("phred-encode-byte", fmt.Sprintf("containers starting at %d, middle position holding %d under %s: QEncode gives %d (quality.Phred) and %d (linear.QSeq), want %d", off, q, encNames[e], b1, b2, q+phredOffset(e)),
							c18w{"placed-container-QEncode", q, encNames[e], []int{int(b1), int(b2)}, q + phredOffset(e)})
					}
					r.Count("container_bytes_compared", 2)
					// objects derived from these (Copy, Clone) hold the same scores under the same encoding at the same positions
					c18PhredCopies(r, php, qsp, off, q, e)
					// ... and its FASTQ rendering, whole and cut short by a precision
					want3 := string([]byte{byte(7 + phredOffset(e)), byte(q + phredOffset(e)), byte(9 + phredOffset(e))})
					if lines := strings.Split(fmt.Sprintf("%q", qsp), "\n"); len(lines) < 4 || lines[3] != want3 {
						r.Violate("phred-encode-byte", fmt.Sprintf("linear.QSeq starting at %d: %%q rendering of the scores 7,%d,9 under %s is %q, want the quality line %q", off, q, encNames[e], lines, want3),
							c18w{"linear.QSeq-%q-placed", q, encNames[e], lines, want3})
					}
					if lines := strings.Split(fmt.Sprintf("%.2q", qsp), "\n"); len(lines) < 4 || !strings.HasPrefix(lines[3], want3[:2]) {
						r.Violate("phred-encode-byte", fmt.Sprintf("linear.QSeq starting at %d: %%.2q rendering of the scores 7,%d,9 under %s is %q, want a quality line starting %q", off, q, encNames[e], lines, want3[:2]),
							c18w{"linear.QSeq-%.2q-placed", q, encNames[e], lines, want3[:2]})
					}
					r.Count("placed_container_checks", 1)
				}
				// the string rendering of the score container carries the same byte, also when the encoding was set afterwards
				ph2 := quality.NewPhred("x", []alphabet.Qphred{alphabet.Qphred(q), alphabet.Qphred(q)}, alphabet.None)
				ph2.SetEncoding(e)
				if str := ph2.String(); len(str) != 2 || int(str[0]) != q+phredOffset(e) || str[1] != str[0] || ph2.Encoding() != e {
					r.Violate("phred-encode-byte", fmt.Sprintf("quality.Phred String() of two scores %d under %s (set with SetEncoding) is %q", q, encNames[e], str),
						c18w{"quality.Phred-String", q, encNames[e], str, q + phredOffset(e)})
				}
				// the error probability read through the containers is the score's, whatever the encoding
				if !relClose(ph.EAt(0), alphabet.Qphred(q).ProbE()) || !relClose(qs.EAt(0), alphabet.Qphred(q).ProbE()) {
					r.Violate("phred-prob", fmt.Sprintf("EAt of Qphred(%d) under %s: quality.Phred %g, linear.QSeq %g, ProbE %g", q, encNames[e], ph.EAt(0), qs.EAt(0), alphabet.Qphred(q).ProbE()),
						c18w{"EAt", q, encNames[e], []float64{ph.EAt(0), qs.EAt(0)}, alphabet.Qphred(q).ProbE()})
				}
				// the FASTQ rendering (%q verb) carries the same byte
				if lines := strings.Split(fmt.Sprintf("%q", qs), "\n"); len(lines) < 4 || len(lines[3]) != 1 || int(lines[3][0]) != q+phredOffset(e) {
					r.Violate("phred-encode-byte", fmt.Sprintf("linear.QSeq %%q rendering of Qphred(%d) under %s is %q, want quality byte %d", q, encNames[e], lines, q+phredOffset(e)),
						c18w{"linear.QSeq-%q", q, encNames[e], lines, q + phredOffset(e)})
				}
			}
		}
		// every byte under every encoding, through both decoders: neither panics, and the decoder of the other score type
		// is the own-type decoder followed by the conversion
		for _, e := range c18AllEncs {
			for b := 0; b < 256; b++ {
				func() {
					defer func() {
						if p := recover(); p != nil {
							r.Violate("decode-panic", fmt.Sprintf("decoding byte %d under %s panicked: %v", b, encNames[e], p), c18w{"decode", b, encNames[e], fmt.Sprint(p), nil})
						}
					}()
					qp, qs := e.DecodeToQphred(byte(b)), e.DecodeToQsolexa(byte(b))
					switch e {
					case alphabet.None:
						// no score type is None's own: the two decoders must give the same answer in one of the two
						// senses used below (what that answer is, is left to the library)
						if qp != qs.Qphred() && qs != qp.Qsolexa() {
							r.Violate("decode-cross-type", fmt.Sprintf("None.DecodeToQphred(%d)=%d and None.DecodeToQsolexa(%d)=%d are not conversions of one another (%d -> Solexa %d, %d -> Phred %d)", b, qp, b, qs, qp, qp.Qsolexa(), qs, qs.Qphred()), c18w{"decode", b, encNames[e], []int{int(qp), int(qs)}, nil})
						}
						r.Count("none_bytes_cross_checked", 1)
					case alphabet.Solexa:
						if qp != qs.Qphred() {
							r.Violate("decode-cross-type", fmt.Sprintf("Solexa.DecodeToQphred(%d)=%d, DecodeToQsolexa then Qphred gives %d", b, qp, qs.Qphred()), c18w{"decode", b, encNames[e], int(qp), int(qs.Qphred())})
						}
					default:
						if qs != qp.Qsolexa() {
							r.Violate("decode-cross-type", fmt.Sprintf("%s.DecodeToQsolexa(%d)=%d, DecodeToQphred then Qsolexa gives %d", encNames[e], b, qs, qp.Qsolexa()), c18w{"decode", b, encNames[e], int(qs), int(qp.Qsolexa())})
						}
					}
				}()
				r.Count("bytes_decoded_both_ways", 1)
			}
		}
	case 1: // Solexa under Solexa encoding
		for s := -128; s < 128; s++ {
			in := s >= -5 && s <= 62
			r.Note(fmt.Sprint("rtS/", s), in)
			if !in {
				continue
			}
			r.Count("roundtrip_pairs_judged", 1)
			b := alphabet.Qsolexa(s).Encode(alphabet.Solexa)
			if int(b) != s+64 {
				r.Violate("solexa-encode-byte", fmt.Sprintf("Qsolexa(%d).Encode(Solexa)=%d want %d", s, b, s+64),
					c18w{"solexa-encode", s, "Solexa", b, s + 64})
			}
			if got := alphabet.Solexa.DecodeToQsolexa(b); int(got) != s {
				r.Violate("solexa-roundtrip", fmt.Sprintf("decode(encode(Qsolexa %d))=%d", s, got),
					c18w{"solexa-roundtrip", s, "Solexa", got, s})
			}
			so2 := quality.NewSolexa("x", []alphabet.Qsolexa{alphabet.Qsolexa(s), alphabet.Qsolexa(s)}, alphabet.None)
			so2.SetEncoding(alphabet.Solexa)
			if str := so2.String(); len(str) != 2 || int(str[0]) != s+64 || str[1] != str[0] || !relClose(so2.EAt(1), alphabet.Qsolexa(s).ProbE()) {
				r.Violate("solexa-encode-byte", fmt.Sprintf("quality.Solexa String()/EAt of two scores %d (encoding set with SetEncoding): %q, %g", s, str, so2.EAt(1)),
					c18w{"quality.Solexa-String", s, "Solexa", str, s + 64})
			}
			for _, off := range []int{-3, 1, 40} {
				sop := quality.NewSolexa("x", []alphabet.Qsolexa{7, alphabet.Qsolexa(s), 9}, alphabet.Solexa)
				sop.SetOffset(off)
				if g := sop.QDecode(sop.QEncode(off + 1)); int(g) != s || int(sop.At(off+1)) != s || !relClose(sop.EAt(off+1), alphabet.Qsolexa(s).ProbE()) {
					r.Violate("solexa-roundtrip", fmt.Sprintf("quality.Solexa starting at %d, middle position holding %d: decode(QEncode)=%d At=%d EAt=%g", off, s, g, sop.At(off+1), sop.EAt(off+1)),
						c18w{"placed-container-roundtrip", s, "Solexa", int(g), s})
				}
				if b := sop.QEncode(off + 1); int(b) != s+64 {
					r.Violate("solexa-encode-byte", fmt.Sprintf("quality.Solexa starting at %d, middle position holding %d: QEncode gives %d want %d", off, s, b, s+64),
						c18w{"placed-container-QEncode", s, "Solexa", int(b), s + 64})
				}
				r.Count("container_bytes_compared", 1)
				// an object derived from it (Copy) holds the same score under the same encoding at the same position
				if c := sop.Copy(); c.Encoding() != alphabet.Solexa || int(c.QEncode(off+1)) != s+64 || int(c.Encoding().DecodeToQsolexa(c.QEncode(off+1))) != s || !relClose(c.EAt(off+1), alphabet.Qsolexa(s).ProbE()) {
					r.Violate("solexa-roundtrip", fmt.Sprintf("Copy() of a quality.Solexa starting at %d holding 7,%d,9 under Solexa: encoding %s, QEncode(%d)=%d want %d, EAt=%g want %g", off, s, encNames[c.Encoding()], off+1, c.QEncode(off+1), s+64, c.EAt(off+1), alphabet.Qsolexa(s).ProbE()),
						c18w{"quality.Solexa-Copy", s, "Solexa", int(c.QEncode(off + 1)), s + 64})
				}
				r.Count("derived_containers_checked", 1)
				r.Count("placed_container_checks", 1)
			}
			so := quality.NewSolexa("x", []alphabet.Qsolexa{alphabet.Qsolexa(s)}, alphabet.Solexa)
			if got := so.QDecode(so.QEncode(0)); int(got) != s {
				r.Violate("solexa-roundtrip", fmt.Sprintf("quality.Solexa QDecode(QEncode) %d = %d", s, got),
					c18w{"quality.Solexa-roundtrip", s, "Solexa", got, s})
			}
			if b := so.QEncode(0); int(b) != s+64 || so.Encoding() != alphabet.Solexa {
				r.Violate("solexa-encode-byte", fmt.Sprintf("quality.Solexa built with encoding Solexa holding %d: QEncode gives %d want %d, Encoding() %s", s, b, s+64, encNames[so.Encoding()]),
					c18w{"container-QEncode", s, "Solexa", int(b), s + 64})
			}
			if got := so.QDecode(byte(s + 64)); int(got) != s {
				r.Violate("solexa-decode", fmt.Sprintf("quality.Solexa built with encoding Solexa: QDecode(%d)=%d want %d", s+64, got, s),
					c18w{"quality.Solexa-QDecode", s + 64, "Solexa", int(got), s})
			}
			r.Count("container_bytes_compared", 1)
		}
	case 2: // decoding every byte: Phred-offset decoders are byte - offset on the printable range
		for _, e := range []alphabet.Encoding{alphabet.Sanger, alphabet.Illumina1_3, alphabet.Illumina1_5, alphabet.Illumina1_8, alphabet.Illumina1_9} {
			lo, hi := phredRange(e)
			for b := 0; b < 256; b++ {
				q := b - phredOffset(e)
				in := q >= lo && q <= hi
				r.Note(fmt.Sprint("dec/", encNames[e], "/", b), in)
				if !in {
					continue
				}
				if got := e.DecodeToQphred(byte(b)); int(got) != q {
					r.Violate("phred-decode", fmt.Sprintf("%s.DecodeToQphred(%d)=%d want %d", encNames[e], b, got, q), c18w{"phred-decode", b, encNames[e], got, q})
				}
				if got := alphabet.Qphred(q).Encode(e); int(got) != b {
					r.Violate("phred-encode-byte", fmt.Sprintf("Qphred(%d).Encode(%s)=%d want %d", q, encNames[e], got, b), c18w{"phred-encode", q, encNames[e], got, b})
				}
			}
		}
		for b := 59; b <= 126; b++ {
			r.Note(fmt.Sprint("decS/", b), true)
			if got := alphabet.Solexa.DecodeToQsolexa(byte(b)); int(got) != b-64 {
				r.Violate("solexa-decode", fmt.Sprintf("Solexa.DecodeToQsolexa(%d)=%d want %d", b, got, b-64), c18w{"solexa-decode", b, "Solexa", got, b - 64})
			}
		}
	case 3: // Phred ProbE, Ephred, monotone
		prev := math.Inf(1)
		for q := 0; q < 256; q++ {
			p := alphabet.Qphred(q).ProbE()
			r.Note(fmt.Sprint("probP/", q), true)
			switch {
			case q == 255:
				if !math.IsNaN(p) {
					r.Violate("phred-prob", "Qphred(255).ProbE not NaN", c18w{"phred-prob", q, "", p, "NaN"})
				}
				if got := alphabet.Ephred(math.NaN()); got != 255 {
					r.Violate("phred-prob", "Ephred(NaN) != 255", c18w{"ephred", "NaN", "", got, 255})
				}
				continue
			case q == 254:
				if p != 0 {
					r.Violate("phred-prob", "Qphred(254).ProbE not 0", c18w{"phred-prob", q, "", p, 0})
				}
				if got := alphabet.Ephred(0); got != 254 {
					r.Violate("phred-prob", "Ephred(0) != 254", c18w{"ephred", 0, "", got, 254})
				}
			default:
				want := math.Pow(10, -float64(q)/10)
				if !relClose(p, want) {
					r.Violate("phred-prob", fmt.Sprintf("Qphred(%d).ProbE=%g want %g", q, p, want), c18w{"phred-prob", q, "", p, want})
				}
				if got := alphabet.Ephred(p); int(got) != q {
					r.Violate("phred-prob-roundtrip", fmt.Sprintf("Ephred(ProbE(%d))=%d", q, got), c18w{"ephred-roundtrip", q, "", got, q})
				}
				// seq/quality SetE/EAt path
				ph := quality.NewPhred("x", []alphabet.Qphred{0}, alphabet.Sanger)
				ph.SetE(0, want)
				if int(ph.At(0)) != q || !relClose(ph.EAt(0), want) {
					r.Violate("phred-prob-roundtrip", fmt.Sprintf("quality.Phred SetE/At for q=%d gave %d", q, ph.At(0)), c18w{"quality.Phred-SetE", q, "", int(ph.At(0)), q})
				}
				// ... the same into a container placed at 5 whose initial content is never the expected answer, error looked at
				for _, e := range []alphabet.Encoding{alphabet.Sanger, alphabet.Solexa, alphabet.Illumina1_3, alphabet.None} {
					php := quality.NewPhred("x", []alphabet.Qphred{3, 3}, e)
					if q == 3 {
						php.Set(1, 40)
					}
					php.SetOffset(5)
					if err := php.SetE(6, want); err != nil || int(php.At(6)) != q || int(php.At(5)) != 3 || !relClose(php.EAt(6), want) {
						r.Violate("phred-prob-roundtrip", fmt.Sprintf("quality.Phred (encoding %s) starting at 5: SetE(6, %g) for q=%d returned %v and stored %d (position 5 holds %d)", encNames[e], want, q, err, php.At(6), php.At(5)), c18w{"quality.Phred-SetE-placed", q, encNames[e], int(php.At(6)), q})
					}
					r.Count("placed_sete_exact_probabilities", 1)
				}
				// ... and linear.QSeq's, at a position other than 0 (q=0 is probability 1 exactly)
				qs := linear.NewQSeq("x", []alphabet.QLetter{{L: 'a', Q: 3}, {L: 'c', Q: 3}}, alphabet.DNA, alphabet.Sanger)
				qs.SetOffset(5)
				if err := qs.SetE(6, want); err != nil || int(qs.At(6).Q) != q || int(qs.At(5).Q) != 3 || !relClose(qs.EAt(6), want) {
					r.Violate("phred-prob-roundtrip", fmt.Sprintf("linear.QSeq SetE(%g) for q=%d returned %v and stored %d", want, q, err, qs.At(6).Q), c18w{"linear.QSeq-SetE", q, "", int(qs.At(6).Q), q})
				}
			}
			if !(p <= prev) {
				r.Violate("phred-monotone", fmt.Sprintf("ProbE(%d)=%g > ProbE(%d)=%g", q, p, q-1, prev), c18w{"phred-monotone", q, "", p, prev})
			}
			prev = p
		}
		c18SwitchOverPoints(r, false)
	case 4: // Solexa ProbE, Esolexa, monotone
		prev := math.Inf(1)
		for s := -128; s < 128; s++ {
			p := alphabet.Qsolexa(s).ProbE()
			r.Note(fmt.Sprint("probS/", s), true)
			switch {
			case s == -128:
				if !math.IsNaN(p) {
					r.Violate("solexa-prob", "Qsolexa(-128).ProbE not NaN", c18w{"solexa-prob", s, "", p, "NaN"})
				}
				if got := alphabet.Esolexa(math.NaN()); got != -128 {
					r.Violate("solexa-prob", "Esolexa(NaN) != -128", c18w{"esolexa", "NaN", "", got, -128})
				}
				continue
			case s == 127:
				if p != 0 {
					r.Violate("solexa-prob", "Qsolexa(127).ProbE not 0", c18w{"solexa-prob", s, "", p, 0})
				}
				if got := alphabet.Esolexa(0); got != 127 {
					r.Violate("solexa-prob", "Esolexa(0) != 127", c18w{"esolexa", 0, "", got, 127})
				}
			default:
				want := 1 / (1 + math.Pow(10, float64(s)/10))
				if !relClose(p, want) {
					r.Violate("solexa-prob", fmt.Sprintf("Qsolexa(%d).ProbE=%g want %g", s, p, want), c18w{"solexa-prob", s, "", p, want})
				}
				if got := alphabet.Esolexa(p); int(got) != s {
					r.Violate("solexa-prob-roundtrip", fmt.Sprintf("Esolexa(ProbE(%d))=%d", s, got), c18w{"esolexa-roundtrip", s, "", got, s})
				}
				so := quality.NewSolexa("x", []alphabet.Qsolexa{0}, alphabet.Solexa)
				sop := quality.NewSolexa("x", []alphabet.Qsolexa{3, 3}, alphabet.Solexa)
				sop.SetOffset(5)
				if err := sop.SetE(6, want); err != nil || int(sop.At(6)) != s || int(sop.At(5)) != 3 {
					r.Violate("solexa-prob-roundtrip", fmt.Sprintf("quality.Solexa starting at 5: SetE(6, %g) for s=%d returned %v and stored %d", want, s, err, sop.At(6)), c18w{"quality.Solexa-SetE", s, "", int(sop.At(6)), s})
				}
				so.SetE(0, want)
				if int(so.At(0)) != s {
					r.Violate("solexa-prob-roundtrip", fmt.Sprintf("quality.Solexa SetE/At for s=%d gave %d", s, so.At(0)), c18w{"quality.Solexa-SetE", s, "", int(so.At(0)), s})
				}
			}
			if !(p <= prev) {
				r.Violate("solexa-monotone", fmt.Sprintf("ProbE(%d)=%g > ProbE(%d)=%g", s, p, s-1, prev), c18w{"solexa-monotone", s, "", p, prev})
			}
			prev = p
		}
		c18SwitchOverPoints(r, true)
	case 5: // conversions
		for q := 0; q < 256; q++ {
			got := alphabet.Qphred(q).Qsolexa()
			switch {
			case q == 255:
				r.Note(fmt.Sprint("p2s/", q), true)
				if got != -128 {
					r.Violate("phred-to-solexa-sentinel", "Qphred(255).Qsolexa() != -128 (NaN<->NaN)", c18w{"p2s", q, "", got, -128})
				}
			case q == 254:
				r.Note(fmt.Sprint("p2s/", q), true)
				if pe := got.ProbE(); pe != 0 {
					r.Violate("phred-to-solexa-sentinel", fmt.Sprintf("Qphred(254).Qsolexa()=%d has ProbE %g, want 0", got, pe), c18w{"p2s", q, "", got, 127})
				}
			case q == 0:
				r.Note(fmt.Sprint("p2s/", q), false) // analytic value -inf: not judged
			default:
				a := 10 * math.Log10(math.Pow(10, float64(q)/10)-1)
				want := math.Floor(a + 0.5)
				// 127 is the largest value a Solexa score can hold (Phred 127 converts to it exactly); beyond it the value is
				// not representable and only saturation is asked for: the answer must not fall below 127
				judged := !nearTie(a) && want >= -127 && want <= 127
				if want > 127 && got != 127 {
					r.Violate("phred-to-solexa", fmt.Sprintf("Qphred(%d).Qsolexa()=%d: the analytic value %g lies above the Solexa range, whose largest score is 127", q, got, a), c18w{"p2s", q, "", got, 127})
				}
				r.Note(fmt.Sprint("p2s/", q), judged)
				if !judged {
					continue
				}
				r.Count("conversions_judged", 1)
				if float64(got) != want {
					r.Violate("phred-to-solexa", fmt.Sprintf("Qphred(%d).Qsolexa()=%d want round(%g)=%g", q, got, a, want), c18w{"p2s", q, "", got, want})
				}
			}
		}
		for s := -128; s < 128; s++ {
			got := alphabet.Qsolexa(s).Qphred()
			switch {
			case s == -128:
				r.Note(fmt.Sprint("s2p/", s), true)
				if got != 255 {
					r.Violate("solexa-to-phred-sentinel", "Qsolexa(-128).Qphred() != 255 (NaN<->NaN)", c18w{"s2p", s, "", got, 255})
				}
			case s == 127:
				r.Note(fmt.Sprint("s2p/", s), true)
				// the two scores must stand for the same error probability: where Solexa 127 is the "certain" sentinel (ProbE 0,
				// as on the pinned tree) its Phred image must be certain too; a library that reads 127 as the ordinary top
				// score (ProbE 1/(1+10^12.7)) may answer with the ordinary Phred 127
				if pe, ps := got.ProbE(), alphabet.Qsolexa(127).ProbE(); (ps == 0 && pe != 0) || (ps != 0 && got != 127) {
					r.Violate("solexa-to-phred-sentinel", fmt.Sprintf("Qsolexa(127).Qphred()=%d has ProbE %g", got, pe), c18w{"s2p", s, "", got, "254 (or 127)"})
				}
			default:
				a := 10 * math.Log10(math.Pow(10, float64(s)/10)+1)
				want := math.Floor(a + 0.5)
				judged := !nearTie(a) && want >= 0 && want <= 253
				r.Note(fmt.Sprint("s2p/", s), judged)
				if !judged {
					continue
				}
				r.Count("conversions_judged", 1)
				if float64(got) != want {
					r.Violate("solexa-to-phred", fmt.Sprintf("Qsolexa(%d).Qphred()=%d want round(%g)=%g", s, got, a, want), c18w{"s2p", s, "", got, want})
				}
			}
		}
		for q := 10; q <= 126; q++ {
			r.Note(fmt.Sprint("inv/", q), true)
			if back := alphabet.Qphred(q).Qsolexa().Qphred(); int(back) != q {
				r.Violate("conversion-inverse", fmt.Sprintf("Qphred(%d)->Solexa->Phred=%d", q, back), c18w{"p2s2p", q, "", back, q})
			}
			if back := alphabet.Qsolexa(q).Qphred().Qsolexa(); int(back) != q {
				r.Violate("conversion-inverse", fmt.Sprintf("Qsolexa(%d)->Phred->Solexa=%d", q, back), c18w{"s2p2s", q, "", back, q})
			}
		}
		// agreement of error probabilities across the conversion, wherever both are ordinary scores
		for q := 1; q <= 126; q++ {
			s := alphabet.Qphred(q).Qsolexa()
			if s == 127 || s == -128 {
				continue
			}
			r.Note(fmt.Sprint("agreeP/", q), true)
			// exact analytic solexa value a; rounding moves it by at most 0.5 → probabilities agree within that band
			lo := 1 / (1 + math.Pow(10, (float64(s)+0.5+1e-9)/10))
			hi := 1 / (1 + math.Pow(10, (float64(s)-0.5-1e-9)/10))
			if p := alphabet.Qphred(q).ProbE(); p < lo || p > hi {
				r.Violate("conversion-prob-agreement", fmt.Sprintf("ProbE(Qphred %d)=%g outside the band [%g,%g] of its Solexa conversion %d", q, p, lo, hi, s), c18w{"agreeP", q, "", p, []float64{lo, hi}})
			}
		}
		for s := -127; s <= 126; s++ {
			q := alphabet.Qsolexa(s).Qphred()
			if q >= 254 {
				continue
			}
			r.Note(fmt.Sprint("agreeS/", s), true)
			lo := math.Pow(10, -(float64(q)+0.5+1e-9)/10)
			hi := math.Pow(10, -(float64(q)-0.5-1e-9)/10)
			if p := alphabet.Qsolexa(s).ProbE(); p < lo || p > hi {
				r.Violate("conversion-prob-agreement", fmt.Sprintf("ProbE(Qsolexa %d)=%g outside the band [%g,%g] of its Phred conversion %d", s, p, lo, hi, q), c18w{"agreeS", s, "", p, []float64{lo, hi}})
			}
		}
	case 8: // long-lived containers taken through the encodings again and again
		c18ReEncode(r)
	case 6, 7: // sampled probabilities: nearest score
		n := r.Pick(50000, 5000000)
		for k := 0; k < n; k++ {
			var p float64
			switch k % 3 {
			case 0:
				p = r.Rng.Float64()
			case 1:
				p = math.Pow(10, -25*r.Rng.Float64())
				if k%12 == 1 { // far below the probability of the largest score: the nearest representable score is the largest one
					p = math.Pow(10, -25-300*r.Rng.Float64())
				}
			default:
				p = 1 - math.Pow(10, -12*r.Rng.Float64())
				if k%12 == 2 { // so close to 1 that the Solexa score lies below the smallest one
					p = 1 - math.Pow(10, -13.5-2.4*r.Rng.Float64())
				}
			}
			if p <= 0 || p >= 1 {
				continue
			}
			if i == 6 {
				a := -10 * math.Log10(p)
				want := math.Floor(a + 0.5)
				if want > 254 {
					want = 254 // saturates: 254 is the largest score (p = 0 sentinel included)
					r.Count("probabilities_below_the_largest_score", 1)
				}
				judged := !nearTie(a) && (want <= 253 || a > 255)
				r.Note(fmt.Sprintf("pe/%x", math.Float64bits(p)), judged)
				if !judged {
					continue
				}
				r.Count("probabilities_judged", 1)
				if got := alphabet.Ephred(p); float64(got) != want {
					r.Violate("ephred-nearest", fmt.Sprintf("Ephred(%g)=%d want %g", p, got, want), c18w{"ephred", p, "", got, want})
				}
				if k%8 == 0 { // the containers' SetE, whatever their encoding, store the same nearest score
					for _, e := range c18AllEncs {
						ph := quality.NewPhred("x", []alphabet.Qphred{0}, e)
						ph.SetE(0, p)
						if float64(ph.At(0)) != want {
							r.Violate("ephred-nearest", fmt.Sprintf("quality.Phred (encoding %s) SetE(%g) stored %d want %g", encNames[e], p, ph.At(0), want), c18w{"quality.Phred-SetE", p, encNames[e], int(ph.At(0)), want})
						}
						qs := linear.NewQSeq("x", []alphabet.QLetter{{L: 'a'}}, alphabet.DNA, e)
						qs.SetE(0, p)
						if float64(qs.At(0).Q) != want {
							r.Violate("ephred-nearest", fmt.Sprintf("linear.QSeq (encoding %s) SetE(%g) stored %d want %g", encNames[e], p, qs.At(0).Q, want), c18w{"linear.QSeq-SetE", p, encNames[e], int(qs.At(0).Q), want})
						}
					}
					r.Count("container_sete_checked", 1)
				}
			} else {
				a := -10 * math.Log10(p/(1-p))
				want := math.Floor(a + 0.5)
				// outside the score range the nearest representable score is the last ordinary one at that end: 127 (which
				// doubles as the p = 0 sentinel, as 254 does for Phred) and -127 (-128 stands for NaN)
				saturated := false
				if a > 128 {
					want, saturated = 127, true
				} else if a < -128 {
					want, saturated = -127, true
				}
				if saturated {
					r.Count("solexa_probabilities_outside_the_score_range", 1)
				}
				judged := saturated || (!nearTie(a) && want >= -127 && want <= 126)
				r.Note(fmt.Sprintf("se/%x", math.Float64bits(p)), judged)
				if !judged {
					continue
				}
				r.Count("probabilities_judged", 1)
				if got := alphabet.Esolexa(p); float64(got) != want {
					r.Violate("esolexa-nearest", fmt.Sprintf("Esolexa(%g)=%d want %g", p, got, want), c18w{"esolexa", p, "", got, want})
				}
				if k%8 == 0 {
					for _, e := range c18AllEncs {
						so := quality.NewSolexa("x", []alphabet.Qsolexa{0}, e)
						so.SetE(0, p)
						if float64(so.At(0)) != want {
							r.Violate("esolexa-nearest", fmt.Sprintf("quality.Solexa (encoding %s) SetE(%g) stored %d want %g", encNames[e], p, so.At(0), want), c18w{"quality.Solexa-SetE", p, encNames[e], int(so.At(0)), want})
						}
					}
					r.Count("container_sete_checked", 1)
				}
			}
			if k < 2 && r.WantSample() {
				r.Sample(map[string]interface{}{"section": "probability->score", "p": p, "ephred": alphabet.Ephred(p), "esolexa": alphabet.Esolexa(p)})
			}
		}
	}
	if i < 6 && r.WantSample() && i%2 == 0 {
		r.Sample(map[string]interface{}{"section": i, "example": fmt.Sprintf("Qphred(40): Sanger byte %d, ProbE %g, Solexa %d; Qsolexa(-5): byte %d, ProbE %g, Phred %d",
			alphabet.Qphred(40).Encode(alphabet.Sanger), alphabet.Qphred(40).ProbE(), alphabet.Qphred(40).Qsolexa(),
			alphabet.Qsolexa(-5).Encode(alphabet.Solexa), alphabet.Qsolexa(-5).ProbE(), alphabet.Qsolexa(-5).Qphred())})
	}
}

// c18PhredCopies: objects derived from the placed containers (quality.Phred.Copy, linear.QSeq.Clone) hold the score q
// under encoding e at the same position. Only what the derived object says about itself is looked at; nothing is
// demanded about its independence from the original.
func c18PhredCopies(r *obs.Run, php *quality.Phred, qsp *linear.QSeq, off, q int, e alphabet.Encoding) {
	wantB, wantP := q+phredOffset(e), alphabet.Qphred(q).ProbE()
	if c := php.Copy(); c.Encoding() != e || int(c.QEncode(off+1)) != wantB || int(c.Encoding().DecodeToQphred(c.QEncode(off+1))) != q || !relClose(c.EAt(off+1), wantP) {
		r.Violate("phred-roundtrip", fmt.Sprintf("Copy() of a quality.Phred starting at %d holding 7,%d,9 under %s: encoding %s, QEncode(%d)=%d want %d, EAt=%g want %g", off, q, encNames[e], encNames[c.Encoding()], off+1, c.QEncode(off+1), wantB, c.EAt(off+1), wantP),
			c18w{"quality.Phred-Copy", q, encNames[e], int(c.QEncode(off + 1)), wantB})
	}
	r.Count("derived_containers_checked", 1)
	type scorer interface {
		Encoding() alphabet.Encoding
		QEncode(int) byte
		EAt(int) float64
	}
	cl := qsp.Clone()
	c, ok := cl.(scorer)
	if !ok {
		return
	}
	want3 := string([]byte{byte(7 + phredOffset(e)), byte(wantB), byte(9 + phredOffset(e))})
	lines := strings.Split(fmt.Sprintf("%q", cl), "\n")
	if c.Encoding() != e || int(c.QEncode(off+1)) != wantB || int(c.Encoding().DecodeToQphred(c.QEncode(off+1))) != q || !relClose(c.EAt(off+1), wantP) || len(lines) < 4 || lines[3] != want3 {
		r.Violate("phred-roundtrip", fmt.Sprintf("Clone() of a linear.QSeq starting at %d holding 7,%d,9 under %s: encoding %s, QEncode(%d)=%d want %d, EAt=%g want %g, %%q rendering %q want the quality line %q", off, q, encNames[e], encNames[c.Encoding()], off+1, c.QEncode(off+1), wantB, c.EAt(off+1), wantP, lines, want3),
			c18w{"linear.QSeq-Clone", q, encNames[e], lines, want3})
	}
	r.Count("derived_containers_checked", 1)
}

// c18SwitchOverPoints: probabilities a hair to either side of every point where the nearest score changes
// (score - 0.5 +- 1e-3, 1e-5, 1e-7 on the score scale), through Ephred/Esolexa and the containers' SetE.
// A point is judged when the score-scale value recomputed from the float64 probability is still the intended
// one to 1e-8 (probabilities within 1e-12 or so of 1 cannot carry the displacement and are left out).
func c18SwitchOverPoints(r *obs.Run, solexa bool) {
	for k := -126; k <= 253; k++ {
		if solexa && k > 126 || !solexa && k < 1 {
			continue
		}
		for _, d := range []float64{-1e-3, 1e-3, -1e-5, 1e-5, -1e-7, 1e-7} {
			x := float64(k) - 0.5 + d
			var p, a float64
			if solexa {
				t := math.Pow(10, -x/10)
				p = t / (1 + t)
				a = -10 * math.Log10(p/(1-p))
			} else {
				p = math.Pow(10, -x/10)
				a = -10 * math.Log10(p)
			}
			want := math.Floor(a + 0.5)
			judged := p > 0 && p < 1 && math.Abs(a-x) < 1e-8 && !nearTie(a) && (want == float64(k) || want == float64(k-1))
			r.Note(fmt.Sprint("edge/", solexa, "/", k, "/", d), judged)
			if !judged {
				continue
			}
			r.Count("switch_over_points_judged", 1)
			if solexa {
				so := quality.NewSolexa("x", []alphabet.Qsolexa{3, 3}, alphabet.Solexa)
				err := so.SetE(1, p)
				if got := alphabet.Esolexa(p); float64(got) != want || err != nil || float64(so.At(1)) != want {
					r.Violate("esolexa-nearest", fmt.Sprintf("Esolexa(%v)=%d, quality.Solexa SetE stored %d (error %v), want %g: the probability lies at %.9f on the score scale", p, got, so.At(1), err, want, a), c18w{"esolexa-switch-over", p, "", int(got), want})
				}
				continue
			}
			ph := quality.NewPhred("x", []alphabet.Qphred{3, 3}, alphabet.Sanger)
			qs := linear.NewQSeq("x", []alphabet.QLetter{{L: 'a', Q: 3}, {L: 'c', Q: 3}}, alphabet.DNA, alphabet.Sanger)
			err1, err2 := ph.SetE(1, p), qs.SetE(1, p)
			if got := alphabet.Ephred(p); float64(got) != want || err1 != nil || err2 != nil || float64(ph.At(1)) != want || float64(qs.At(1).Q) != want {
				r.Violate("ephred-nearest", fmt.Sprintf("Ephred(%v)=%d, quality.Phred SetE stored %d (error %v), linear.QSeq SetE stored %d (error %v), want %g: the probability lies at %.9f on the score scale", p, got, ph.At(1), err1, qs.At(1).Q, err2, want, a), c18w{"ephred-switch-over", p, "", int(got), want})
			}
		}
	}
}

// c18ReEncode: one linear.QSeq, one quality.Phred and one quality.Solexa live through the whole case; their encoding is
// changed with SetEncoding again and again (order drawn from the case's generator) and under each setting every
// in-range score is stored and read back as a byte (QEncode, String(), the %q quality line).
func c18ReEncode(r *obs.Run) {
	encs := []alphabet.Encoding{alphabet.Sanger, alphabet.Illumina1_3, alphabet.Illumina1_5, alphabet.Illumina1_8, alphabet.Illumina1_9}
	const off = 2
	qs := linear.NewQSeq("x", []alphabet.QLetter{{L: 'a', Q: 7}, {L: 'c', Q: 8}, {L: 'g', Q: 9}}, alphabet.DNA, alphabet.None)
	ph := quality.NewPhred("x", []alphabet.Qphred{7, 8, 9}, alphabet.None)
	so := quality.NewSolexa("x", []alphabet.Qsolexa{7, 8, 9}, alphabet.None)
	qs.SetOffset(off)
	ph.SetOffset(off)
	so.SetOffset(off)
	for round := 0; round < 3; round++ {
		for _, ei := range r.Rng.Perm(len(encs)) {
			e := encs[ei]
			err1, err2 := qs.SetEncoding(e), ph.SetEncoding(e)
			if err1 != nil || err2 != nil || qs.Encoding() != e || ph.Encoding() != e {
				r.Violate("phred-encode-byte", fmt.Sprintf("SetEncoding(%s) on long-lived containers (round %d): linear.QSeq returned %v and reports %s, quality.Phred returned %v and reports %s", encNames[e], round, err1, encNames[qs.Encoding()], err2, encNames[ph.Encoding()]),
					c18w{"SetEncoding", round, encNames[e], []int{int(qs.Encoding()), int(ph.Encoding())}, int(e)})
				continue
			}
			// what they held before the change (7,8,9) is rendered under the new setting at once
			was3 := string([]byte{byte(7 + phredOffset(e)), byte(8 + phredOffset(e)), byte(9 + phredOffset(e))})
			if lines := strings.Split(fmt.Sprintf("%q", qs), "\n"); ph.String() != was3 || len(lines) < 4 || lines[3] != was3 {
				r.Violate("phred-encode-byte", fmt.Sprintf("long-lived containers holding 7,8,9 just set to %s with SetEncoding (round %d): String() %q, %%q rendering %q, want the bytes %q", encNames[e], round, ph.String(), lines, was3),
					c18w{"re-encoded-containers", 8, encNames[e], lines, was3})
			}
			lo, hi := phredRange(e)
			for k := lo; k <= hi+1; k++ {
				q := k
				if k > hi {
					q = 8 // leave 7,8,9 behind for the next setting
				}
				r.Note(fmt.Sprint("re/", round, "/", encNames[e], "/", q), true)
				qs.Set(off+1, alphabet.QLetter{L: 'c', Q: alphabet.Qphred(q)})
				ph.Set(off+1, alphabet.Qphred(q))
				want3 := string([]byte{byte(7 + phredOffset(e)), byte(q + phredOffset(e)), byte(9 + phredOffset(e))})
				lines := strings.Split(fmt.Sprintf("%q", qs), "\n")
				if b1, b2 := qs.QEncode(off+1), ph.QEncode(off+1); b1 != want3[1] || b2 != want3[1] || ph.String() != want3 || len(lines) < 4 || lines[3] != want3 || int(ph.QDecode(b2)) != q {
					r.Violate("phred-encode-byte", fmt.Sprintf("long-lived containers set to %s with SetEncoding (round %d), middle score %d: QEncode %d (linear.QSeq) and %d (quality.Phred), String() %q, %%q rendering %q, want the bytes %q", encNames[e], round, q, b1, b2, ph.String(), lines, want3),
						c18w{"re-encoded-containers", q, encNames[e], lines, want3})
				}
				r.Count("reencoded_container_checks", 1)
			}
			// the Solexa container goes to None and back to Solexa in between
			if err := so.SetEncoding(alphabet.None); err != nil || so.Encoding() != alphabet.None {
				r.Violate("solexa-encode-byte", fmt.Sprintf("quality.Solexa SetEncoding(None) returned %v, reports %s", err, encNames[so.Encoding()]), c18w{"SetEncoding", round, "None", int(so.Encoding()), int(alphabet.None)})
			}
			if err := so.SetEncoding(alphabet.Solexa); err != nil || so.Encoding() != alphabet.Solexa {
				r.Violate("solexa-encode-byte", fmt.Sprintf("quality.Solexa SetEncoding(Solexa) (round %d) returned %v, reports %s", round, err, encNames[so.Encoding()]), c18w{"SetEncoding", round, "Solexa", int(so.Encoding()), int(alphabet.Solexa)})
				continue
			}
			if str := so.String(); str != "GHI" {
				r.Violate("solexa-encode-byte", fmt.Sprintf("long-lived quality.Solexa holding 7,8,9 just set back to Solexa with SetEncoding (round %d): String() %q, want \"GHI\"", round, str), c18w{"re-encoded-containers", 8, "Solexa", str, "GHI"})
			}
			for k := -5; k <= 63; k++ {
				s := k
				if k > 62 {
					s = 8
				}
				so.Set(off+1, alphabet.Qsolexa(s))
				want3 := string([]byte{7 + 64, byte(s + 64), 9 + 64})
				if b := so.QEncode(off + 1); b != want3[1] || so.String() != want3 || int(so.QDecode(b)) != s {
					r.Violate("solexa-encode-byte", fmt.Sprintf("long-lived quality.Solexa set back to Solexa with SetEncoding (round %d), middle score %d: QEncode %d, String() %q, want the bytes %q", round, s, b, so.String(), want3),
						c18w{"re-encoded-containers", s, "Solexa", so.String(), want3})
				}
				r.Count("reencoded_container_checks", 1)
			}
		}
	}
}
