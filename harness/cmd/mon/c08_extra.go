package main

import (
	"fmt"
	"math/rand"

	"github.com/biogo/biogo/align"
	"github.com/biogo/biogo/alphabet"
	"github.com/biogo/biogo/feat"
	"github.com/biogo/biogo/seq/linear"

	"verif/harness/internal/obs"
)

// Extensions of the C08/C09 harness (c08.go): answers of earlier calls read again, the caller's matrix kept apart from
// the oracle's, long-lived sequence objects over one buffer, large tables and gap-open values, more alphabets, odd
// matrices and sequence types for the ill-typed calls.

// ---- answers of earlier calls are read again after later calls ----

type alnHeldAnswer struct {
	raw   []feat.Pair // the pairs as they were returned (the slice is a copy, the pairs are the returned ones)
	pairs []alnPair   // what they said when they were returned
	c     *alnCase
	call  int64
}

const alnHeldN = 32

var (
	alnHeld        []alnHeldAnswer // ring of the last answers
	alnHeldNext    int
	alnHeldCalls   int64
	alnHeldReads   int64
	alnHeldChanged *obsViolation // first change seen since the last report
	alnCur         *alnCase      // the case the current call belongs to (nil for ill-typed calls)
)

type obsViolation struct {
	brief   string
	witness map[string]interface{}
}

func alnExtract(raw []feat.Pair) []alnPair {
	out := make([]alnPair, 0, len(raw))
	for _, p := range raw {
		fs := p.Features()
		sc := 0
		if s, ok := p.(interface{ Score() int }); ok {
			sc = s.Score()
		}
		out = append(out, alnPair{fs[0].Start(), fs[0].End(), fs[1].Start(), fs[1].End(), sc})
	}
	return out
}

// alnHeldRecheck reads the last k held answers again (all of them for k < 0). Main goroutine only.
func alnHeldRecheck(k int) {
	n := len(alnHeld)
	if k < 0 || k > n {
		k = n
	}
	for d := 1; d <= k; d++ {
		h := &alnHeld[((alnHeldNext-d)%n+n)%n]
		alnHeldReads++
		func() {
			defer func() {
				if p := recover(); p != nil && alnHeldChanged == nil {
					alnHeldChanged = &obsViolation{fmt.Sprintf("reading an answer returned %d calls ago panics: %v", alnHeldCalls-h.call, p), map[string]interface{}{"case": h.c, "when_returned": fmt.Sprint(h.pairs)}}
				}
			}()
			now := alnExtract(h.raw)
			same := len(now) == len(h.pairs)
			for i := 0; same && i < len(now); i++ {
				same = now[i] == h.pairs[i]
			}
			if !same && alnHeldChanged == nil {
				w := map[string]interface{}{"when_returned": fmt.Sprint(h.pairs), "read_again": fmt.Sprint(now), "calls_in_between": alnHeldCalls - h.call}
				alg := "an aligner"
				if h.c != nil {
					cc := *h.c
					if len(cc.Matrix) > 6 {
						cc.Matrix = nil
					}
					w["case"], alg = cc, cc.Alg
				}
				if alnCur != nil {
					w["latest_call"] = alnCur.Alg
				}
				alnHeldChanged = &obsViolation{fmt.Sprintf("the alignment %s returned %d calls ago read %s then and reads %s after the later calls", alg, alnHeldCalls-h.call, truncStr(fmt.Sprint(h.pairs), 120), truncStr(fmt.Sprint(now), 120)), w}
			}
			h.pairs = now // report a change once
		}()
	}
}

// alnHeldAfterCall is called by alnRun after every call: the two most recent answers are read again each time, all
// held answers every 64th call; then the new answer joins the ring.
func alnHeldAfterCall(raw []feat.Pair, pairs []alnPair) {
	alnHeldCalls++
	if alnHeldCalls%64 == 0 {
		alnHeldRecheck(-1)
	} else {
		alnHeldRecheck(2)
	}
	if len(raw) == 0 {
		return
	}
	h := alnHeldAnswer{raw: raw, pairs: append([]alnPair(nil), pairs...), c: alnCur, call: alnHeldCalls}
	if len(alnHeld) < alnHeldN {
		alnHeld = append(alnHeld, h)
		alnHeldNext = len(alnHeld) % alnHeldN
		return
	}
	alnHeld[alnHeldNext] = h
	alnHeldNext = (alnHeldNext + 1) % alnHeldN
}

// alnHeldReport files what the re-reads found; called at the end of every case from the main goroutine.
func alnHeldReport(r *obs.Run) {
	if alnHeldReads > 0 {
		r.Count("earlier_answers_read_again_after_later_calls", alnHeldReads)
		alnHeldReads = 0
	}
	if v := alnHeldChanged; v != nil {
		alnHeldChanged = nil
		r.Violate("earlier-answer-changed", v.brief, v.witness)
	}
}

// ---- the caller's matrix and the oracle's copy ----

func alnCopyMatrix(m [][]int) [][]int {
	total := 0
	for _, row := range m {
		total += len(row)
	}
	block := make([]int, 0, total)
	out := make([][]int, len(m))
	for i, row := range m {
		block = append(block, row...)
		out[i] = block[len(block)-len(row) : len(block) : len(block)]
	}
	return out
}

// alnRestoreMatrix reports whether the caller's matrix still reads as want; if not it is put back, so that later
// cases use the matrix they name.
func alnRestoreMatrix(m, want [][]int) (changed bool) {
	for i := range want {
		if i >= len(m) || len(m[i]) != len(want[i]) {
			changed = true
			continue
		}
		for j, v := range want[i] {
			if m[i][j] != v {
				m[i][j] = v
				changed = true
			}
		}
	}
	return changed || len(m) != len(want)
}

// ---- one buffer of letters, long-lived sequence objects ----

// alnWindowSession is a caller who keeps one buffer of letters and two sequence objects of each kind for several
// calls: the objects are pointed at windows of the buffer (often with the same first letter as before, sometimes the
// same window or the very same object on both sides), aligned, and the buffer is then edited in place. Every call is
// judged by the usual oracle from the letters the caller wrote (kept apart in shadow), so a translation or table
// remembered by the identity of a sequence's storage shows up as a wrong answer.
func alnWindowSession(r *obs.Run, which string, aa alnAlpha) {
	rng := r.Rng
	n := 8 + rng.Intn(150)
	shadow := make([]byte, n)
	bufL := make(alphabet.Letters, n)
	bufQ := make(alphabet.QLetters, n)
	write := func(i int) {
		b := aa.letters[rng.Intn(len(aa.letters))]
		shadow[i], bufL[i], bufQ[i] = b, alphabet.Letter(b), alphabet.QLetter{L: alphabet.Letter(b), Q: alphabet.Qphred(rng.Intn(60))}
	}
	for i := range shadow {
		write(i)
	}
	pr, pq := linear.NewSeq("r", alphabet.Letters{}, aa.a), linear.NewSeq("q", alphabet.Letters{}, aa.a)
	qr, qq := linear.NewQSeq("r", alphabet.QLetters{}, aa.a, alphabet.Sanger), linear.NewQSeq("q", alphabet.QLetters{}, aa.a, alphabet.Sanger)
	M := alnRandomMatrix(rng, aa.a.Len())
	alg := alnAlgs[rng.Intn(len(alnAlgs))]
	anyAlg := rng.Intn(3) == 0
	home := [2]int{rng.Intn(n/2 + 1), rng.Intn(n/2 + 1)}
	window := func(side int) (int, int) {
		a := home[side]
		if rng.Intn(2) == 0 {
			a = rng.Intn(n)
		}
		return a, a + 1 + rng.Intn(n-a)
	}
	for step := 0; step < 6; step++ {
		if anyAlg {
			alg = alnAlgs[rng.Intn(len(alnAlgs))]
		}
		open := 0
		if alnAffine(alg) {
			open = -rng.Intn(8)
		}
		a0, a1 := window(0)
		b0, b1 := window(1)
		if rng.Intn(5) == 0 {
			b0, b1 = a0, a1
		}
		pr.Seq, qr.Seq = bufL[a0:a1], bufQ[a0:a1]
		pq.Seq, qq.Seq = bufL[b0:b1], bufQ[b0:b1]
		given := []align.AlphabetSlicer{pr, pq, qr, qq}
		if rng.Intn(6) == 0 { // the same object is reference and query
			b0, b1 = a0, a1
			given = []align.AlphabetSlicer{pr, pr, qr, qr}
			r.Count("calls_with_one_object_as_reference_and_query", 1)
		}
		c := alnCase{Alg: alg, Alphabet: aa.name, Matrix: M, MatrixID: "random/windows-of-one-buffer", Open: open, R: string(shadow[a0:a1]), Q: string(shadow[b0:b1])}
		nt := alnCheck(r, which, c, aa.a, M, given...)
		r.Note(fmt.Sprintf("win/%s/%s/%d/%s/%s/%x", aa.name, alg, open, c.R, c.Q, hashBytes([]byte(fmt.Sprint(M)))), nt)
		r.Count("calls_on_windows_of_one_buffer_edited_in_place", 1)
		for k := 1 + rng.Intn(6); k > 0; k-- {
			write(rng.Intn(n))
		}
	}
	r.Count("callers_keeping_one_buffer_and_long_lived_sequence_objects", 1)
}

// ---- large tables ----

// alnBigCase aligns sequences far longer than the random cases: kind 0 two related sequences of some 520..1000 letters, met by every aligner in both orders
// (tables of up to a million cells), the other kinds a sequence of 66000..75000 letters against 1..3 letters
// (coordinates beyond 16 bits), in either order.
func alnBigCase(r *obs.Run, which string, kind int, alg string) {
	rng := r.Rng
	aa := alnAlphas[0]
	M := alnRandomMatrix(rng, aa.a.Len())
	gen := func(n int) []byte {
		b := make([]byte, n)
		for i := range b {
			b[i] = aa.letters[rng.Intn(len(aa.letters))]
		}
		return b
	}
	var x, y []byte
	if kind == 0 {
		x = gen(740 + rng.Intn(261))
		a := rng.Intn(len(x) / 8)
		y = append([]byte(nil), x[a:len(x)-rng.Intn(len(x)/8)]...)
		for k := 0; k < len(y)/12; k++ {
			p := rng.Intn(len(y) - 1)
			switch rng.Intn(3) {
			case 0:
				y[p] = aa.letters[rng.Intn(len(aa.letters))]
			case 1:
				y = append(y[:p], append(gen(1+rng.Intn(4)), y[p:]...)...)
			default:
				y = append(y[:p], y[p+1:]...)
			}
		}
		for len(y) > 1000 {
			y = y[:1000]
		}
		r.Count("pairs_of_520_to_1000_letters", 1)
	} else {
		x, y = gen(66000+rng.Intn(9001)), gen(1+rng.Intn(3))
		r.Count("pairs_with_a_sequence_beyond_65535_letters", 1)
	}
	if rng.Intn(2) == 0 {
		x, y = y, x
	}
	algs := []string{alg}
	if kind == 0 {
		// every aligner meets every long pair, in both orders: a table blocked into strips of some hundred rows or
		// columns is then reached whichever aligner has the turn
		algs = alnAlgs
	}
	for _, alg := range algs {
		open := 0
		if alnAffine(alg) {
			open = -rng.Intn(12)
		}
		for o := 0; o < len(algs) && o < 2; o++ {
			c := alnCase{Alg: alg, Alphabet: aa.name, Matrix: M, MatrixID: "random/large-table", Open: open, R: string(x), Q: string(y)}
			nt := alnCheck(r, which, c, aa.a, M)
			r.Note(fmt.Sprintf("big/%s/%d/%x/%x/%x", alg, open, hashBytes(x), hashBytes(y), hashBytes([]byte(fmt.Sprint(M)))), nt)
			if kind == 0 {
				r.Count("long_pair_alignments", 1)
			}
			x, y = y, x
		}
	}
}

// alnLargeOpens are gap-open penalties a caller uses to make gaps rare or to forbid them.
var alnLargeOpens = []int{-37, -255, -256, -1000, -65536, -1000000, -(1 << 33), -(1 << 40)}

// ---- ill-typed inputs ----

// alnOddSlicer is a sequence whose data is of a kind no aligner handles.
type alnOddSlicer struct {
	al alphabet.Alphabet
	sl alphabet.Slice
}

func (o alnOddSlicer) Alphabet() alphabet.Alphabet { return o.al }
func (o alnOddSlicer) Slice() alphabet.Slice       { return o.sl }

// alnOddSeq returns a sequence over al whose Slice() is not Letters or QLetters, and what it is.
func alnOddSeq(rng *rand.Rand, al alphabet.Alphabet, b []byte) (align.AlphabetSlicer, string) {
	switch rng.Intn(3) {
	case 0:
		cols := make(alphabet.Columns, len(b))
		for i := range cols {
			cols[i] = []alphabet.Letter{alphabet.Letter(b[i])}
		}
		return alnOddSlicer{al, cols}, "alignment columns"
	case 1:
		cols := make(alphabet.QColumns, len(b))
		for i := range cols {
			cols[i] = []alphabet.QLetter{{L: alphabet.Letter(b[i]), Q: 20}}
		}
		return alnOddSlicer{al, cols}, "quality alignment columns"
	}
	return alnOddSlicer{al, nil}, "no data (nil Slice)"
}

// alnOddMatrix returns a matrix for an alphabet of n letters that has no cells or lacks whole rows.
func alnOddMatrix(rng *rand.Rand, n int) ([][]int, string) {
	switch rng.Intn(7) {
	case 0:
		return nil, "nil matrix (the zero value of the aligner)"
	case 1:
		return [][]int{}, "matrix without rows"
	case 2:
		return [][]int{{}}, "matrix of one empty row"
	case 3:
		return make([][]int, n), fmt.Sprintf("matrix of %d nil rows", n)
	case 4:
		m := make([][]int, n)
		for i := range m {
			m[i] = []int{}
		}
		return m, fmt.Sprintf("matrix of %d empty rows", n)
	case 5:
		m := alnRandomMatrix(rng, n)
		m[0] = nil
		return m, "matrix whose first row is nil"
	}
	m := alnRandomMatrix(rng, n)
	i := 1 + rng.Intn(n-1)
	m[i] = nil
	return m, fmt.Sprintf("matrix whose row %d is nil", i)
}
