package main

import (
	"bytes"
	"fmt"
	"io"
	"math/rand"
	"reflect"
	"sync"

	"github.com/biogo/biogo/alphabet"
	"github.com/biogo/biogo/feat"
	"github.com/biogo/biogo/io/featio/bed"
	"github.com/biogo/biogo/io/featio/gff"
	"github.com/biogo/biogo/seq"
	"github.com/biogo/biogo/seq/linear"

	"verif/harness/internal/obs"
)

// C02 — what the gap review added: features of other types through the bed writer, snapshots of the caller's records,
// comparison of a whole gff file after io.EOF with the caller scribbling on what it read, independent writers and
// readers used at the same time.

// c02Feat is a feature that is not one of the bed record types: bed.Writer renders it from its accessors (location,
// start, end, name and, when the type has them, Score and Orientation). The location is a bed.Chrom, the location
// type of the records the bed reader returns.
type c02Feat struct {
	chrom bed.Chrom
	s, e  int
	name  string
}

func (p *c02Feat) Start() int             { return p.s }
func (p *c02Feat) End() int               { return p.e }
func (p *c02Feat) Len() int               { return p.e - p.s }
func (p *c02Feat) Name() string           { return p.name }
func (p *c02Feat) Description() string    { return "harness feature" }
func (p *c02Feat) Location() feat.Feature { return p.chrom }

type c02FeatS struct {
	c02Feat
	score int
}

func (p *c02FeatS) Score() int { return p.score }

type c02FeatO struct {
	c02Feat
	ori feat.Orientation
}

func (p *c02FeatO) Orientation() feat.Orientation { return p.ori }

type c02FeatSO struct {
	c02Feat
	score int
	ori   feat.Orientation
}

func (p *c02FeatSO) Score() int                    { return p.score }
func (p *c02FeatSO) Orientation() feat.Orientation { return p.ori }

func c02GenForeign(rng *rand.Rand) feat.Feature {
	base := c02Feat{chrom: bed.Chrom(genField(rng, rng.Intn(4) == 0)), s: genInt(rng), e: genInt(rng), name: genField(rng, rng.Intn(3) == 0)}
	score, ori := genInt(rng), feat.Orientation(rng.Intn(3)-1)
	switch rng.Intn(4) {
	case 0:
		return &base
	case 1:
		return &c02FeatS{base, score}
	case 2:
		return &c02FeatO{base, ori}
	}
	return &c02FeatSO{base, score, ori}
}

func c02IsForeign(f feat.Feature) bool {
	switch f.(type) {
	case *c02Feat, *c02FeatS, *c02FeatO, *c02FeatSO:
		return true
	}
	return false
}

// c02BedWant returns what record f, written at width m or wider, must read back as with an m-reader. For a feature
// of another type the columns come from its accessors; a column the type has no accessor for (score without Score,
// strand without Orientation) is the writer's choice and is taken from got.
func c02BedWant(f feat.Feature, m int, got feat.Feature) feat.Feature {
	if !c02IsForeign(f) {
		return bedPrefix(f, m)
	}
	b := &bed.Bed6{Chrom: f.Location().Name(), ChromStart: f.Start(), ChromEnd: f.End(), FeatName: f.Name()}
	var g6 *bed.Bed6
	if got != nil && !reflect.ValueOf(got).IsNil() {
		g6, _ = bedPrefix(got, 6).(*bed.Bed6)
	}
	if s, ok := f.(bed.Scorer); ok {
		b.FeatScore = s.Score()
	} else if g6 != nil {
		b.FeatScore = g6.FeatScore
	}
	if o, ok := f.(feat.Orienter); ok {
		b.FeatStrand = seq.Strand(o.Orientation())
	} else if g6 != nil {
		b.FeatStrand = g6.FeatStrand
	}
	return bedPrefix(b, m)
}

// c02CopyBed returns a deep copy of a record handed to the bed writer.
func c02CopyBed(f feat.Feature) feat.Feature {
	switch b := f.(type) {
	case *bed.Bed3:
		c := *b
		return &c
	case *bed.Bed4:
		c := *b
		return &c
	case *bed.Bed5:
		c := *b
		return &c
	case *bed.Bed6:
		c := *b
		return &c
	case *bed.Bed12:
		c := *b
		c.BlockSizes = c02CloneInts(b.BlockSizes)
		c.BlockStarts = c02CloneInts(b.BlockStarts)
		return &c
	case *c02Feat:
		c := *b
		return &c
	case *c02FeatS:
		c := *b
		return &c
	case *c02FeatO:
		c := *b
		return &c
	case *c02FeatSO:
		c := *b
		return &c
	}
	panic(fmt.Sprintf("c02CopyBed: %T", f))
}

// c02CloneInts copies s; a nil list stays nil and an empty one stays empty (reflect.DeepEqual tells them apart).
func c02CloneInts(s []int) []int {
	if s == nil {
		return nil
	}
	c := make([]int, len(s))
	copy(c, s)
	return c
}

// c02CopyGFF returns a deep copy of a gff feature: the score's target and the attribute list are the copy's own.
func c02CopyGFF(f *gff.Feature) *gff.Feature {
	c := *f
	if f.FeatScore != nil {
		v := *f.FeatScore
		c.FeatScore = &v
	}
	if f.FeatAttributes != nil {
		c.FeatAttributes = make(gff.Attributes, len(f.FeatAttributes))
		copy(c.FeatAttributes, f.FeatAttributes)
	}
	return &c
}

// c02SeqSnap is what the monitor keeps of a sequence: name, description, letters and molecule type.
type c02SeqSnap struct {
	id, desc, letters string
	mol               feat.Moltype
}

func c02SnapSeq(s seq.Sequence) c02SeqSnap {
	if l, ok := s.(*linear.Seq); ok && l != nil { // the same without a call per letter
		return c02SeqSnap{id: l.ID, desc: l.Desc, letters: string(alphabet.LettersToBytes(l.Seq)), mol: l.Alphabet().Moltype()}
	}
	rec := seqToRec(s, false)
	return c02SeqSnap{id: rec.Name, desc: rec.Desc, letters: rec.Letters, mol: s.Alphabet().Moltype()}
}

// c02Snap returns a deep snapshot of an item a gff reader returned (or that is about to be written).
func c02Snap(f feat.Feature) interface{} {
	switch g := f.(type) {
	case *gff.Feature:
		if g == nil {
			return nil
		}
		return c02CopyGFF(g)
	case *gff.Region:
		if g == nil {
			return nil
		}
		return *g
	case seq.Sequence:
		return c02SnapSeq(g)
	}
	return fmt.Sprintf("%T %+v", f, f)
}

// c02SameAsSnap reports whether f still is what it was when snap was taken.
func c02SameAsSnap(f feat.Feature, snap interface{}) bool {
	return reflect.DeepEqual(c02Snap(f), snap)
}

// c02Scribble does to an item the caller has read what a caller may do to its own record: it writes through the
// score pointer, overwrites and extends the attribute list, overwrites and extends the letters. It reports whether
// there was anything to write on.
func c02Scribble(f feat.Feature) bool {
	switch g := f.(type) {
	case *gff.Feature:
		if g == nil || (g.FeatScore == nil && g.FeatAttributes == nil) {
			return false
		}
		if g.FeatScore != nil {
			*g.FeatScore = -*g.FeatScore + 1234.5
		}
		for a := range g.FeatAttributes {
			g.FeatAttributes[a] = gff.Attribute{Tag: "scribbled", Value: "by the caller"}
		}
		if g.FeatAttributes != nil {
			g.FeatAttributes = append(g.FeatAttributes, gff.Attribute{Tag: "appended", Value: "by the caller"}, gff.Attribute{Tag: "and", Value: "another"})
		}
		return true
	case *linear.Seq:
		if g == nil {
			return false
		}
		for k := range g.Seq {
			g.Seq[k] = '!'
		}
		g.Seq = append(g.Seq, '!', '!', '!')
		return true
	}
	return false
}

// c02Job is what one goroutine of the parallel pass owns: its records, its writers, its readers.
type c02Job struct {
	n, m   int // bed record type and write width
	header bool
	width  int
	beds   []feat.Feature
	gffs   []feat.Feature // *gff.Feature and, now and then, an inline sequence
}

type c02JobResult struct {
	bedBytes, gffBytes []byte
	bedRead, gffRead   []feat.Feature
	err                error
}

// run writes the job's records with writers of its own and reads the bytes back with readers of its own. It touches
// nothing but the job (read-only) and its result: safe to call from any goroutine.
func (j *c02Job) run() (res c02JobResult) {
	defer func() {
		if e := recover(); e != nil {
			res.err = fmt.Errorf("panic: %v", e)
		}
	}()
	var bb, gb bytes.Buffer
	bw, err := bed.NewWriter(&bb, j.m)
	if err != nil {
		return c02JobResult{err: err}
	}
	for k, f := range j.beds {
		if _, err := bw.Write(f); err != nil {
			return c02JobResult{err: fmt.Errorf("bed Write of record %d: %v", k, err)}
		}
	}
	res.bedBytes = append([]byte(nil), bb.Bytes()...)
	br, err := bed.NewReader(bytes.NewReader(res.bedBytes), j.m)
	if err != nil {
		return c02JobResult{err: err}
	}
	for len(res.bedRead) <= len(j.beds) {
		f, err := br.Read()
		if err != nil {
			if err != io.EOF {
				res.err = fmt.Errorf("bed reader after %d records: %v", len(res.bedRead), err)
				return res
			}
			break
		}
		res.bedRead = append(res.bedRead, f)
	}
	gw := gff.NewWriter(&gb, j.width, j.header)
	for k, f := range j.gffs {
		if _, err := gw.Write(f); err != nil {
			res.err = fmt.Errorf("gff Write of item %d: %v", k, err)
			return res
		}
	}
	res.gffBytes = append([]byte(nil), gb.Bytes()...)
	gr := gff.NewReader(bytes.NewReader(res.gffBytes))
	for len(res.gffRead) <= len(j.gffs) {
		f, err := gr.Read()
		if err != nil {
			if err != io.EOF {
				res.err = fmt.Errorf("gff reader after %d items: %v", len(res.gffRead), err)
				return res
			}
			break
		}
		res.gffRead = append(res.gffRead, f)
	}
	return res
}

// check compares what was read back with the job's records; "" when every record came back.
func (j *c02Job) check(res c02JobResult) string {
	if res.err != nil {
		return res.err.Error()
	}
	if len(res.bedRead) != len(j.beds) || len(res.gffRead) != len(j.gffs) {
		return fmt.Sprintf("wrote %d bed records and %d gff items, read %d and %d", len(j.beds), len(j.gffs), len(res.bedRead), len(res.gffRead))
	}
	for k := range j.beds {
		if want := c02BedWant(j.beds[k], j.m, res.bedRead[k]); !reflect.DeepEqual(res.bedRead[k], want) {
			return fmt.Sprintf("bed%d record %d written at %d reads back as %+v, want %+v", j.n, k, j.m, res.bedRead[k], want)
		}
	}
	for k, it := range j.gffs {
		switch f := it.(type) {
		case *gff.Feature:
			g, ok := res.gffRead[k].(*gff.Feature)
			if !ok || !reflect.DeepEqual(gffNormalise(g), gffNormalise(f)) {
				return fmt.Sprintf("gff item %d reads back as %+v, want %s", k, res.gffRead[k], gffBrief(f))
			}
		case seq.Sequence:
			g, ok := res.gffRead[k].(seq.Sequence)
			if !ok {
				return fmt.Sprintf("gff item %d: expected a sequence, got %T", k, res.gffRead[k])
			}
			if a, b := c02SnapSeq(g), c02SnapSeq(f); a.id != b.id || a.letters != b.letters || a.mol != b.mol {
				return fmt.Sprintf("gff item %d: inline sequence %q (%v, %d letters) reads back as %q (%v, %d letters)", k, b.id, b.mol, len(b.letters), a.id, a.mol, len(a.letters))
			}
		}
	}
	return ""
}

// c02Parallel: 2..6 goroutines, each with a bed writer and reader and a gff writer and reader of its own over
// records of its own, released together. Objects that share nothing the caller can see must not influence one
// another: every stream equals the stream the same records gave when written alone, every record comes back.
func c02Parallel(r *obs.Run) {
	rng := r.Rng
	ng := 2 + rng.Intn(5)
	jobs := make([]*c02Job, ng)
	alone := make([]c02JobResult, ng)
	for g := range jobs {
		j := &c02Job{n: []int{3, 4, 5, 6, 12}[rng.Intn(5)], header: rng.Intn(2) == 0, width: 1 + rng.Intn(80)}
		j.m = j.n
		if rng.Intn(2) == 0 {
			j.m = []int{3, 4, 5, 6, 12}[rng.Intn(5)]
			if j.m > j.n {
				j.m = j.n
			}
		}
		for k := 0; k < 30; k++ {
			if j.n <= 6 && rng.Intn(6) == 0 {
				j.beds = append(j.beds, c02GenForeign(rng))
			} else {
				j.beds = append(j.beds, genBed(rng, j.n))
			}
			if rng.Intn(6) == 0 {
				al := []alphabet.Alphabet{alphabet.DNA, alphabet.RNA, alphabet.Protein}[rng.Intn(3)]
				j.gffs = append(j.gffs, linear.NewSeq(genNoSpace(rng), alphabet.BytesToLetters([]byte(genLetters(rng, al, 1+rng.Intn(300)))), al))
			} else {
				j.gffs = append(j.gffs, genGFF(rng))
			}
		}
		jobs[g] = j
		alone[g] = j.run()
		if what := j.check(alone[g]); what != "" {
			r.Violate("record-differs", "records written and read alone (before the parallel pass): "+what, map[string]interface{}{"what": what, "bed_type": j.n, "write_width": j.m})
			return
		}
	}
	together := make([]c02JobResult, ng)
	var wg sync.WaitGroup
	start := make(chan struct{})
	for g := range jobs {
		wg.Add(1)
		go func(g int) {
			defer wg.Done()
			<-start
			together[g] = jobs[g].run()
		}(g)
	}
	close(start)
	wg.Wait()
	for g, j := range jobs {
		res := together[g]
		if res.err != nil {
			r.Violate("parallel-writers-interfere", fmt.Sprintf("%d goroutines, each with its own bed and gff writers and readers: goroutine %d, whose records had been written and read alone without error: %v", ng, g, res.err),
				map[string]interface{}{"goroutines": ng, "goroutine": g, "error": res.err.Error()})
			return
		}
		for _, s := range []struct {
			format    string
			got, want []byte
		}{{"bed", res.bedBytes, alone[g].bedBytes}, {"gff", res.gffBytes, alone[g].gffBytes}} {
			if !bytes.Equal(s.got, s.want) {
				at := firstDiff(string(s.got), string(s.want))
				r.Violate("parallel-writers-interfere", fmt.Sprintf("%d goroutines, each with its own bed and gff writers and readers: the %s stream of goroutine %d differs from the same records written alone (first difference at byte %d of %d)", ng, s.format, g, at, len(s.want)),
					map[string]interface{}{"goroutines": ng, "goroutine": g, "format": s.format, "first_difference_at": at, "bytes": len(s.want), "around_alone": string(truncBytes(s.want[at:], 200)), "around_parallel": string(truncBytes(s.got[minInt(at, len(s.got)):], 200))})
				return
			}
		}
		if what := j.check(res); what != "" {
			r.Violate("parallel-readers-interfere", fmt.Sprintf("%d goroutines, each with its own bed and gff writers and readers, streams as written alone: goroutine %d: %s", ng, g, what),
				map[string]interface{}{"goroutines": ng, "goroutine": g, "what": what})
			return
		}
	}
	r.Count("parallel_writer_reader_sets", 1)
	r.Count("parallel_goroutines", int64(ng))
	r.Note(fmt.Sprintf("parallel/%d/%x/%x", ng, hashBytes(alone[0].bedBytes), hashBytes(alone[0].gffBytes)), true)
}

// c02Brief renders a record for a violation's one-line description (the witness holds the whole of it).
func c02Brief(f feat.Feature) string {
	return string(truncBytes([]byte(fmt.Sprintf("%+v", f)), 300))
}
