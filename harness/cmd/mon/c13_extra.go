//go:build verif

package main

import (
	"fmt"
	"os"
	"path/filepath"
	"time"

	"github.com/biogo/biogo/morass"

	"verif/harness/internal/obs"
)

// C13, addition after the second gap review: CleanUp on a sorter that is not at rest. A caller that gives up
// (`if err := m.Push(v); err != nil { m.CleanUp(); return err }`, or a deferred CleanUp on an early return) calls CleanUp
// while a background writer of a concurrent sorter is still between receiving its run and returning its buffer. "After
// CleanUp the sorter's temporary directory no longer exists" - right after the call, and also once the writer has run on.

type c13Early struct {
	W        c12Workload `json:"workload"`
	Handoffs int         `json:"chunks_handed_to_background_writers"`
	X        string      `json:"last_writer_parked_at"`
	// Wait: the caller looks on until the writer is parked before it calls CleanUp (the interleaving is then exact). Without
	// it CleanUp follows the last Push at once and nothing the harness does orders the two goroutines, so that the race
	// detector sees unsynchronised accesses of CleanUp and the writer as what they are.
	Wait bool `json:"caller_waits_until_the_writer_is_parked"`
}

func c13EarlyCleanUp(r *obs.Run, e c13Early) {
	vals := c13Vals(e.W)
	if n := e.W.Chunk*e.Handoffs + 1; n <= len(vals) {
		vals = vals[:n] // the last push is the one that hands chunk number Handoffs to a writer
	}
	scratch := c11Scratch(r)
	defer os.RemoveAll(scratch)
	r.Crumb(fmt.Sprintf("CleanUp with a writer at work %+v", e))
	m, err := morass.New(c11Int(0), "c13", scratch, e.W.Chunk, true)
	if err != nil {
		r.Inconclusive("harness: morass.New: " + err.Error())
		return
	}
	dir := ""
	if ents, _ := os.ReadDir(scratch); len(ents) == 1 {
		dir = filepath.Join(scratch, ents[0].Name())
	}
	if dir == "" {
		r.Count("early_cleanups_without_a_known_directory", 1)
		m.CleanUp()
		return
	}
	// the writer of the last chunk handed off is parked at step X until CleanUp has returned (or for 20 ms)
	ctl := &c12Ctl{callerG: curGID(), writerOf: map[int64]int{}, encSeen: map[int]int{}, chunk: e.W.Chunk, hold: &c12Hold{Writer: e.Handoffs, X: e.X, Y: "cleanup.done"},
		reachedY: make(chan struct{}), reachedX: make(chan struct{}), holdT: 20 * time.Millisecond}
	morass.VerifSetStep(ctl.step)
	defer morass.VerifSetStep(nil)
	w := map[string]interface{}{"plan": e, "values": vals}
	defer func() {
		if p := recover(); p != nil {
			r.Violate("panic", fmt.Sprintf("CleanUp while a background writer is at %s: panic: %v", e.X, p), w)
		}
	}()
	for _, v := range vals {
		if err := m.Push(c11Int(v)); err != nil {
			r.Count("early_cleanups_with_a_push_error", 1)
			break
		}
	}
	for k := 0; e.Wait && k < 75; k++ {
		ctl.mu.Lock()
		there := ctl.parked
		ctl.mu.Unlock()
		if there {
			break
		}
		time.Sleep(200 * time.Microsecond)
	}
	cerr := m.CleanUp()
	_, serr := os.Stat(dir)
	existsAtOnce := serr == nil
	if !e.Wait {
		// the caller keeps away from the harness's own lock until the writer's hold has run out by itself: an
		// unsynchronised access of CleanUp stays unsynchronised with everything the writer does after it
		time.Sleep(25 * time.Millisecond)
	}
	ctl.mu.Lock()
	parked := ctl.parked && !ctl.timedOut
	ctl.signalY("cleanup.done")
	ctl.mu.Unlock()
	// nothing more is asked of the sorter ("after this call the Morass is not usable"); the harness only watches the
	// writers' own steps until every writer that was started has reached its write.return
	finished := false
	for k := 0; k < 15000 && !finished; k++ {
		ctl.mu.Lock()
		finished = ctl.nWriters == ctl.handoffs && ctl.liveWrite == 0
		ctl.mu.Unlock()
		if !finished {
			time.Sleep(200 * time.Microsecond)
		}
	}
	time.Sleep(500 * time.Microsecond)
	_, serr = os.Stat(dir)
	existsLater := serr == nil
	ctl.mu.Lock()
	w["events"] = append([]string(nil), ctl.events...)
	ctl.mu.Unlock()
	r.Count("cleanups_with_a_background_writer_at_work", 1)
	if parked {
		r.Count("cleanups_while_the_writer_was_parked_at_its_step", 1)
	}
	if !finished {
		r.Count("early_cleanups_whose_writers_were_not_seen_to_finish", 1)
	}
	w["cleanup_error"], w["directory_exists_right_after_cleanup"], w["directory_exists_after_the_writers_finished"] = fmt.Sprint(cerr), existsAtOnce, existsLater
	switch {
	case cerr != nil || existsAtOnce:
		r.Violate("cleanup-residue", fmt.Sprintf("CleanUp called while the writer of chunk %d was at %s (workload %+v): it returned %v and the temporary directory exists right after the call: %v", e.Handoffs, e.X, e.W, cerr, existsAtOnce), w)
	case existsLater:
		r.Violate("cleanup-residue", fmt.Sprintf("CleanUp called while the writer of chunk %d was at %s (workload %+v) returned nil and the directory was gone, but once the writer had run on the temporary directory exists again", e.Handoffs, e.X, e.W), w)
	}
	r.Note(fmt.Sprintf("earlycleanup/%+v", e), parked)
}
