package main

import (
	"bufio"
	"fmt"
	"io"
	"math/rand"
	"reflect"
	"strings"
	"sync/atomic"
	"time"

	"github.com/biogo/biogo/alphabet"
	"github.com/biogo/biogo/feat"
	"github.com/biogo/biogo/io/featio/bed"
	"github.com/biogo/biogo/io/featio/gff"
	"github.com/biogo/biogo/seq"
	"github.com/biogo/biogo/seq/linear"

	"verif/harness/internal/obs"
)

// C04 — parsed records do not depend on line layout or terminators.

func init() {
	register(&obs.Monitor{
		ID:    "C04",
		Level: "exploration",
		Rule: "per case one valid file (FASTA, FASTQ, BED3/4/5/6/12 or GFF with features/regions/inline sequences/comments, from the C01/C02 generators) parsed in canonical layout (LF, final newline) and then in 6..14 re-laid-out variants: " +
			"FASTA re-wrapped at widths {1,2,7,60,4095,4096,4097,20000,random}, blank lines at random line boundaries, trailing blanks/tabs, CRLF, no final terminator and products of these; FASTQ CRLF, blank lines between records, trailing blanks, no final terminator; " +
			"BED/GFF all of {LF,CRLF} x {final terminator, none} (GFF also with a last line that only updates the metadata). FASTA/FASTQ additions: white space also VT, FF and a CR that is not part of the terminator; LF and CRLF drawn per line; a last line that keeps a lone CR; 1 case in 4 read through a caller-sized *bufio.Reader (4097..65536 bytes) with line lengths around that size; " +
			"a header-only last record exactly one or two buffers long; headers over 64 KiB; records over 64 KiB re-wrapped at widths beyond 64 KiB together with the other changes. Oracle: record list of every variant equals the canonical list (count included). Non-trivial = variant bytes differ from the canonical bytes and the file has >=1 record; distinct = (format, variant bytes hash)",
		Batches: func(t string) int {
			if t == "thorough" {
				return 16
			}
			return 4
		},
		Cases:       func(r *obs.Run) int { return r.Share(r.Pick(8000, 40000)) },
		Case:        c04Case,
		MinDistinct: func(t string) int { return 4000 },
		Floors: func(string) map[string]int64 {
			return map[string]int64{"variants_compared": 6000, "no_final_terminator_variants": 2500, "crlf_variants": 2500, "long_physical_lines": 60, "rewrapped_variants": 800, "blank_line_variants": 1000,
				"bed_gff_last_line_unterminated": 1000, "gff_last_item_sequence_unterminated": 60,
				"variants_with_lf_and_crlf_mixed": 800, "variants_with_vt_ff_cr_white_space": 2000, "variants_read_through_a_caller_sized_bufio_reader": 2000, "fasta_last_header_exactly_a_buffer_long": 80,
				"unterminated_last_line_fills_a_64KiB_buffer": 20, "lines_over_64KiB_with_other_layout_changes": 20, "gff_last_line_metadata_only_unterminated": 80}
		},
		Assumptions: []string{"'no final terminator' removes exactly the last line terminator of the canonical text", "FASTQ blank lines are inserted only between records"},
	})
}

type c04Layout struct {
	Width   int  `json:"fasta_width,omitempty"`
	CRLF    bool `json:"crlf"`
	NoFinal bool `json:"no_final_terminator"`
	Blanks  int  `json:"blank_lines"`
	Trail   int  `json:"lines_with_trailing_blanks"`
	Mixed   bool `json:"terminator_drawn_per_line,omitempty"`    // every line ends in LF or CRLF on its own
	LoneCR  bool `json:"file_ends_in_a_lone_cr,omitempty"`       // with NoFinal: the last line keeps a CR (trailing white space) but has no LF
	Odd     int  `json:"vt_ff_cr_used_as_white_space,omitempty"` // white space other than blank and tab was used
	BufSize int  `json:"callers_bufio_reader_size,omitempty"`    // the reader is handed a *bufio.Reader of this size
}

// c04Spaces are the strings used as trailing white space and as the content of blank lines: blanks and tabs, and (1
// in 4) the other ASCII white space, vertical tab, form feed and a carriage return that is not part of the terminator.
func c04Space(rng *rand.Rand, lay *c04Layout, blankLine bool) string {
	if rng.Intn(4) == 0 {
		lay.Odd++
		return []string{"\v", "\f", "\r", " \f\t", "\r\r", "\t\v "}[rng.Intn(6)]
	}
	if blankLine {
		return []string{"", "", " ", "\t"}[rng.Intn(4)]
	}
	return []string{" ", "\t", "  \t ", "   "}[rng.Intn(4)]
}

func fastaLines(recs []ioRec, width int) (lines []string, recStart []int) {
	for _, rec := range recs {
		recStart = append(recStart, len(lines))
		h := ">" + rec.Name
		if rec.Desc != "" {
			h += " " + rec.Desc
		}
		lines = append(lines, h)
		for p := 0; p < len(rec.Letters); p += width {
			e := p + width
			if e > len(rec.Letters) {
				e = len(rec.Letters)
			}
			lines = append(lines, rec.Letters[p:e])
		}
	}
	return
}

func fastqLines(recs []ioRec, qid bool, offset int) (lines []string, recStart []int) {
	for _, rec := range recs {
		recStart = append(recStart, len(lines))
		h := rec.Name
		if rec.Desc != "" {
			h += " " + rec.Desc
		}
		q := make([]byte, len(rec.Quals))
		for i := range q {
			q[i] = rec.Quals[i] + byte(offset)
		}
		plus := "+"
		if qid {
			plus += h
		}
		lines = append(lines, "@"+h, rec.Letters, plus, string(q))
	}
	return
}

// layout joins lines. blankAt lists boundaries (index i = before line i; len(lines) = after the last line).
func layoutText(rng *rand.Rand, lines []string, boundaries []int, lay *c04Layout, wantBlanks, wantTrail bool) []byte {
	term := "\n"
	if lay.CRLF {
		term = "\r\n"
	}
	blank := map[int]int{}
	if wantBlanks && len(boundaries) > 0 {
		n := 1 + rng.Intn(4)
		for k := 0; k < n; k++ {
			blank[boundaries[rng.Intn(len(boundaries))]]++
			lay.Blanks++
		}
	}
	var phys []string
	emitBlank := func(i int) {
		for k := 0; k < blank[i]; k++ {
			phys = append(phys, c04Space(rng, lay, true))
		}
	}
	for i, ln := range lines {
		emitBlank(i)
		if wantTrail && rng.Intn(3) == 0 {
			ln += c04Space(rng, lay, false)
			lay.Trail++
		}
		phys = append(phys, ln)
	}
	emitBlank(len(lines))
	var sb strings.Builder
	for i, ln := range phys {
		sb.WriteString(ln)
		t := term
		if lay.Mixed {
			t = []string{"\n", "\r\n"}[rng.Intn(2)]
		}
		if i == len(phys)-1 && lay.NoFinal {
			t = ""
			if lay.LoneCR {
				t = "\r"
			}
		}
		sb.WriteString(t)
	}
	return []byte(sb.String())
}

func c04ReadFeatures(rng *rand.Rand, kind string, data []byte, max int) ([]interface{}, error) {
	var read func() (feat.Feature, error)
	if kind == "gff" {
		rd := gff.NewReader(newSrc(rng, data))
		read = rd.Read
	} else {
		n := map[string]int{"bed3": 3, "bed4": 4, "bed5": 5, "bed6": 6, "bed12": 12}[kind]
		rd, err := bed.NewReader(newSrc(rng, data), n)
		if err != nil {
			return nil, err
		}
		read = rd.Read
	}
	var out []interface{}
	for {
		f, err := read()
		if err != nil {
			if err == io.EOF {
				return out, nil
			}
			return out, err
		}
		switch v := f.(type) {
		case *gff.Feature:
			out = append(out, gffNormalise(v))
		case seq.Sequence:
			rec := seqToRec(v, false)
			rec.Desc = ""
			out = append(out, rec)
		default:
			out = append(out, f)
		}
		if len(out) > max {
			return out, fmt.Errorf("more than %d records", max)
		}
	}
}

func c04Case(r *obs.Run, i int) {
	rng := r.Rng
	roomyBefore := atomic.LoadInt64(&ioRoomyTemplates)
	defer func() {
		r.Count("reader_templates_with_spare_capacity", atomic.LoadInt64(&ioRoomyTemplates)-roomyBefore)
	}()
	w := map[string]interface{}{}
	fail := func(class, what string) {
		w["what"] = what
		r.Violate(class, what, w)
	}
	defer func() {
		if e := recover(); e != nil {
			fail("panic", fmt.Sprintf("panic: %v", e))
		}
	}()
	kind := []string{"fasta", "fasta", "fastq", "fastq", "bed3", "bed4", "bed5", "bed6", "bed12", "gff", "gff", "gff"}[rng.Intn(12)]
	w["format"] = kind
	note := func(data []byte, canonical []byte, nrec int) {
		r.Note(fmt.Sprintf("%s/%x/%d", kind, hashBytes(data), len(data)), nrec > 0 && string(data) != string(canonical))
	}

	switch kind {
	case "fasta", "fastq":
		al := ioAlphas[rng.Intn(len(ioAlphas))]
		enc := ioPhredEncs[rng.Intn(len(ioPhredEncs))]
		nrec := 1 + rng.Intn(4)
		if rng.Intn(30) == 0 {
			nrec = 0
		}
		var recs []ioRec
		for k := 0; k < nrec; k++ {
			n := genLen(rng, 60, rng.Intn(5) == 0)
			rec := ioRec{Name: genName(rng), Desc: genDesc(rng), Letters: genLetters(rng, al.a, n)}
			if kind == "fastq" {
				rec.Quals = genQuals(rng, enc, n)
			}
			recs = append(recs, rec)
		}
		// 1 case in 4: the reader is handed a *bufio.Reader of the caller's own size (it then works with that buffer,
		// whatever size it would have chosen itself), and the boundary material is placed around that size
		bufS, bufUnit := 0, 4096
		if rng.Intn(4) == 0 {
			bufS = []int{4097, 5000, 8192, 4097 + rng.Intn(8000), 5000, 8192, 12288, 65536}[rng.Intn(8)]
			bufUnit = bufS
			if nrec > 0 {
				n := []int{bufS - 1, bufS, bufS + 1, bufS}[rng.Intn(4)]
				if bufS < 20000 && rng.Intn(4) == 0 {
					n = 2 * bufS
				}
				last := &recs[nrec-1]
				last.Letters = genLetters(rng, al.a, n)
				if kind == "fastq" {
					last.Quals = genQuals(rng, enc, n)
				}
			}
		}
		// a last record that is a header line only, exactly one or two buffers long (the unterminated last line of the
		// file is then a header that ends where a buffer does)
		if kind == "fasta" && nrec > 0 && rng.Intn(12) == 0 {
			size := bufUnit * (1 + rng.Intn(2))
			if size > 70000 {
				size = bufUnit
			}
			printable := func(n int) []byte {
				b := make([]byte, n)
				for i := range b {
					b[i] = byte(33 + rng.Intn(94))
				}
				return b
			}
			last := ioRec{}
			if rng.Intn(2) == 0 {
				last.Name = string(printable(size - 1))
			} else {
				last.Name = string(printable(10))
				d := printable(size - 12)
				for k := 0; k < len(d)/9; k++ { // inner blanks and tabs; the ends stay printable
					d[1+rng.Intn(len(d)-2)] = " \t"[rng.Intn(2)]
				}
				last.Desc = string(d)
			}
			recs[nrec-1] = last
		}
		// now and then a header line longer than 64 KiB
		if nrec > 0 && rng.Intn(150) == 0 {
			b := make([]byte, 65530+rng.Intn(9000))
			for i := range b {
				b[i] = byte(33 + rng.Intn(94))
			}
			recs[rng.Intn(nrec)].Name = string(b)
			r.Count("files_with_a_header_over_64KiB", 1)
		}
		var rb []interface{}
		for _, rec := range recs {
			rb = append(rb, rec.brief())
		}
		w["records"] = rb
		w["alphabet"] = al.name
		qid := rng.Intn(2) == 0
		build := func(lay *c04Layout, blanks, trail bool) []byte {
			if kind == "fasta" {
				lines, _ := fastaLines(recs, lay.Width)
				var bnd []int
				for b := 0; b <= len(lines); b++ {
					bnd = append(bnd, b)
				}
				return layoutText(rng, lines, bnd, lay, blanks, trail)
			}
			lines, starts := fastqLines(recs, qid, phredOffset(enc))
			bnd := append(append([]int(nil), starts...), len(lines))
			return layoutText(rng, lines, bnd, lay, blanks, trail)
		}
		parse := func(data []byte) ([]ioRec, error) {
			var got []seq.Sequence
			var err error
			if bufS > 0 {
				src := bufio.NewReaderSize(newSrc(rng, data), bufS)
				if kind == "fasta" {
					got, err, _ = readAllFastaFrom(src, ioTemplate(rng, al.a, rng.Intn(2) == 0, alphabet.Sanger), nrec+3)
				} else {
					got, err, _ = readAllFastqFrom(src, ioTemplate(rng, al.a, true, enc), nrec+3)
				}
			} else if kind == "fasta" {
				got, err, _ = readAllFasta(rng, data, al.a, nrec+3)
			} else {
				got, err, _ = readAllFastq(rng, data, al.a, enc, false, nrec+3)
			}
			var out []ioRec
			for _, s := range got {
				out = append(out, seqToRec(s, kind == "fastq"))
			}
			return out, err
		}
		canonLay := &c04Layout{Width: 60}
		canon := build(canonLay, false, false)
		cref, err := parse(canon)
		if err != nil {
			fail("canonical-read-error", "canonical layout does not parse: "+err.Error())
			return
		}
		if len(cref) != len(recs) {
			fail("canonical-differs", fmt.Sprintf("canonical layout parses to %d records, generated %d", len(cref), len(recs)))
			return
		}
		for k := range recs {
			if d := recEqual(recs[k], cref[k], kind == "fastq"); d != "" {
				fail("canonical-differs", fmt.Sprintf("canonical layout, record %d: %s", k, d))
				return
			}
		}
		nvar := 6 + rng.Intn(9)
		widths := []int{1, 2, 7, 60, 4095, 4096, 4097, 20000, 1 + rng.Intn(300), 1 + rng.Intn(20000)}
		type plan struct {
			lay           c04Layout
			blanks, trail bool
		}
		var extra []plan
		if bufS > 0 {
			widths = append(widths, bufS-1, bufS, bufS+1, bufS)
			if kind == "fasta" {
				extra = append(extra, plan{lay: c04Layout{Width: bufS, NoFinal: true, CRLF: rng.Intn(2) == 0}})
			}
		}
		longest := 0
		for _, rec := range recs {
			longest = maxInt(longest, len(rec.Letters))
		}
		if longest > 65536 && kind == "fasta" {
			// "re-wrapping at any width": physical lines beyond 64 KiB together with the other layout changes
			widths = append(widths, longest, longest+5, 65535, 65536, 65537, 131072)
			extra = append(extra, plan{lay: c04Layout{Width: []int{longest, 65535, 65536, 65537, 131072}[rng.Intn(5)], CRLF: rng.Intn(2) == 0, NoFinal: rng.Intn(2) == 0, Mixed: rng.Intn(4) == 0},
				blanks: rng.Intn(2) == 0, trail: true})
		}
		for v := 0; v < nvar+len(extra); v++ {
			lay := &c04Layout{Width: 60}
			blanks, trail := false, false
			if v >= nvar {
				*lay, blanks, trail = extra[v-nvar].lay, extra[v-nvar].blanks, extra[v-nvar].trail
			}
			switch v {
			case 0:
				lay.NoFinal = true
			case 1:
				lay.CRLF = true
			case 2:
				lay.CRLF, lay.NoFinal = true, true
			case 3:
				blanks = true
			case 4:
				trail = true
			case 5:
				lay.Width = widths[rng.Intn(len(widths))]
			default:
				if v >= nvar {
					break
				}
				lay.Width = widths[rng.Intn(len(widths))]
				lay.CRLF, lay.NoFinal = rng.Intn(2) == 0, rng.Intn(2) == 0
				blanks, trail = rng.Intn(2) == 0, rng.Intn(2) == 0
				// every line draws LF or CRLF for itself; a file that lost only the LF of its last CRLF
				lay.Mixed = rng.Intn(4) == 0
				lay.LoneCR = lay.NoFinal && rng.Intn(3) == 0
			}
			if kind == "fastq" {
				lay.Width = 0
			}
			lay.BufSize = bufS
			data := build(lay, blanks, trail)
			w["layout"] = lay
			got, err := parse(data)
			if err != nil {
				w["variant_head"] = string(truncBytes(data, 400))
				fail("variant-read-error", fmt.Sprintf("%s variant %+v: reader returned %v after %d records", kind, *lay, err, len(got)))
				return
			}
			if len(got) != len(cref) {
				w["variant_head"] = string(truncBytes(data, 400))
				fail("variant-record-count", fmt.Sprintf("%s variant %+v yields %d records, canonical layout %d", kind, *lay, len(got), len(cref)))
				return
			}
			for k := range cref {
				if d := recEqual(cref[k], got[k], kind == "fastq"); d != "" {
					w["variant_head"] = string(truncBytes(data, 400))
					fail("variant-differs", fmt.Sprintf("%s variant %+v, record %d: %s", kind, *lay, k, d))
					return
				}
			}
			r.Count("variants_compared", 1)
			if lay.NoFinal {
				r.Count("no_final_terminator_variants", 1)
			}
			if lay.CRLF {
				r.Count("crlf_variants", 1)
			}
			if lay.Blanks > 0 {
				r.Count("blank_line_variants", 1)
			}
			if lay.Mixed {
				r.Count("variants_with_lf_and_crlf_mixed", 1)
			}
			if lay.LoneCR && len(data) > 0 {
				r.Count("variants_ending_in_a_lone_cr", 1)
			}
			if lay.Odd > 0 {
				r.Count("variants_with_vt_ff_cr_white_space", 1)
			}
			if bufS > 0 {
				r.Count("variants_read_through_a_caller_sized_bufio_reader", 1)
			}
			if lay.NoFinal && !lay.LoneCR {
				if ll := len(data) - 1 - strings.LastIndexByte(string(data), '\n'); ll > 0 && ll%bufUnit == 0 {
					r.Count("unterminated_last_line_fills_the_read_buffer", 1)
					if bufS > 0 {
						r.Count("unterminated_last_line_fills_the_callers_buffer", 1)
					}
					if bufS == 65536 {
						r.Count("unterminated_last_line_fills_a_64KiB_buffer", 1)
					}
					if kind == "fasta" && data[len(data)-ll] == '>' {
						r.Count("fasta_last_header_exactly_a_buffer_long", 1)
					}
				}
			}
			if kind == "fasta" && lay.Width > 65536 && longest > 65536 && (lay.CRLF || lay.NoFinal || lay.Mixed || lay.Blanks > 0 || lay.Trail > 0) {
				r.Count("lines_over_64KiB_with_other_layout_changes", 1)
			}
			if kind == "fasta" && lay.Width != 60 {
				r.Count("rewrapped_variants", 1)
				for _, rec := range recs {
					if lay.Width > 4096 && len(rec.Letters) > 4096 {
						r.Count("long_physical_lines", 1)
						break
					}
				}
			}
			note(data, canon, nrec)
		}
		if r.WantSample() && len(canon) < 300 && nrec > 0 {
			w["canonical"] = string(canon)
			r.Sample(w)
		}
	default: // bed*, gff from the real writers
		cw := &countingWriter{}
		lastIsSeq, lastIsMeta := false, false
		var desc []string
		if kind == "gff" {
			gw := gff.NewWriter(cw, 1+rng.Intn(70), rng.Intn(2) == 0)
			n := 1 + rng.Intn(5)
			for k := 0; k < n; k++ {
				lastIsSeq, lastIsMeta = false, false
				switch c := rng.Intn(11); {
				case c < 5:
					f := genGFF(rng)
					gw.Write(f)
					desc = append(desc, "feature "+gffBrief(f))
				case c < 7:
					if rng.Intn(2) == 0 { // a ##Type line first: the region then carries that type (its token ends the line)
						t := feat.Moltype(rng.Intn(4) - 1)
						if rng.Intn(2) == 0 {
							gw.WriteMetaData(t)
						} else {
							gw.WriteMetaData(gff.Sequence{SeqName: genNoSpace(rng), Type: t})
						}
						desc = append(desc, "##Type "+t.String())
					}
					reg := &gff.Region{Sequence: gff.Sequence{SeqName: genNoSpace(rng)}, RegionStart: rng.Intn(1000), RegionEnd: 1000 + rng.Intn(1000)}
					gw.Write(reg)
					desc = append(desc, fmt.Sprintf("region %+v", *reg))
				case c < 9:
					al := []alphabet.Alphabet{alphabet.DNA, alphabet.RNA, alphabet.Protein}[rng.Intn(3)]
					sq := linear.NewSeq(genNoSpace(rng), alphabet.BytesToLetters([]byte(genLetters(rng, al, 1+rng.Intn(200)))), al)
					gw.Write(sq)
					lastIsSeq = true
					desc = append(desc, fmt.Sprintf("sequence %q (%d letters)", sq.ID, sq.Len()))
				case c == 10: // a line that only updates the reader's metadata (it may be the last line of the file)
					lastIsMeta = true
					switch rng.Intn(3) {
					case 0:
						sv := genNoSpace(rng) + " " + genNoSpace(rng)
						gw.WriteMetaData("source-version " + sv)
						desc = append(desc, "##source-version "+sv)
					case 1:
						d := time.Date(1+rng.Intn(9998), time.Month(1+rng.Intn(12)), 1+rng.Intn(28), 0, 0, 0, 0, time.UTC)
						gw.WriteMetaData(d)
						desc = append(desc, "##date "+d.Format("2006-1-02"))
					default:
						t := feat.Moltype(rng.Intn(4) - 1)
						gw.WriteMetaData(t)
						desc = append(desc, "##Type "+t.String())
					}
				default:
					c := genField(rng, true)
					gw.WriteComment(c)
					desc = append(desc, "comment "+c)
				}
			}
		} else {
			n := map[string]int{"bed3": 3, "bed4": 4, "bed5": 5, "bed6": 6, "bed12": 12}[kind]
			bw, _ := bed.NewWriter(cw, n)
			for k := 0; k < 1+rng.Intn(4); k++ {
				f := genBed(rng, n)
				bw.Write(f)
				desc = append(desc, fmt.Sprintf("%+v", f))
			}
		}
		// now and then one more record whose line, without its terminator, is exactly one or two read buffers long: as the
		// unterminated last line of the file it ends exactly where a buffer does
		if rng.Intn(8) == 0 {
			render := func(pad int) []byte {
				tw := &countingWriter{}
				filler := strings.Repeat("x", pad)
				if kind == "gff" {
					f := &gff.Feature{SeqName: "s" + filler, Source: "src", Feature: "f", FeatStart: 3, FeatEnd: 9, FeatFrame: gff.NoFrame}
					gff.NewWriter(tw, 60, false).Write(f)
				} else {
					n := map[string]int{"bed3": 3, "bed4": 4, "bed5": 5, "bed6": 6, "bed12": 12}[kind]
					f := genBed(rand.New(rand.NewSource(7)), n)
					switch b := f.(type) {
					case *bed.Bed3:
						b.Chrom = "c" + filler
					case *bed.Bed4:
						b.Chrom = "c" + filler
					case *bed.Bed5:
						b.Chrom = "c" + filler
					case *bed.Bed6:
						b.Chrom = "c" + filler
					case *bed.Bed12:
						b.Chrom = "c" + filler
					}
					bw, _ := bed.NewWriter(tw, n)
					bw.Write(f)
				}
				return append([]byte(nil), tw.buf.Bytes()...)
			}
			base := len(render(0)) - 1
			target := 4096 * (1 + rng.Intn(2))
			for target < base {
				target += 4096
			}
			last := render(target - base)
			if len(last)-1 == target {
				cw.buf.Write(last)
				lastIsSeq, lastIsMeta = false, false
				desc = append(desc, fmt.Sprintf("a last record whose line is %d bytes long", target))
				r.Count("last_lines_exactly_a_buffer_long", 1)
			}
		}
		w["items"] = desc
		canon := append([]byte(nil), cw.buf.Bytes()...)
		w["canonical"] = string(canon)
		cref, err := c04ReadFeatures(rng, kind, canon, 20)
		if err != nil {
			fail("canonical-read-error", "canonical layout does not parse: "+err.Error())
			return
		}
		for v := 0; v < 3; v++ {
			lay := &c04Layout{CRLF: v >= 1, NoFinal: v == 0 || v == 2}
			data := canon
			if lay.NoFinal {
				data = data[:len(data)-1]
			}
			if lay.CRLF {
				data = []byte(strings.ReplaceAll(string(data), "\n", "\r\n"))
			}
			w["layout"] = lay
			got, err := c04ReadFeatures(rng, kind, data, 20)
			if err != nil {
				fail("variant-read-error", fmt.Sprintf("%s variant %+v: reader returned %v after %d records", kind, *lay, err, len(got)))
				return
			}
			if len(got) != len(cref) {
				fail("variant-record-count", fmt.Sprintf("%s variant %+v yields %d records, canonical layout %d", kind, *lay, len(got), len(cref)))
				return
			}
			for k := range cref {
				if !reflect.DeepEqual(cref[k], got[k]) {
					fail("variant-differs", fmt.Sprintf("%s variant %+v, record %d: %+v != %+v", kind, *lay, k, got[k], cref[k]))
					return
				}
			}
			r.Count("variants_compared", 1)
			if lay.NoFinal {
				r.Count("no_final_terminator_variants", 1)
				r.Count("bed_gff_last_line_unterminated", 1)
				if lastIsSeq {
					r.Count("gff_last_item_sequence_unterminated", 1)
				}
				if lastIsMeta {
					r.Count("gff_last_line_metadata_only_unterminated", 1)
				}
			}
			if lay.CRLF {
				r.Count("crlf_variants", 1)
			}
			note(data, canon, len(cref))
		}
		if r.WantSample() && len(canon) < 250 {
			r.Sample(w)
		}
	}
}
