package main

import (
	"fmt"
	"io"
	"math/rand"
	"reflect"
	"strings"
	"sync/atomic"

	"github.com/biogo/biogo/alphabet"
	"github.com/biogo/biogo/feat"
	"github.com/biogo/biogo/io/featio/bed"
	"github.com/biogo/biogo/io/featio/gff"
	"github.com/biogo/biogo/seq"
	"github.com/biogo/biogo/seq/linear"

	"verif/harness/internal/obs"
)

// C04 — parsed records do not depend on line layout or terminators.

func init() {
	register(&obs.Monitor{
		ID:    "C04",
		Level: "exploration",
		Rule: "per case one valid file (FASTA, FASTQ, BED3/4/5/6/12 or GFF with features/regions/inline sequences/comments, from the C01/C02 generators) parsed in canonical layout (LF, final newline) and then in 6..14 re-laid-out variants: " +
			"FASTA re-wrapped at widths {1,2,7,60,4095,4096,4097,20000,random}, blank lines at random line boundaries, trailing blanks/tabs, CRLF, no final terminator and products of these; FASTQ CRLF, blank lines between records, trailing blanks, no final terminator; " +
			"BED/GFF all of {LF,CRLF} x {final terminator, none}. Oracle: record list of every variant equals the canonical list (count included). Non-trivial = variant bytes differ from the canonical bytes and the file has >=1 record; distinct = (format, variant bytes hash)",
		Batches: func(t string) int {
			if t == "thorough" {
				return 16
			}
			return 4
		},
		Cases:       func(r *obs.Run) int { return r.Share(r.Pick(8000, 40000)) },
		Case:        c04Case,
		MinDistinct: func(t string) int { return 4000 },
		Floors: func(string) map[string]int64 {
			return map[string]int64{"variants_compared": 6000, "no_final_terminator_variants": 2500, "crlf_variants": 2500, "long_physical_lines": 60, "rewrapped_variants": 800, "blank_line_variants": 1000,
				"bed_gff_last_line_unterminated": 1000, "gff_last_item_sequence_unterminated": 60}
		},
		Assumptions: []string{"'no final terminator' removes exactly the last line terminator of the canonical text", "FASTQ blank lines are inserted only between records"},
	})
}

type c04Layout struct {
	Width   int  `json:"fasta_width,omitempty"`
	CRLF    bool `json:"crlf"`
	NoFinal bool `json:"no_final_terminator"`
	Blanks  int  `json:"blank_lines"`
	Trail   int  `json:"lines_with_trailing_blanks"`
}

func fastaLines(recs []ioRec, width int) (lines []string, recStart []int) {
	for _, rec := range recs {
		recStart = append(recStart, len(lines))
		h := ">" + rec.Name
		if rec.Desc != "" {
			h += " " + rec.Desc
		}
		lines = append(lines, h)
		for p := 0; p < len(rec.Letters); p += width {
			e := p + width
			if e > len(rec.Letters) {
				e = len(rec.Letters)
			}
			lines = append(lines, rec.Letters[p:e])
		}
	}
	return
}

func fastqLines(recs []ioRec, qid bool, offset int) (lines []string, recStart []int) {
	for _, rec := range recs {
		recStart = append(recStart, len(lines))
		h := rec.Name
		if rec.Desc != "" {
			h += " " + rec.Desc
		}
		q := make([]byte, len(rec.Quals))
		for i := range q {
			q[i] = rec.Quals[i] + byte(offset)
		}
		plus := "+"
		if qid {
			plus += h
		}
		lines = append(lines, "@"+h, rec.Letters, plus, string(q))
	}
	return
}

// layout joins lines. blankAt lists boundaries (index i = before line i; len(lines) = after the last line).
func layoutText(rng *rand.Rand, lines []string, boundaries []int, lay *c04Layout, wantBlanks, wantTrail bool) []byte {
	term := "\n"
	if lay.CRLF {
		term = "\r\n"
	}
	blank := map[int]int{}
	if wantBlanks && len(boundaries) > 0 {
		n := 1 + rng.Intn(4)
		for k := 0; k < n; k++ {
			blank[boundaries[rng.Intn(len(boundaries))]]++
			lay.Blanks++
		}
	}
	var phys []string
	emitBlank := func(i int) {
		for k := 0; k < blank[i]; k++ {
			phys = append(phys, []string{"", "", " ", "\t"}[rng.Intn(4)])
		}
	}
	for i, ln := range lines {
		emitBlank(i)
		if wantTrail && rng.Intn(3) == 0 {
			ln += []string{" ", "\t", "  \t ", "   "}[rng.Intn(4)]
			lay.Trail++
		}
		phys = append(phys, ln)
	}
	emitBlank(len(lines))
	var sb strings.Builder
	sb.WriteString(strings.Join(phys, term))
	if !lay.NoFinal && len(phys) > 0 {
		sb.WriteString(term)
	}
	return []byte(sb.String())
}

func c04ReadFeatures(rng *rand.Rand, kind string, data []byte, max int) ([]interface{}, error) {
	var read func() (feat.Feature, error)
	if kind == "gff" {
		rd := gff.NewReader(newSrc(rng, data))
		read = rd.Read
	} else {
		n := map[string]int{"bed3": 3, "bed4": 4, "bed5": 5, "bed6": 6, "bed12": 12}[kind]
		rd, err := bed.NewReader(newSrc(rng, data), n)
		if err != nil {
			return nil, err
		}
		read = rd.Read
	}
	var out []interface{}
	for {
		f, err := read()
		if err != nil {
			if err == io.EOF {
				return out, nil
			}
			return out, err
		}
		switch v := f.(type) {
		case *gff.Feature:
			out = append(out, gffNormalise(v))
		case seq.Sequence:
			rec := seqToRec(v, false)
			rec.Desc = ""
			out = append(out, rec)
		default:
			out = append(out, f)
		}
		if len(out) > max {
			return out, fmt.Errorf("more than %d records", max)
		}
	}
}

func c04Case(r *obs.Run, i int) {
	rng := r.Rng
	roomyBefore := atomic.LoadInt64(&ioRoomyTemplates)
	defer func() {
		r.Count("reader_templates_with_spare_capacity", atomic.LoadInt64(&ioRoomyTemplates)-roomyBefore)
	}()
	w := map[string]interface{}{}
	fail := func(class, what string) {
		w["what"] = what
		r.Violate(class, what, w)
	}
	defer func() {
		if e := recover(); e != nil {
			fail("panic", fmt.Sprintf("panic: %v", e))
		}
	}()
	kind := []string{"fasta", "fasta", "fastq", "fastq", "bed3", "bed4", "bed5", "bed6", "bed12", "gff", "gff", "gff"}[rng.Intn(12)]
	w["format"] = kind
	note := func(data []byte, canonical []byte, nrec int) {
		r.Note(fmt.Sprintf("%s/%x/%d", kind, hashBytes(data), len(data)), nrec > 0 && string(data) != string(canonical))
	}

	switch kind {
	case "fasta", "fastq":
		al := ioAlphas[rng.Intn(len(ioAlphas))]
		enc := ioPhredEncs[rng.Intn(len(ioPhredEncs))]
		nrec := 1 + rng.Intn(4)
		if rng.Intn(30) == 0 {
			nrec = 0
		}
		var recs []ioRec
		for k := 0; k < nrec; k++ {
			n := genLen(rng, 60, rng.Intn(5) == 0)
			rec := ioRec{Name: genName(rng), Desc: genDesc(rng), Letters: genLetters(rng, al.a, n)}
			if kind == "fastq" {
				rec.Quals = genQuals(rng, enc, n)
			}
			recs = append(recs, rec)
		}
		var rb []interface{}
		for _, rec := range recs {
			rb = append(rb, rec.brief())
		}
		w["records"] = rb
		w["alphabet"] = al.name
		qid := rng.Intn(2) == 0
		build := func(lay *c04Layout, blanks, trail bool) []byte {
			if kind == "fasta" {
				lines, _ := fastaLines(recs, lay.Width)
				var bnd []int
				for b := 0; b <= len(lines); b++ {
					bnd = append(bnd, b)
				}
				return layoutText(rng, lines, bnd, lay, blanks, trail)
			}
			lines, starts := fastqLines(recs, qid, phredOffset(enc))
			bnd := append(append([]int(nil), starts...), len(lines))
			return layoutText(rng, lines, bnd, lay, blanks, trail)
		}
		parse := func(data []byte) ([]ioRec, error) {
			var got []seq.Sequence
			var err error
			if kind == "fasta" {
				got, err, _ = readAllFasta(rng, data, al.a, nrec+3)
			} else {
				got, err, _ = readAllFastq(rng, data, al.a, enc, false, nrec+3)
			}
			var out []ioRec
			for _, s := range got {
				out = append(out, seqToRec(s, kind == "fastq"))
			}
			return out, err
		}
		canonLay := &c04Layout{Width: 60}
		canon := build(canonLay, false, false)
		cref, err := parse(canon)
		if err != nil {
			fail("canonical-read-error", "canonical layout does not parse: "+err.Error())
			return
		}
		if len(cref) != len(recs) {
			fail("canonical-differs", fmt.Sprintf("canonical layout parses to %d records, generated %d", len(cref), len(recs)))
			return
		}
		for k := range recs {
			if d := recEqual(recs[k], cref[k], kind == "fastq"); d != "" {
				fail("canonical-differs", fmt.Sprintf("canonical layout, record %d: %s", k, d))
				return
			}
		}
		nvar := 6 + rng.Intn(9)
		widths := []int{1, 2, 7, 60, 4095, 4096, 4097, 20000, 1 + rng.Intn(300), 1 + rng.Intn(20000)}
		for v := 0; v < nvar; v++ {
			lay := &c04Layout{Width: 60}
			blanks, trail := false, false
			switch v {
			case 0:
				lay.NoFinal = true
			case 1:
				lay.CRLF = true
			case 2:
				lay.CRLF, lay.NoFinal = true, true
			case 3:
				blanks = true
			case 4:
				trail = true
			case 5:
				lay.Width = widths[rng.Intn(len(widths))]
			default:
				lay.Width = widths[rng.Intn(len(widths))]
				lay.CRLF, lay.NoFinal = rng.Intn(2) == 0, rng.Intn(2) == 0
				blanks, trail = rng.Intn(2) == 0, rng.Intn(2) == 0
			}
			if kind == "fastq" {
				lay.Width = 0
			}
			data := build(lay, blanks, trail)
			w["layout"] = lay
			got, err := parse(data)
			if err != nil {
				w["variant_head"] = string(truncBytes(data, 400))
				fail("variant-read-error", fmt.Sprintf("%s variant %+v: reader returned %v after %d records", kind, *lay, err, len(got)))
				return
			}
			if len(got) != len(cref) {
				w["variant_head"] = string(truncBytes(data, 400))
				fail("variant-record-count", fmt.Sprintf("%s variant %+v yields %d records, canonical layout %d", kind, *lay, len(got), len(cref)))
				return
			}
			for k := range cref {
				if d := recEqual(cref[k], got[k], kind == "fastq"); d != "" {
					w["variant_head"] = string(truncBytes(data, 400))
					fail("variant-differs", fmt.Sprintf("%s variant %+v, record %d: %s", kind, *lay, k, d))
					return
				}
			}
			r.Count("variants_compared", 1)
			if lay.NoFinal {
				r.Count("no_final_terminator_variants", 1)
			}
			if lay.CRLF {
				r.Count("crlf_variants", 1)
			}
			if lay.Blanks > 0 {
				r.Count("blank_line_variants", 1)
			}
			if kind == "fasta" && lay.Width != 60 {
				r.Count("rewrapped_variants", 1)
				for _, rec := range recs {
					if lay.Width > 4096 && len(rec.Letters) > 4096 {
						r.Count("long_physical_lines", 1)
						break
					}
				}
			}
			note(data, canon, nrec)
		}
		if r.WantSample() && len(canon) < 300 && nrec > 0 {
			w["canonical"] = string(canon)
			r.Sample(w)
		}
	default: // bed*, gff from the real writers
		cw := &countingWriter{}
		lastIsSeq := false
		var desc []string
		if kind == "gff" {
			gw := gff.NewWriter(cw, 1+rng.Intn(70), rng.Intn(2) == 0)
			n := 1 + rng.Intn(5)
			for k := 0; k < n; k++ {
				lastIsSeq = false
				switch c := rng.Intn(10); {
				case c < 5:
					f := genGFF(rng)
					gw.Write(f)
					desc = append(desc, "feature "+gffBrief(f))
				case c < 7:
					if rng.Intn(2) == 0 { // a ##Type line first: the region then carries that type (its token ends the line)
						t := feat.Moltype(rng.Intn(4) - 1)
						if rng.Intn(2) == 0 {
							gw.WriteMetaData(t)
						} else {
							gw.WriteMetaData(gff.Sequence{SeqName: genNoSpace(rng), Type: t})
						}
						desc = append(desc, "##Type "+t.String())
					}
					reg := &gff.Region{Sequence: gff.Sequence{SeqName: genNoSpace(rng)}, RegionStart: rng.Intn(1000), RegionEnd: 1000 + rng.Intn(1000)}
					gw.Write(reg)
					desc = append(desc, fmt.Sprintf("region %+v", *reg))
				case c < 9:
					al := []alphabet.Alphabet{alphabet.DNA, alphabet.RNA, alphabet.Protein}[rng.Intn(3)]
					sq := linear.NewSeq(genNoSpace(rng), alphabet.BytesToLetters([]byte(genLetters(rng, al, 1+rng.Intn(200)))), al)
					gw.Write(sq)
					lastIsSeq = true
					desc = append(desc, fmt.Sprintf("sequence %q (%d letters)", sq.ID, sq.Len()))
				default:
					c := genField(rng, true)
					gw.WriteComment(c)
					desc = append(desc, "comment "+c)
				}
			}
		} else {
			n := map[string]int{"bed3": 3, "bed4": 4, "bed5": 5, "bed6": 6, "bed12": 12}[kind]
			bw, _ := bed.NewWriter(cw, n)
			for k := 0; k < 1+rng.Intn(4); k++ {
				f := genBed(rng, n)
				bw.Write(f)
				desc = append(desc, fmt.Sprintf("%+v", f))
			}
		}
		// now and then one more record whose line, without its terminator, is exactly one or two read buffers long: as the
		// unterminated last line of the file it ends exactly where a buffer does
		if rng.Intn(8) == 0 {
			render := func(pad int) []byte {
				tw := &countingWriter{}
				filler := strings.Repeat("x", pad)
				if kind == "gff" {
					f := &gff.Feature{SeqName: "s" + filler, Source: "src", Feature: "f", FeatStart: 3, FeatEnd: 9, FeatFrame: gff.NoFrame}
					gff.NewWriter(tw, 60, false).Write(f)
				} else {
					n := map[string]int{"bed3": 3, "bed4": 4, "bed5": 5, "bed6": 6, "bed12": 12}[kind]
					f := genBed(rand.New(rand.NewSource(7)), n)
					switch b := f.(type) {
					case *bed.Bed3:
						b.Chrom = "c" + filler
					case *bed.Bed4:
						b.Chrom = "c" + filler
					case *bed.Bed5:
						b.Chrom = "c" + filler
					case *bed.Bed6:
						b.Chrom = "c" + filler
					case *bed.Bed12:
						b.Chrom = "c" + filler
					}
					bw, _ := bed.NewWriter(tw, n)
					bw.Write(f)
				}
				return append([]byte(nil), tw.buf.Bytes()...)
			}
			base := len(render(0)) - 1
			target := 4096 * (1 + rng.Intn(2))
			for target < base {
				target += 4096
			}
			last := render(target - base)
			if len(last)-1 == target {
				cw.buf.Write(last)
				lastIsSeq = false
				desc = append(desc, fmt.Sprintf("a last record whose line is %d bytes long", target))
				r.Count("last_lines_exactly_a_buffer_long", 1)
			}
		}
		w["items"] = desc
		canon := append([]byte(nil), cw.buf.Bytes()...)
		w["canonical"] = string(canon)
		cref, err := c04ReadFeatures(rng, kind, canon, 20)
		if err != nil {
			fail("canonical-read-error", "canonical layout does not parse: "+err.Error())
			return
		}
		for v := 0; v < 3; v++ {
			lay := &c04Layout{CRLF: v >= 1, NoFinal: v == 0 || v == 2}
			data := canon
			if lay.NoFinal {
				data = data[:len(data)-1]
			}
			if lay.CRLF {
				data = []byte(strings.ReplaceAll(string(data), "\n", "\r\n"))
			}
			w["layout"] = lay
			got, err := c04ReadFeatures(rng, kind, data, 20)
			if err != nil {
				fail("variant-read-error", fmt.Sprintf("%s variant %+v: reader returned %v after %d records", kind, *lay, err, len(got)))
				return
			}
			if len(got) != len(cref) {
				fail("variant-record-count", fmt.Sprintf("%s variant %+v yields %d records, canonical layout %d", kind, *lay, len(got), len(cref)))
				return
			}
			for k := range cref {
				if !reflect.DeepEqual(cref[k], got[k]) {
					fail("variant-differs", fmt.Sprintf("%s variant %+v, record %d: %+v != %+v", kind, *lay, k, got[k], cref[k]))
					return
				}
			}
			r.Count("variants_compared", 1)
			if lay.NoFinal {
				r.Count("no_final_terminator_variants", 1)
				r.Count("bed_gff_last_line_unterminated", 1)
				if lastIsSeq {
					r.Count("gff_last_item_sequence_unterminated", 1)
				}
			}
			if lay.CRLF {
				r.Count("crlf_variants", 1)
			}
			note(data, canon, len(cref))
		}
		if r.WantSample() && len(canon) < 250 {
			r.Sample(w)
		}
	}
}
