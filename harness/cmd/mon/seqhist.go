package main

import (
	"fmt"
	"strings"

	"github.com/biogo/biogo/alphabet"
	"github.com/biogo/biogo/seq"
	"github.com/biogo/biogo/seq/alignment"
	"github.com/biogo/biogo/seq/linear"
	"github.com/biogo/biogo/seq/multi"

	"verif/harness/internal/obs"
)

// seqHist drives one operation history on a real container and its model.
type seqHist struct {
	r      *obs.Run
	m      *mCont
	x      interface{}
	frozen []seqFrozen
	Ops    []string
	init   map[string]interface{}
	failed bool
	ended  bool // the history cannot be modelled any further (nothing wrong was seen)
	paired bool // letters must come from the pairing's domain (C05)
}

type seqFrozen struct {
	m    *mCont
	x    interface{}
	snap oSnap
	what string
}

func (h *seqHist) fail(class, what string) {
	h.failed = true
	h.r.Violate(class, what, map[string]interface{}{"initial": h.init, "ops": h.Ops, "what": what, "model_now": h.m.brief()})
}

// check compares the active container and every frozen one with their models.
func (h *seqHist) check(class string) bool {
	if d := snapDiff(h.m.observe(h.x), h.m.snapshot()); d != "" {
		h.fail(class, fmt.Sprintf("after %s: %s", h.Ops[len(h.Ops)-1], d))
		return false
	}
	for _, f := range h.frozen {
		if d := snapDiff(f.m.observe(f.x), f.snap); d != "" {
			h.fail("clone-not-independent", fmt.Sprintf("after %s on the other copy, the %s changed: %s", h.Ops[len(h.Ops)-1], f.what, d))
			return false
		}
	}
	return true
}

func (h *seqHist) rower() seq.Rower { return h.x.(seq.Rower) }

func (h *seqHist) genLetter() (byte, byte) {
	src := seqAlphas[h.m.Alpha].a.Letters()
	if h.paired {
		src = seqAlphas[h.m.Alpha].paired
	}
	return src[h.r.Rng.Intn(len(src))], byte(h.r.Rng.Intn(62))
}

func (h *seqHist) opRevComp() {
	h.Ops = append(h.Ops, "RevComp")
	h.x.(interface{ RevComp() }).RevComp()
	h.m.revAll(true)
	h.r.Count("op_revcomp", 1)
}

func (h *seqHist) opReverse() {
	h.Ops = append(h.Ops, "Reverse")
	h.x.(interface{ Reverse() }).Reverse()
	h.m.revAll(false)
	if h.m.isMulti() {
		// the statement says nothing about coordinates after Reverse of a multiple alignment:
		// adopt the observed row offsets so that later steps are judged from the real state
		mm := h.x.(*multi.Multi)
		for i := range h.m.Rows {
			h.m.Rows[i].Start = mm.Row(i).Start()
		}
	}
	h.r.Count("op_reverse", 1)
}

func (h *seqHist) opClone() {
	var c interface{}
	switch v := h.x.(type) {
	case *linear.Seq:
		c = v.Clone()
	case *linear.QSeq:
		c = v.Clone()
	case *alignment.Seq:
		c = v.Clone()
	case *alignment.QSeq:
		c = v.Clone()
	case *multi.Multi:
		c = v.Clone()
	default:
		return
	}
	mc := h.m.clone()
	if d := snapDiff(mc.observe(c), mc.snapshot()); d != "" {
		h.Ops = append(h.Ops, "Clone")
		h.fail("clone-differs", "the clone differs from the original: "+d)
		return
	}
	if h.r.Rng.Intn(2) == 0 {
		h.Ops = append(h.Ops, "Clone (continue on the copy)")
		h.frozen = append(h.frozen, seqFrozen{h.m.clone(), h.x, h.m.snapshot(), "original"})
		h.x, h.m = c, mc
	} else {
		h.Ops = append(h.Ops, "Clone (continue on the original)")
		h.frozen = append(h.frozen, seqFrozen{mc, c, mc.snapshot(), "clone"})
	}
	h.r.Count("op_clone", 1)
}

// opSwap makes one of the frozen copies the active one (and freezes the active one): later edits then go to the other
// side of an earlier Clone, while the copy edited so far is only re-observed.
func (h *seqHist) opSwap() {
	if len(h.frozen) == 0 {
		return
	}
	k := h.r.Rng.Intn(len(h.frozen))
	f := h.frozen[k]
	h.frozen[k] = seqFrozen{h.m, h.x, h.m.snapshot(), "copy edited before the swap"}
	h.x, h.m = f.x, f.m
	h.Ops = append(h.Ops, "continue on the "+f.what)
	h.r.Count("op_swap", 1)
}

// opAppend appends letters to a linear sequence through AppendLetters / AppendQLetters.
func (h *seqHist) opAppend() {
	if !h.m.isLinear() {
		return
	}
	n := 1 + h.r.Rng.Intn(4)
	ql, l, q := h.genQL(n)
	var err error
	if h.m.hasQ() {
		err = h.x.(interface {
			AppendQLetters(...alphabet.QLetter) error
		}).AppendQLetters(ql...)
	} else {
		err = h.x.(interface {
			AppendLetters(...alphabet.Letter) error
		}).AppendLetters(alphabet.BytesToLetters(append([]byte(nil), l...))...)
	}
	h.Ops = append(h.Ops, fmt.Sprintf("Append(%s)", l))
	if err != nil {
		h.fail("append-error", "append returned "+err.Error())
		return
	}
	h.appendToRow(0, l, q)
	h.r.Count("op_append", 1)
}

func (h *seqHist) opSet() {
	rng := h.r.Rng
	ri := rng.Intn(len(h.m.Rows))
	row := &h.m.Rows[ri]
	if len(row.L) == 0 {
		return
	}
	k := rng.Intn(len(row.L))
	l, q := h.genLetter()
	ql := alphabet.QLetter{L: alphabet.Letter(l), Q: alphabet.Qphred(q)}
	switch {
	case h.m.isLinear():
		h.Ops = append(h.Ops, fmt.Sprintf("Set(%d,%c/%d)", row.Start+k, l, q))
		h.x.(seq.Sequence).Set(row.Start+k, ql)
	case h.m.colStored():
		h.Ops = append(h.Ops, fmt.Sprintf("Row(%d).Set(%d,%c/%d)", ri, h.m.Off+k, l, q))
		h.rower().Row(ri).Set(h.m.Off+k, ql) // the rows of a column-stored alignment are addressed in the alignment's frame
	default:
		h.Ops = append(h.Ops, fmt.Sprintf("Row(%d).Set(%d,%c/%d)", ri, row.Start+k, l, q))
		h.rower().Row(ri).Set(row.Start+k, ql)
	}
	row.L[k] = l
	row.Q[k] = q
	h.r.Count("op_set", 1)
}

func (h *seqHist) opRowRevComp() {
	if h.m.isLinear() {
		return
	}
	ri := h.r.Rng.Intn(len(h.m.Rows))
	h.Ops = append(h.Ops, fmt.Sprintf("Row(%d).RevComp", ri))
	h.rower().Row(ri).RevComp()
	h.m.revRow(ri, true)
	h.m.Rows[ri].Strand = -h.m.Rows[ri].Strand
	h.r.Count("op_row_revcomp", 1)
}

// opRowReverse reverses one row through its own handle (for column-stored alignments that is separate code from the
// container's Reverse, which swaps whole columns).
func (h *seqHist) opRowReverse() {
	if h.m.isLinear() {
		return
	}
	ri := h.r.Rng.Intn(len(h.m.Rows))
	h.Ops = append(h.Ops, fmt.Sprintf("Row(%d).Reverse", ri))
	h.rower().Row(ri).Reverse()
	h.m.revRow(ri, false)
	h.m.Rows[ri].Strand = 0
	h.r.Count("op_row_reverse", 1)
}

// opRowClone clones one row through its handle: the copy carries the row's letters (and qualities) and is independent.
func (h *seqHist) opRowClone() {
	if h.m.isLinear() {
		return
	}
	ri := h.r.Rng.Intn(len(h.m.Rows))
	h.Ops = append(h.Ops, fmt.Sprintf("Row(%d).Clone, then overwrite the copy", ri))
	c, ok := h.rower().Row(ri).Clone().(seq.Sequence)
	if !ok || c == nil {
		h.fail("clone-not-independent", "Row.Clone did not return a sequence")
		return
	}
	row := h.m.Rows[ri]
	l, q := readRow(c, c.Start(), c.End(), h.m.hasQ())
	if l != string(row.L) || (h.m.hasQ() && q != string(row.Q)) {
		h.fail("clone-not-independent", fmt.Sprintf("Row(%d).Clone carries letters %q qualities %v, the row holds %q %v", ri, l, []byte(q), row.L, row.Q))
		return
	}
	// a copy of the row is the row's sequence: its name and its alphabet (for a row of a row-stored container, a sequence
	// in its own right, its placement and strand too; the handle of a column-stored row builds a fresh sequence from the
	// letters, and where that sits is not judged)
	if c.Name() != row.Name || c.Alphabet() != h.m.alpha() {
		h.fail("clone-differs", fmt.Sprintf("Row(%d).Clone is named %q over alphabet %q, the row is %q over %q", ri, c.Name(), alphaLetters(c.Alphabet()), row.Name, alphaLetters(h.m.alpha())))
		return
	}
	if !h.m.colStored() && (c.Start() != row.Start || strandOf(c) != row.Strand) {
		h.fail("clone-differs", fmt.Sprintf("Row(%d).Clone starts at %d on strand %d, the row at %d on strand %d", ri, c.Start(), strandOf(c), row.Start, row.Strand))
		return
	}
	h.r.Count("row_clone_name_alphabet_compared", 1)
	// the copy is a sequence of its own: it reverse-complements (or reverses) like any other
	if rc, isRC := c.(interface{ RevComp() }); isRC && h.r.Rng.Intn(2) == 0 {
		comp := h.r.Rng.Intn(3) != 0
		want := mCont{Kind: h.m.Kind, Alpha: h.m.Alpha, Rows: []mRow{{L: append([]byte(nil), row.L...), Q: append([]byte(nil), row.Q...)}}}
		want.revRow(0, comp)
		what := "Reverse"
		if comp {
			rc.RevComp()
			what = "RevComp"
		} else {
			c.(interface{ Reverse() }).Reverse()
		}
		h.Ops[len(h.Ops)-1] += ", " + what + " on the copy"
		l, q := readRow(c, c.Start(), c.End(), h.m.hasQ())
		if l != string(want.Rows[0].L) || (h.m.hasQ() && q != string(want.Rows[0].Q)) {
			h.fail("clone-revcomp", fmt.Sprintf("%s of the copy of row %d gives letters %q qualities %v, want %q %v", what, ri, l, []byte(q), want.Rows[0].L, want.Rows[0].Q))
			return
		}
		h.r.Count("op_row_clone_then_reversed", 1)
	}
	for p := c.Start(); p < c.End(); p++ { // the container must not notice (checked right after this operation)
		c.Set(p, alphabet.QLetter{L: '!', Q: 1})
	}
	h.r.Count("op_row_clone", 1)
}

func (h *seqHist) opRowSetOffset() {
	if h.m.isLinear() {
		return
	}
	ri := h.r.Rng.Intn(len(h.m.Rows))
	o := h.r.Rng.Intn(21) - 10
	h.Ops = append(h.Ops, fmt.Sprintf("Row(%d).SetOffset(%d)", ri, o))
	h.rower().Row(ri).SetOffset(o)
	h.m.Rows[ri].Start = o
	h.r.Count("op_row_setoffset", 1)
}

// opMultiSetOffset moves a whole row-stored alignment. The alignment is the placement of the rows against each other,
// so every row must move by the same amount and keep its letters. The amount: the new offset less the one the container
// has recorded so far (0 for a fresh container, whatever its rows' offsets; carried by Clone and Subseq) - or, for a
// reading in which the offset is where the alignment starts, the new offset less the old Start(): either is accepted.
// Asking for the same offset again right away changes nothing under both readings.
func (h *seqHist) opMultiSetOffset() {
	if !h.m.isMulti() {
		return
	}
	mm := h.x.(*multi.Multi)
	o := h.r.Rng.Intn(41) - 20
	h.Ops = append(h.Ops, fmt.Sprintf("SetOffset(%d)", o))
	S, _ := h.m.span()
	before := make([]int, mm.Rows())
	for i := range before {
		before[i] = mm.Row(i).Start()
	}
	if err := mm.SetOffset(o); err != nil {
		h.fail("setoffset", "Multi.SetOffset returned "+err.Error())
		return
	}
	d := o - h.m.Off
	if mm.Rows() == len(h.m.Rows) && mm.Row(0).Start()-before[0] == o-S {
		d = o - S
	}
	for i := range h.m.Rows {
		h.m.Rows[i].Start += d
	}
	h.m.Off = o
	h.r.Count("op_multi_setoffset", 1)
	if d != 0 {
		h.r.Count("multi_setoffset_moved_rows", 1)
	}
	if h.r.Rng.Intn(3) == 0 { // the state comparison after this operation then sees any further movement
		h.Ops[len(h.Ops)-1] += fmt.Sprintf("; SetOffset(%d) again", o)
		mm.SetOffset(o)
		h.r.Count("multi_setoffset_repeated", 1)
	}
}

// ---- C07 edit operations ----

func (h *seqHist) genQL(n int) ([]alphabet.QLetter, []byte, []byte) {
	l := make([]byte, n)
	q := make([]byte, n)
	for i := range l {
		l[i], q[i] = h.genLetter()
		if q[i] < qThreshold && h.r.Rng.Intn(3) != 0 {
			q[i] += qThreshold
		}
	}
	return qletters(l, q), l, q
}

func scribble(bufs [][]alphabet.QLetter) {
	for _, b := range bufs {
		for i := range b {
			b[i] = alphabet.QLetter{L: '!', Q: 1}
		}
	}
}

// carve re-cuts the given slices from one buffer, one behind the other with 0..2 unused elements after each, and hands them
// back without a capacity limit: each then has the following ones (the other rows' letters) in its spare capacity, the
// way runs sliced out of one read buffer do. The whole buffer is returned for overwriting after the call.
func (h *seqHist) carve(bufs [][]alphabet.QLetter) []alphabet.QLetter {
	var flat []alphabet.QLetter
	at := make([]int, len(bufs))
	for i, b := range bufs {
		at[i] = len(flat)
		flat = append(flat, b...)
		for k := h.r.Rng.Intn(3); k > 0; k-- {
			flat = append(flat, alphabet.QLetter{L: '!', Q: 1})
		}
	}
	for i, b := range bufs {
		bufs[i] = flat[at[i] : at[i]+len(b)]
	}
	h.r.Count("appends_from_one_shared_buffer", 1)
	return flat
}

func (h *seqHist) appendToRow(ri int, l, q []byte) {
	row := &h.m.Rows[ri]
	row.L = append(row.L, l...)
	row.Q = append(row.Q, q...)
}

func (h *seqHist) opAppendColumns() {
	rng := h.r.Rng
	k := 1 + rng.Intn(3)
	var cols [][]alphabet.QLetter
	var desc []string
	nr := len(h.m.Rows)
	add := make([][2][]byte, nr)
	for c := 0; c < k; c++ {
		ql, l, q := h.genQL(nr)
		cols = append(cols, ql)
		desc = append(desc, string(l))
		for ri := 0; ri < nr; ri++ {
			add[ri][0] = append(add[ri][0], l[ri])
			add[ri][1] = append(add[ri][1], q[ri])
		}
	}
	h.Ops = append(h.Ops, fmt.Sprintf("AppendColumns(%s) then overwrite the buffers", strings.Join(desc, ",")))
	var flat []alphabet.QLetter
	if rng.Intn(3) == 0 {
		flat = h.carve(cols)
		h.Ops[len(h.Ops)-1] += " (columns cut from one buffer)"
	}
	if k >= 2 && rng.Intn(6) == 0 {
		// a malformed call: one of several columns has a letter too many or too few. A call that reports an error has
		// supplied no letters: the container must be as it was (the comparison after this operation sees to that).
		bad := rng.Intn(k)
		if len(cols[bad]) > 0 && rng.Intn(2) == 0 {
			cols[bad] = cols[bad][:len(cols[bad])-1]
		} else {
			cols[bad] = append(cols[bad][:len(cols[bad]):len(cols[bad])], alphabet.QLetter{L: cols[0][0].L, Q: 1})
		}
		h.Ops[len(h.Ops)-1] = fmt.Sprintf("AppendColumns(%s) with column %d of the wrong height (%d letters), refused", strings.Join(desc, ","), bad, len(cols[bad]))
		var err error
		func() {
			defer func() {
				if e := recover(); e != nil {
					err = fmt.Errorf("panic: %v", e)
				}
			}()
			err = h.x.(seq.AlignedAppender).AppendColumns(cols...)
		}()
		if err == nil {
			h.ended = true // accepted: what the container should now hold is anybody's guess; the history ends here
			h.r.Count("malformed_append_columns_accepted", 1)
			return
		}
		h.r.Count("malformed_append_columns_refused", 1)
		return
	}
	if err := h.x.(seq.AlignedAppender).AppendColumns(cols...); err != nil {
		h.fail("append-error", "AppendColumns returned "+err.Error())
		return
	}
	scribble(cols)
	scribble([][]alphabet.QLetter{flat[:cap(flat)]})
	for ri := 0; ri < nr; ri++ {
		h.appendToRow(ri, add[ri][0], add[ri][1])
	}
	h.r.Count("op_append_columns", 1)
	h.r.Count("caller_buffers_overwritten", int64(len(cols)))
}

func (h *seqHist) opAppendEach() {
	rng := h.r.Rng
	nr := len(h.m.Rows)
	runs := make([][]alphabet.QLetter, nr)
	ls := make([][]byte, nr)
	qs := make([][]byte, nr)
	max := 0
	var desc []string
	for ri := 0; ri < nr; ri++ {
		runs[ri], ls[ri], qs[ri] = h.genQL(rng.Intn(5))
	}
	var flat []alphabet.QLetter
	how := ""
	if rng.Intn(3) == 0 {
		flat = h.carve(runs)
		how = " (runs cut from one buffer)"
	}
	if nr > 1 && rng.Intn(8) == 0 { // the very same run handed over for two rows
		i, j := rng.Intn(nr), rng.Intn(nr)
		runs[j], ls[j], qs[j] = runs[i], ls[i], qs[i]
		if i != j {
			h.r.Count("append_each_same_run_for_two_rows", 1)
		}
	}
	for ri := 0; ri < nr; ri++ {
		if len(ls[ri]) > max {
			max = len(ls[ri])
		}
		desc = append(desc, string(ls[ri]))
	}
	h.Ops = append(h.Ops, fmt.Sprintf("AppendEach(%q) then overwrite the buffers%s", desc, how))
	if err := h.x.(seq.RowAppender).AppendEach(runs); err != nil {
		h.fail("append-error", "AppendEach returned "+err.Error())
		return
	}
	scribble(runs)
	scribble([][]alphabet.QLetter{flat[:cap(flat)]})
	gap := byte(h.m.alpha().Gap())
	unequal := false
	for ri := 0; ri < nr; ri++ {
		l, q := ls[ri], qs[ri]
		if h.m.colStored() {
			for len(l) < max {
				l = append(l, gap)
				q = append(q, 0)
				unequal = true
			}
		}
		h.appendToRow(ri, l, q)
	}
	h.r.Count("op_append_each", 1)
	if unequal {
		h.r.Count("append_each_padded", 1)
	}
	h.r.Count("caller_buffers_overwritten", int64(len(runs)))
}

func (h *seqHist) opDelete() {
	if len(h.m.Rows) < 2 {
		return
	}
	ri := h.r.Rng.Intn(len(h.m.Rows))
	h.Ops = append(h.Ops, fmt.Sprintf("Delete(%d)", ri))
	h.x.(interface{ Delete(int) }).Delete(ri)
	h.m.Rows = append(h.m.Rows[:ri], h.m.Rows[ri+1:]...)
	h.r.Count("op_delete", 1)
}

func (h *seqHist) opAdd() {
	rng := h.r.Rng
	if len(h.m.Rows) >= 7 {
		return
	}
	k := 1 + rng.Intn(2)
	var rows []seq.Sequence
	var desc []string
	S, E := h.m.span()
	for c := 0; c < k; c++ {
		name := fmt.Sprint("added", len(h.m.Rows)+c)
		var nr mRow
		if h.m.colStored() {
			// a sequence that may be shorter or longer than the alignment: clipped / gap filled
			st := 0
			n := E
			switch rng.Intn(5) {
			case 0:
				st, n = rng.Intn(3), rng.Intn(E+3)
			case 1:
				n = E + rng.Intn(4)
			case 2: // starting before the alignment, overhanging either or both ends, or wholly outside it
				st, n = rng.Intn(2*E+8)-E-4, rng.Intn(2*E+6)
				switch {
				case st+n <= 0 || st >= E:
					h.r.Count("add_rows_wholly_outside_the_alignment", 1)
				case st < 0:
					h.r.Count("add_rows_clipped_on_the_left", 1)
				}
			}
			_, l, q := h.genQL(n)
			src := mRow{L: l, Q: q, Start: st, Strand: 1, Name: name}
			rows = append(rows, h.m.buildRow(src, h.m.hasQ()))
			desc = append(desc, fmt.Sprintf("%s@%d", l, st))
			gap := byte(h.m.alpha().Gap())
			nr = mRow{Start: st, Strand: 1, Name: name}
			for p := 0; p < E; p++ {
				if st <= p && p < st+n {
					nr.L = append(nr.L, l[p-st])
					if h.m.hasQ() {
						nr.Q = append(nr.Q, q[p-st])
					} else {
						nr.Q = append(nr.Q, 0)
					}
				} else {
					nr.L = append(nr.L, gap)
					nr.Q = append(nr.Q, 0)
				}
			}
		} else {
			n := rng.Intn(E - S + 4)
			st := S + rng.Intn(7) - 3
			_, l, q := h.genQL(n)
			nr = mRow{L: l, Q: q, Start: st, Strand: 1, Name: name}
			rows = append(rows, h.m.buildRow(nr, h.m.hasQ()))
			desc = append(desc, fmt.Sprintf("%s@%d", l, st))
		}
		h.m.Rows = append(h.m.Rows, nr)
	}
	h.Ops = append(h.Ops, fmt.Sprintf("Add(%s)", strings.Join(desc, ",")))
	var err error
	switch v := h.x.(type) {
	case *alignment.Seq:
		err = v.Add(rows...)
	case *alignment.QSeq:
		err = v.Add(rows...)
	case *multi.Multi:
		err = v.Add(rows...)
	}
	if err != nil {
		h.fail("add-error", "Add returned "+err.Error())
	}
	h.r.Count("op_add", 1)
}

func (h *seqHist) opFlush() {
	if !h.m.isMulti() {
		return
	}
	rng := h.r.Rng
	where := []int{seq.Start, seq.End, seq.Start | seq.End}[rng.Intn(3)]
	fill := byte(h.m.alpha().Gap())
	if rng.Intn(2) == 0 {
		fill = 'n'
	}
	h.Ops = append(h.Ops, fmt.Sprintf("Flush(%d,%c)", where, fill))
	h.x.(*multi.Multi).Flush(where, alphabet.Letter(fill))
	// "so that all rows span the alignment", in the container's own words: the end(s) just flushed are flush
	if !h.x.(*multi.Multi).IsFlush(where) {
		h.fail("views-differ", fmt.Sprintf("IsFlush(%d) is false right after Flush(%d, %c)", where, where, fill))
		return
	}
	h.r.Count("isflush_asked_after_flush", 1)
	S, E := h.m.span()
	ragged := false
	for i := range h.m.Rows {
		r := &h.m.Rows[i]
		if where&seq.Start != 0 && r.Start > S {
			n := r.Start - S
			r.L = append(bytesOf(fill, n), r.L...)
			r.Q = append(make([]byte, n), r.Q...)
			r.Start = S
			ragged = true
		}
		if where&seq.End != 0 && r.Start+len(r.L) < E {
			n := E - r.Start - len(r.L)
			r.L = append(r.L, bytesOf(fill, n)...)
			r.Q = append(r.Q, make([]byte, n)...)
			ragged = true
		}
	}
	h.r.Count("op_flush", 1)
	if ragged {
		h.r.Count("flush_padded_ragged_rows", 1)
	}
}

func bytesOf(b byte, n int) []byte {
	out := make([]byte, n)
	for i := range out {
		out[i] = b
	}
	return out
}

// commonRange returns the range every row covers.
func (h *seqHist) commonRange() (int, int) {
	s, e := -int(^uint(0)>>1)-1, int(^uint(0)>>1)
	for _, r := range h.m.Rows {
		if r.Start > s {
			s = r.Start
		}
		if r.Start+len(r.L) < e {
			e = r.Start + len(r.L)
		}
	}
	return s, e
}

func (h *seqHist) opTruncate(subseq bool) {
	if !h.m.isMulti() {
		return
	}
	rng := h.r.Rng
	cs, ce := h.commonRange()
	if ce <= cs {
		return
	}
	s := cs + rng.Intn(ce-cs)
	e := s + 1 + rng.Intn(ce-s)
	if rng.Intn(8) == 0 { // a range of no columns (anywhere from the first common position to just past the last)
		s = cs + rng.Intn(ce-cs+1)
		e = s
		h.r.Count("zero_width_ranges", 1)
	}
	nm := h.m.clone()
	for i := range nm.Rows {
		r := &nm.Rows[i]
		r.L = r.L[s-r.Start : e-r.Start]
		r.Q = r.Q[s-r.Start : e-r.Start]
		r.Start = s
	}
	mm := h.x.(*multi.Multi)
	if !subseq {
		h.Ops = append(h.Ops, fmt.Sprintf("Truncate(%d,%d)", s, e))
		if err := mm.Truncate(s, e); err != nil {
			h.fail("truncate-error", "Truncate over a range every row covers returned "+err.Error())
			return
		}
		h.m = nm
		h.r.Count("op_truncate", 1)
		return
	}
	h.Ops = append(h.Ops, fmt.Sprintf("Subseq(%d,%d)", s, e))
	var sub *multi.Multi
	var err error
	func() {
		defer func() {
			if p := recover(); p != nil {
				err = fmt.Errorf("panic: %v", p)
			}
		}()
		sub, err = mm.Subseq(s, e)
	}()
	if err != nil {
		h.fail("subseq-error", "Subseq over a range every row covers: "+err.Error())
		return
	}
	// names and strands of the rows of a sub-alignment are not fixed by the statement: adopt what is observed
	if sub != nil && sub.Rows() == len(nm.Rows) {
		for i := range nm.Rows {
			nm.Rows[i].Name, nm.Rows[i].Strand = sub.Row(i).Name(), strandOf(sub.Row(i))
		}
	}
	if d := snapDiff(nm.observe(sub), nm.snapshot()); d != "" {
		h.fail("subseq-differs", "Subseq result: "+d)
		return
	}
	h.r.Count("op_subseq", 1)
	// the receiver must be unchanged; continue on either, keeping the other frozen
	if rng.Intn(2) == 0 {
		h.frozen = append(h.frozen, seqFrozen{h.m.clone(), h.x, h.m.snapshot(), "Subseq receiver"})
		h.x, h.m = sub, nm
	} else {
		h.frozen = append(h.frozen, seqFrozen{nm, sub, nm.snapshot(), "Subseq result"})
	}
}

// checkConsensus: a column in which every row holds the same valid letter has that letter (up to case) as its count-based consensus.
func (h *seqHist) checkConsensus() {
	if h.m.isLinear() || h.m.isSet() {
		return
	}
	al := h.m.alpha()
	S, E := h.m.span()
	a := h.x.(seq.Aligned)
	// the container's own Consensus method (count-based for these kinds; the quality alignment uses another function)
	var cons []alphabet.QLetter
	if h.m.Kind != "aqseq" {
		if c, ok := h.x.(interface{ Consensus(bool) *linear.QSeq }); ok {
			q := c.Consensus(false)
			if q == nil || q.Len() != E-S {
				h.fail("consensus", fmt.Sprintf("Consensus(false) has %d letters for an alignment of %d columns", q.Len(), E-S))
				return
			}
			cons = q.Seq
			if h.m.isMulti() { // with missing rows included the uniform columns are the same ones
				if q2 := c.Consensus(true); q2 == nil || q2.Len() != E-S {
					h.fail("consensus", fmt.Sprintf("Consensus(true) has %d letters for an alignment of %d columns", q2.Len(), E-S))
					return
				}
			}
		}
	}
	for p := S; p < E; p++ {
		var l byte
		uniform := true
		for i, r := range h.m.Rows {
			st := r.Start
			if h.m.colStored() {
				st = h.m.Off
			}
			if p < st || p >= st+len(r.L) || (h.m.Kind == "aqseq" && r.Q[p-st] < qThreshold) {
				uniform = false
				break
			}
			if i == 0 {
				l = r.L[p-st]
			} else if r.L[p-st] != l {
				uniform = false
				break
			}
		}
		if !uniform || !al.IsValid(alphabet.Letter(l)) {
			continue
		}
		got := seq.DefaultConsensus(a, al, p, true)
		h.r.Count("uniform_columns_consensus_checked", 1)
		if al.IsCased() || al.Len() > 16 {
			h.r.Count("uniform_columns_in_case_sensitive_or_protein_alphabets", 1)
		}
		if strings.ToLower(string([]byte{byte(got.L)})) != strings.ToLower(string([]byte{l})) {
			h.fail("consensus", fmt.Sprintf("column %d holds %q in every row but DefaultConsensus gives %q", p, l, byte(got.L)))
			return
		}
		if cons != nil {
			h.r.Count("uniform_columns_checked_through_the_consensus_method", 1)
			if c := byte(cons[p-S].L); strings.ToLower(string([]byte{c})) != strings.ToLower(string([]byte{l})) {
				h.fail("consensus", fmt.Sprintf("column %d holds %q in every row but letter %d of Consensus(false) is %q", p, l, p-S, c))
				return
			}
		}
	}
}

func newSeqHist(r *obs.Run, kind string, maxRows, maxLen int, paired bool) *seqHist {
	m := genCont(r.Rng, kind, maxRows, maxLen, paired)
	h := &seqHist{r: r, m: m, paired: paired, init: m.brief()}
	h.x = m.build()
	h.Ops = []string{"build"}
	return h
}
