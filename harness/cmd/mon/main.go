// Command mon runs one runtime monitor (one per property) against biogo as
// compiled from /repo's working tree. Without -child it is the parent: it
// spawns one child per batch, merges their observations, writes the evidence
// file and prints the verdict.
package main

import (
	"encoding/json"
	"flag"
	"fmt"
	"os"
	"sort"
	"strconv"

	"verif/harness/internal/obs"
)

var registry = map[string]*obs.Monitor{}

func register(m *obs.Monitor) { registry[m.ID] = m }

// extraCommands are auxiliary sub-commands (worker processes spawned by monitors).
var extraCommands = map[string]func(args []string){}

// raceBuilt is set by race_on.go when the binary is built with -race.
var raceBuilt bool

func main() {
	if len(os.Args) < 2 {
		ids := make([]string, 0, len(registry))
		for id := range registry {
			ids = append(ids, id)
		}
		sort.Strings(ids)
		fmt.Println("usage: mon <id> [-tier quick|thorough] [-seed n] [-replay file]; ids:", ids)
		os.Exit(2)
	}
	id := os.Args[1]
	if f, ok := extraCommands[id]; ok {
		f(os.Args[2:])
		return
	}
	m, ok := registry[id]
	if !ok {
		fmt.Println("unknown property", id)
		os.Exit(2)
	}
	fs := flag.NewFlagSet("mon", flag.ExitOnError)
	tier := fs.String("tier", "quick", "quick|thorough")
	seed := fs.Int64("seed", 1, "seed")
	child := fs.Bool("child", false, "run as child")
	batch := fs.Int("batch", 0, "batch index")
	nbatch := fs.Int("nbatch", 1, "number of batches")
	state := fs.String("state", "", "state file")
	crumb := fs.String("crumb", "", "crumb file")
	dir := fs.String("dir", "/verif", "verif dir")
	scratch := fs.String("scratch", "", "scratch dir")
	replay := fs.String("replay", "", "replay file")
	fs.Parse(os.Args[2:])
	if s := os.Getenv("VERIF_SEED"); s != "" && !*child && *replay == "" {
		if v, err := strconv.ParseInt(s, 10, 64); err == nil {
			*seed = v
		}
	}
	if *replay != "" {
		b, err := os.ReadFile(*replay)
		if err != nil {
			fmt.Println("cannot read replay file:", err)
			os.Exit(2)
		}
		var w struct {
			Seed   int64  `json:"seed"`
			Tier   string `json:"tier"`
			Batch  int    `json:"batch"`
			NBatch int    `json:"nbatch"`
			Case   int    `json:"case"`
		}
		// crash replays are text files whose first line is the crumb JSON
		if err := json.Unmarshal(firstJSON(b), &w); err != nil || w.NBatch == 0 {
			fmt.Println("replay file carries no case coordinates:", err)
			os.Exit(2)
		}
		obs.RunChild(m, *dir, w.Tier, w.Seed, w.Batch, w.NBatch, "", "", w.Case)
		return
	}
	if *child {
		obs.RunChild(m, *dir, *tier, *seed, *batch, *nbatch, *state, *crumb, -1)
		return
	}
	if *scratch == "" {
		d, err := os.MkdirTemp("", "verif-mon-")
		if err != nil {
			fmt.Println(err)
			os.Exit(2)
		}
		defer os.RemoveAll(d)
		*scratch = d
	}
	self, _ := os.Executable()
	code := obs.RunParent(m, obs.ParentOpts{Dir: *dir, Tier: *tier, Seed: *seed, Scratch: *scratch, Race: raceBuilt, Self: self})
	if *scratch != "" {
		os.RemoveAll(*scratch)
	}
	os.Exit(code)
}

func firstJSON(b []byte) []byte {
	// find the first '{' ... matching line or whole doc
	var v json.RawMessage
	if json.Unmarshal(b, &v) == nil {
		return b
	}
	for i := 0; i < len(b); i++ {
		if b[i] == '\n' {
			return b[:i]
		}
	}
	return b
}
