package main

import (
	"bytes"
	"fmt"
	"strings"

	"github.com/biogo/biogo/alphabet"
	"github.com/biogo/biogo/feat"

	"verif/harness/internal/obs"
)

// C17 — alphabets map letters, indices and complements consistently.

func init() {
	register(&obs.Monitor{
		ID:    "C17",
		Level: "exploration",
		Rule: "case 0: exhaustive over 256 letters x 7 built-in alphabets; other cases: one generated definition each (random distinct ASCII letter sets incl. NUL/DEL/punctuation, cased and uncased, " +
			"random involutive pairings closed on the letters; invalid classes: non-ASCII/invalid UTF-8 letters or pairings, length mismatch, non-bijective pairing) checked on all 256 letters and random letter slices; " +
			"non-trivial = definition with >=2 letters or an invalid-definition class; distinct = (class, definition text)",
		Batches: func(t string) int {
			if t == "thorough" {
				return 8
			}
			return 1
		},
		Cases:       func(r *obs.Run) int { return 1 + r.Share(r.Pick(20000, 6000000)) },
		Case:        c17Case,
		MinDistinct: func(t string) int { return 3000 },
		Floors: func(string) map[string]int64 {
			return map[string]int64{"builtin_letters_checked": 7 * 256, "valid_alphabets": 1000, "valid_complementors": 500, "invalid_definitions_rejected": 500}
		},
		Assumptions: []string{
			"a 'valid definition' is: distinct ASCII letters (distinct under case folding for case-insensitive alphabets); for complementors a pairing that lists both directions of an involution, closed on the letter set and case-preserving",
			"constructor panics are caught with recover and reported as violations",
		},
	})
}

type c17w struct {
	Alphabet string      `json:"alphabet"`
	Def      interface{} `json:"definition,omitempty"`
	Letter   interface{} `json:"letter,omitempty"`
	What     string      `json:"what"`
}

func c17CheckAlphabet(r *obs.Run, name string, a alphabet.Alphabet, def string, cased bool) {
	member := [256]bool{}
	for i := 0; i < len(def); i++ {
		member[def[i]] = true
		if !cased {
			member[strings.ToLower(def[i : i+1])[0]] = true
			member[strings.ToUpper(def[i : i+1])[0]] = true
		}
	}
	bad := func(l int, what string) {
		r.Violate("alphabet-"+strings.Fields(what)[0], fmt.Sprintf("%s letter %d: %s", name, l, what), c17w{name, def, l, what})
	}
	if a.Len() != len(def) {
		bad(-1, fmt.Sprintf("len: Len()=%d want %d", a.Len(), len(def)))
		return
	}
	if a.IsCased() != cased {
		bad(-1, "cased: IsCased disagrees with definition")
	}
	valid := a.ValidLetters()
	index := a.LetterIndex()
	for l := 0; l < 256; l++ {
		L := alphabet.Letter(l)
		if a.IsValid(L) != member[l] {
			bad(l, fmt.Sprintf("validity: IsValid=%v membership=%v", a.IsValid(L), member[l]))
		}
		if valid[l] != a.IsValid(L) {
			bad(l, "validity-table: ValidLetters()[l] != IsValid(l)")
		}
		idx := a.IndexOf(L)
		if index[l] != idx {
			bad(l, "index-table: LetterIndex()[l] != IndexOf(l)")
		}
		if !member[l] {
			if idx >= 0 {
				bad(l, fmt.Sprintf("index-invalid: IndexOf(invalid)=%d, want negative", idx))
			}
			continue
		}
		if idx < 0 || idx >= a.Len() {
			bad(l, fmt.Sprintf("index-range: IndexOf(valid)=%d out of 0..Len-1", idx))
			continue
		}
		back := a.Letter(idx)
		if cased {
			if back != L {
				bad(l, fmt.Sprintf("index-inverse: Letter(IndexOf(l))=%d", back))
			}
		} else if strings.ToLower(string([]byte{byte(back)})) != strings.ToLower(string([]byte{byte(l)})) {
			bad(l, fmt.Sprintf("index-inverse: Letter(IndexOf(l))=%d differs beyond case", back))
		}
	}
	for i := 0; i < a.Len(); i++ {
		if got := a.IndexOf(a.Letter(i)); got != i {
			bad(int(a.Letter(i)), fmt.Sprintf("index-inverse: IndexOf(Letter(%d))=%d", i, got))
		}
		want := def[i]
		if !cased {
			want = strings.ToLower(def[i : i+1])[0]
		}
		if !cased && strings.ToLower(string([]byte{byte(a.Letter(i))})) != string([]byte{want}) || cased && byte(a.Letter(i)) != want {
			bad(int(a.Letter(i)), fmt.Sprintf("letter-order: Letter(%d)=%d want %d", i, a.Letter(i), want))
		}
	}
	// Letters(): the definition as given (case-sensitive) or both cases of it, lower case first; its letters are the valid ones
	{
		ls := a.Letters()
		want := string(def)
		if !cased {
			want = strings.ToLower(string(def)) + strings.ToUpper(string(def))
		}
		if ls != want {
			r.Violate("alphabet-letters", fmt.Sprintf("%s Letters()=%q want %q", name, ls, want), c17w{name, def, ls, "Letters"})
		}
		for i := 0; i < a.Len() && i < len(ls); i++ {
			if ls[i] != byte(a.Letter(i)) {
				r.Violate("alphabet-letters", fmt.Sprintf("%s Letters()[%d]=%q but Letter(%d)=%q", name, i, ls[i], i, byte(a.Letter(i))), c17w{name, def, ls, "Letters"})
				break
			}
		}
		r.Count("letters_strings_checked", 1)
	}
	// AllValid on random slices
	for k := 0; k < 6; k++ {
		n := r.Rng.Intn(12)
		if k == 0 && r.Rng.Intn(3) == 0 { // long enough for any block-wise scan: the first invalid letter may lie far in
			n = 60 + r.Rng.Intn(200)
		}
		validRun := n > 50 && r.Rng.Intn(2) == 0 // mostly valid letters, so that the first invalid one comes late
		ls := make([]alphabet.Letter, n)
		qls := make([]alphabet.QLetter, n)
		first := -1
		for i := range ls {
			if (r.Rng.Intn(4) == 0 && !(validRun && r.Rng.Intn(40) != 0)) || len(def) == 0 {
				ls[i] = alphabet.Letter(r.Rng.Intn(256))
			} else {
				ls[i] = alphabet.Letter(def[r.Rng.Intn(len(def))])
				if !cased && r.Rng.Intn(2) == 0 {
					ls[i] = alphabet.Letter(strings.ToUpper(string([]byte{byte(ls[i])}))[0])
				}
			}
			qls[i] = alphabet.QLetter{L: ls[i], Q: alphabet.Qphred(r.Rng.Intn(60))}
		}
		if len(def) > 0 && r.Rng.Intn(4) == 0 {
			// the bytes of one well-formed multi-byte UTF-8 sequence whose code point has a valid letter as its low byte:
			// letters are bytes, so every one of them is an invalid letter
			ru := rune(def[r.Rng.Intn(len(def))]) + rune(0x100*(1+r.Rng.Intn(0x30)))
			if r.Rng.Intn(4) == 0 {
				ru += 0x10000
			}
			enc := []byte(string(ru))
			at := r.Rng.Intn(len(ls) + 1)
			var ins []alphabet.Letter
			var qins []alphabet.QLetter
			for _, b := range enc {
				ins = append(ins, alphabet.Letter(b))
				qins = append(qins, alphabet.QLetter{L: alphabet.Letter(b), Q: 20})
			}
			ls = append(ls[:at:at], append(ins, ls[at:]...)...)
			qls = append(qls[:at:at], append(qins, qls[at:]...)...)
			r.Count("allvalid_slices_with_utf8_sequences", 1)
		}
		for i := range ls {
			if first < 0 && !member[ls[i]] {
				first = i
			}
		}
		// two times in three the slice is a window of a longer one, with an invalid letter right before and right behind it
		// (nothing outside the window counts), and nil now and then for the empty one; the caller's letters stay as they are
		var big []alphabet.Letter
		var qbig []alphabet.QLetter
		if r.Rng.Intn(3) != 0 {
			lo, behind := 1+r.Rng.Intn(9), 1+r.Rng.Intn(17)
			big = make([]alphabet.Letter, lo+len(ls)+behind)
			qbig = make([]alphabet.QLetter, len(big))
			for i := range big {
				big[i] = alphabet.Letter(r.Rng.Intn(256))
				if len(def) > 0 && r.Rng.Intn(2) == 0 {
					big[i] = alphabet.Letter(def[r.Rng.Intn(len(def))])
				}
				qbig[i] = alphabet.QLetter{L: big[i], Q: alphabet.Qphred(r.Rng.Intn(256))}
			}
			big[lo-1], big[lo+len(ls)] = 0xfe, 0xfe
			qbig[lo-1].L, qbig[lo+len(ls)].L = 0xfe, 0xfe
			copy(big[lo:], ls)
			copy(qbig[lo:], qls)
			for i := range ls {
				qbig[lo+i].Q = alphabet.Qphred(r.Rng.Intn(256))
			}
			ls, qls = big[lo:lo+len(ls)], qbig[lo:lo+len(ls)]
			r.Count("allvalid_windows_of_longer_slices", 2)
		} else if len(ls) == 0 && r.Rng.Intn(2) == 0 {
			ls, qls = nil, nil
			r.Count("allvalid_nil_slices", 2)
		} else {
			big, qbig = ls, qls
		}
		keep, qkeep := append([]alphabet.Letter(nil), big...), append([]alphabet.QLetter(nil), qbig...)
		ok, pos := a.AllValid(ls)
		if ok != (first < 0) || pos != first {
			r.Violate("alphabet-allvalid", fmt.Sprintf("%s AllValid(%v)=(%v,%d) want first invalid %d", name, ls, ok, pos, first), c17w{name, def, ls, "AllValid"})
		}
		ok, pos = a.AllValidQLetter(qls)
		if ok != (first < 0) || pos != first {
			r.Violate("alphabet-allvalid", fmt.Sprintf("%s AllValidQLetter(%v)=(%v,%d) want first invalid %d", name, ls, ok, pos, first), c17w{name, def, ls, "AllValidQLetter"})
		}
		for i := range keep {
			if big[i] != keep[i] || qbig[i] != qkeep[i] {
				r.Violate("alphabet-allvalid-input", fmt.Sprintf("%s AllValid/AllValidQLetter changed the caller's letters: element %d of the backing slice was %v/%v, is %v/%v", name, i, keep[i], qkeep[i], big[i], qbig[i]), c17w{name, def, keep, "AllValid input"})
				break
			}
		}
		r.Count("allvalid_inputs_compared_afterwards", 2)
		r.Count("allvalid_slices", 2)
	}
}

func isUpper(b byte) bool { return b >= 'A' && b <= 'Z' }
func isLower(b byte) bool { return b >= 'a' && b <= 'z' }

func c17CheckComplement(r *obs.Run, name string, c alphabet.Complementor, paired *[256]bool, fourLetter bool) {
	table := c.ComplementTable()
	bad := func(l int, what string) {
		r.Violate("complement-"+strings.Fields(what)[0], fmt.Sprintf("%s letter %d: %s", name, l, what), c17w{name, nil, l, what})
	}
	if len(table) != 256 {
		bad(-1, "table-len: ComplementTable is not 256 long")
		return
	}
	for l := 0; l < 256; l++ {
		L := alphabet.Letter(l)
		comp, ok := c.Complement(L)
		// method and table agree: unpaired <=> high bit set
		if ok {
			if table[l] != comp || table[l]&0x80 != 0 {
				bad(l, fmt.Sprintf("table: method gives %d,true but table holds %d", comp, table[l]))
			}
		} else if l < 128 && table[l]&0x80 == 0 {
			bad(l, fmt.Sprintf("table: method says unpaired but table holds %d without the high bit", table[l]))
		} else if comp != L || table[l] != L|0x80 {
			// "otherwise unchanged and false": the method hands the letter back, the table holds it with the high bit set
			bad(l, fmt.Sprintf("table: unpaired letter %d: method returns %d, table holds %d (want %d and %d)", l, comp, table[l], L, L|0x80))
		}
		if paired != nil && ok != paired[l] {
			bad(l, fmt.Sprintf("paired: Complement ok=%v but definition pairs it: %v", ok, paired[l]))
		}
		if c.IsValid(L) {
			if !ok {
				bad(l, "valid-unpaired: valid letter has no complement")
				continue
			}
			if !c.IsValid(comp) {
				bad(l, fmt.Sprintf("valid-closure: complement %d of a valid letter is invalid", comp))
			}
			back, ok2 := c.Complement(comp)
			if !ok2 || back != L {
				bad(l, fmt.Sprintf("involution: comp(comp(l))=%d,%v", back, ok2))
			}
			if isUpper(byte(l)) != isUpper(byte(comp)) || isLower(byte(l)) != isLower(byte(comp)) {
				bad(l, fmt.Sprintf("case: complement %d does not preserve case", comp))
			}
			if fourLetter {
				if c.IndexOf(comp) != 3-c.IndexOf(L) {
					bad(l, fmt.Sprintf("index3: IndexOf(comp)=%d, IndexOf(l)=%d", c.IndexOf(comp), c.IndexOf(L)))
				}
			}
		} else if ok {
			// paired but invalid letters (n, x, gap): still an involution
			back, ok2 := c.Complement(comp)
			if !ok2 || back != L {
				bad(l, fmt.Sprintf("involution: comp(comp(l))=%d,%v for paired non-member", back, ok2))
			}
		}
	}
}

type builtin struct {
	name  string
	a     alphabet.Alphabet
	def   string
	four  bool
	pairS string
}

var c17Builtins = []builtin{
	{"DNA", alphabet.DNA, "acgt", true, "acgtnxACGTNX-"},
	{"DNAgapped", alphabet.DNAgapped, "-acgt", false, "acgtnxACGTNX-"},
	{"DNAredundant", alphabet.DNAredundant, "-acmgrsvtwyhkdbn", false, "acmgrsvtwyhkdbnxACMGRSVTWYHKDBNX-"},
	{"RNA", alphabet.RNA, "acgu", true, "acgunxACGUNX-"},
	{"RNAgapped", alphabet.RNAgapped, "-acgu", false, "acgunxACGUNX-"},
	{"RNAredundant", alphabet.RNAredundant, "-acmgrsvuwyhkdbn", false, "acmgrsvuwyhkdbnxACMGRSVUWYHKDBNX-"},
	{"Protein", alphabet.Protein, "-abcdefghijklmnpqrstvwxyz*", false, ""},
}

func c17Case(r *obs.Run, i int) {
	if i == 0 {
		if r.Batch != 0 {
			return
		}
		for _, b := range c17Builtins {
			c17CheckAlphabet(r, b.name, b.a, b.def, false)
			if c, ok := b.a.(alphabet.Complementor); ok {
				var paired [256]bool
				for k := 0; k < len(b.pairS); k++ {
					paired[b.pairS[k]] = true
				}
				c17CheckComplement(r, b.name, c, &paired, b.four)
				r.Count("builtin_complementors", 1)
			} else if b.pairS != "" {
				r.Violate("complement-missing", b.name+" is not a Complementor", c17w{b.name, nil, nil, "not a Complementor"})
			}
			for l := 0; l < 256; l++ {
				r.Note(fmt.Sprint("builtin/", b.name, "/", l), true)
			}
			r.Count("builtin_letters_checked", 256)
			if b.a.Gap() != '-' {
				r.Violate("alphabet-gap", b.name+" gap is not '-'", c17w{b.name, nil, nil, "gap"})
			}
		}
		// the library's own users of the built-ins' tables (RevComp, the aligners, the k-mer index, complexity) have
		// their turn; the built-ins must answer exactly as before and pass every check again
		snaps := make([]*c17snap, len(c17Builtins))
		for k, b := range c17Builtins {
			snaps[k] = c17Snapshot(b.a, nil)
		}
		c17UseBuiltins(r)
		for k, b := range c17Builtins {
			if d := snaps[k].diff(c17Snapshot(b.a, nil)); d != "" {
				r.Violate("builtin-changed", fmt.Sprintf("%s answers differently after sequences, aligners, k-mer index and complexity measures have used it: %s", b.name, d), c17w{b.name, nil, nil, "changed by use: " + d})
			}
			again := b.name + " (after use by the library)"
			c17CheckAlphabet(r, again, b.a, b.def, false)
			if c, ok := b.a.(alphabet.Complementor); ok {
				var paired [256]bool
				for k := 0; k < len(b.pairS); k++ {
					paired[b.pairS[k]] = true
				}
				c17CheckComplement(r, again, c, &paired, b.four)
			}
			r.Count("builtin_letters_rechecked_after_use", 256)
		}
		r.Sample(map[string]interface{}{"builtin": "DNA", "IndexOf('g')": alphabet.DNA.IndexOf('g'), "IndexOf('G')": alphabet.DNA.IndexOf('G'), "Letter(2)": string([]byte{byte(alphabet.DNA.Letter(2))}), "IndexOf('n')": alphabet.DNA.IndexOf('n')})
		return
	}
	rng := r.Rng
	class := rng.Intn(10)
	var w c17w
	defer func() {
		if e := recover(); e != nil {
			r.Violate("constructor-panic", fmt.Sprintf("panic for %+v: %v", w, e), w)
		}
	}()
	// a random letter set
	cased := rng.Intn(2) == 0
	n := 1 + rng.Intn(24)
	var pool []byte
	poolKind := rng.Intn(3)
	if rng.Intn(20) == 0 { // large definitions, up to every one of the 128 ASCII values (fewer when case is folded)
		n = []int{64, 100, 126, 127, 128}[rng.Intn(5)]
		poolKind = 0
		r.Count("large_definitions", 1)
	}
	switch poolKind {
	case 0:
		for c := 0; c < 128; c++ {
			pool = append(pool, byte(c))
		}
	case 1:
		pool = []byte("abcdefghijklmnopqrstuvwxyzABCDEFGHIJKLMNOPQRSTUVWXYZ-*.")
	default:
		pool = []byte("acgtunxACGTUNX-mrwsykvhdb")
	}
	rng.Shuffle(len(pool), func(a, b int) { pool[a], pool[b] = pool[b], pool[a] })
	var def []byte
	seen := map[string]bool{}
	if class < 7 && rng.Intn(150) == 0 { // the empty definition: no letter is valid (a constructor may also refuse it)
		n, pool = 0, nil
	}
	for _, c := range pool {
		key := string([]byte{c})
		if !cased {
			key = strings.ToLower(key)
		}
		if seen[key] {
			continue
		}
		seen[key] = true
		def = append(def, c)
		if len(def) == n {
			break
		}
	}
	gap, amb := alphabet.Letter(rng.Intn(128)), alphabet.Letter(rng.Intn(128))
	switch {
	case class < 4: // valid plain alphabet
		w = c17w{"generated", string(def), nil, fmt.Sprintf("NewAlphabet cased=%v", cased)}
		a, err := alphabet.NewAlphabet(string(def), feat.Undefined, gap, amb, cased)
		r.Note("alpha/"+fmt.Sprint(cased)+"/"+string(def), len(def) >= 2)
		if err != nil && len(def) == 0 {
			r.Count("empty_definitions_refused", 1)
			return
		}
		if err != nil {
			r.Violate("constructor-rejects-valid", fmt.Sprintf("NewAlphabet(%q) error: %v", def, err), w)
			return
		}
		if len(def) == 0 {
			r.Count("empty_definitions_built", 1)
		}
		r.Count("valid_alphabets", 1)
		c17CheckAlphabet(r, fmt.Sprintf("gen(%q,cased=%v)", def, cased), a, string(def), cased)
		if a.Gap() != gap || a.Ambiguous() != amb {
			r.Violate("alphabet-gap", "Gap/Ambiguous not as given", w)
		}
		if r.WantSample() && i < 20 {
			r.Sample(map[string]interface{}{"class": "valid alphabet", "letters": string(def), "cased": cased})
		}
	case class < 7: // valid complementor: involution closed on the letter set
		// build involution on def (case-sensitively); for uncased mirror to the other case
		perm := rng.Perm(len(def))
		var s, c []byte
		done := make([]bool, len(def))
		for k := 0; k < len(perm); k++ {
			a := perm[k]
			if done[a] {
				continue
			}
			b := a
			if rng.Intn(4) != 0 {
				for _, cand := range perm[k+1:] {
					if !done[cand] {
						b = cand
						break
					}
				}
			}
			// case preservation: only pair letters of the same case class
			ca, cb := def[a], def[b]
			if isUpper(ca) != isUpper(cb) || isLower(ca) != isLower(cb) {
				b, cb = a, ca
			}
			done[a], done[b] = true, true
			s = append(s, ca)
			c = append(c, cb)
			if a != b {
				s = append(s, cb)
				c = append(c, ca)
			}
		}
		if !cased {
			m := len(s)
			for k := 0; k < m; k++ {
				var x, y byte
				switch {
				case isLower(s[k]):
					x, y = s[k]-32, c[k]-32
				case isUpper(s[k]):
					x, y = s[k]+32, c[k]+32
				default:
					continue
				}
				s = append(s, x)
				c = append(c, y)
			}
		}
		w = c17w{"generated-complementor", map[string]string{"letters": string(def), "pair_s": string(s), "pair_c": string(c)}, nil, fmt.Sprintf("NewComplementor cased=%v", cased)}
		r.Note("comp/"+fmt.Sprint(cased)+"/"+string(def)+"/"+string(s)+"/"+string(c), len(def) >= 2)
		p, err := alphabet.NewPairing(string(s), string(c))
		if err != nil && len(def) == 0 {
			r.Count("empty_definitions_refused", 1)
			return
		}
		if err != nil {
			r.Violate("constructor-rejects-valid", fmt.Sprintf("NewPairing(%q,%q) error: %v", s, c, err), w)
			return
		}
		comp, err := alphabet.NewComplementor(string(def), feat.DNA, p, gap, amb, cased)
		if err != nil && len(def) == 0 {
			r.Count("empty_definitions_refused", 1)
			return
		}
		if err != nil {
			r.Violate("constructor-rejects-valid", fmt.Sprintf("NewComplementor(%q) error: %v", def, err), w)
			return
		}
		if len(def) == 0 {
			r.Count("empty_definitions_built", 1)
		}
		r.Count("valid_complementors", 1)
		name := fmt.Sprintf("gencomp(%q,%q,%q,cased=%v)", def, s, c, cased)
		c17CheckAlphabet(r, name, comp, string(def), cased)
		var paired [256]bool
		for _, x := range s {
			paired[x] = true
		}
		c17CheckComplement(r, name, comp, &paired, false)
		c17CheckImages(r, name, comp, s, c)
		if rng.Intn(6) == 0 {
			c17SharedPairing(r, name, comp, p, def, s, c, cased, gap, amb, &paired)
		}
		if r.WantSample() && i < 40 {
			r.Sample(map[string]interface{}{"class": "valid complementor", "letters": string(def), "pair_s": string(s), "pair_c": string(c), "cased": cased})
		}
	default: // invalid definitions
		kind := rng.Intn(7)
		// non-ASCII runes incl. ones whose low byte is below 0x80 (U+0100, U+0141, U+4E16, U+1D11E) and invalid UTF-8
		// and the runes that case folding maps onto ASCII letters (U+212A Kelvin -> k, U+0130 -> i, U+017F -> S, U+0131 -> I)
		junk := []string{"\xff", "é", "\xc3", "λ", "\x80", "日", "\xed\xa0\x80", "ÿ", "Ā", "Ł", "世", "𝄞", "ŉa", "\u0100", "\u212a", "\u0130", "\u017f", "\u0131", "\u212b",
			"\u0080", "\u0081", "\u00a0", "\u00bf", "\u00c0", "\u00e8"}[rng.Intn(25)] // ... and the first runes beyond ASCII, U+0080 onwards
		pos := rng.Intn(len(def) + 1)
		switch kind {
		case 0: // non-ASCII letters in an alphabet
			d := string(def[:pos]) + junk + string(def[pos:])
			w = c17w{"invalid", d, nil, "NewAlphabet with non-ASCII letters"}
			r.Note("inv0/"+d, true)
			_, err := alphabet.NewAlphabet(d, feat.Undefined, gap, amb, cased)
			_, err2 := alphabet.NewComplementor(d, feat.DNA, nil, gap, amb, cased)
			if err == nil || err2 == nil {
				r.Violate("constructor-accepts-invalid", fmt.Sprintf("non-ASCII letters %q accepted", d), w)
				return
			}
		case 1, 2: // non-ASCII in pairing (either side)
			s := string(def)
			c := string(def)
			if kind == 1 {
				s = s[:pos] + junk + s[pos:]
				// keep byte lengths equal so that only the rune check can reject
				c = c + strings.Repeat(string(def[0]), len(junk))
			} else {
				c = c[:pos] + junk + c[pos:]
				s = s + strings.Repeat(string(def[0]), len(junk))
			}
			w = c17w{"invalid", map[string]string{"pair_s": s, "pair_c": c}, nil, "NewPairing with non-ASCII rune"}
			r.Note("inv1/"+s+"/"+c, true)
			if _, err := alphabet.NewPairing(s, c); err == nil {
				r.Violate("constructor-accepts-invalid", fmt.Sprintf("non-ASCII pairing (%q,%q) accepted", s, c), w)
				return
			}
		case 6: // a well-formed involution that pairs a letter of the alphabet with a letter outside it
			// outside letters: any of the 128 ASCII values that is no member — in a case-sensitive alphabet the other case of
			// a member is one; so are the unprintable values and, for a pair with a member, the alphabet's own gap and
			// ambiguity letters (the member's complement would be no letter of the alphabet whatever else that letter is)
			member := func(c byte) bool {
				if bytes.IndexByte(def, c) >= 0 {
					return true
				}
				return !cased && (isUpper(c) && bytes.IndexByte(def, c+32) >= 0 || isLower(c) && bytes.IndexByte(def, c-32) >= 0)
			}
			both := rng.Intn(2) == 0
			a := def[rng.Intn(len(def))]
			draw := func(not int) (byte, bool) {
				for tries := 0; tries < 200; tries++ {
					c := byte(rng.Intn(128))
					if rng.Intn(2) == 0 {
						c = []byte{byte(gap), byte(amb), 0, 1, 9, 10, 31, ' ', 127, a ^ 32, def[rng.Intn(len(def))] ^ 32}[rng.Intn(11)]
					}
					if member(c) || int(c) == not || both && (alphabet.Letter(c) == gap || alphabet.Letter(c) == amb) {
						continue
					}
					return c, true
				}
				return 0, false
			}
			x, found := draw(-1)
			if !found {
				return
			}
			if both {
				// ... or pairs two letters with each other that are both outside it (next to a pair inside it)
				y, found := draw(int(x))
				if !found || isUpper(x) && y == x+32 || isLower(x) && y == x-32 {
					return
				}
				b := def[rng.Intn(len(def))]
				ps, pc := string([]byte{x, y}), string([]byte{y, x})
				if b != a && alphabet.Letter(a) != gap && alphabet.Letter(a) != amb && alphabet.Letter(b) != gap && alphabet.Letter(b) != amb && !(cased == !alphabet.CaseSensitive && (a^b) == 32) {
					ps, pc = string([]byte{a, b, x, y}), string([]byte{b, a, y, x})
				}
				w = c17w{"invalid", map[string]string{"letters": string(def), "pair_s": ps, "pair_c": pc}, nil, "NewComplementor with a pairing between two letters outside the alphabet"}
				r.Note("inv6b/"+string(def)+"/"+ps, true)
				pr, err := alphabet.NewPairing(ps, pc)
				if err != nil {
					r.Inconclusive("harness: NewPairing rejected the involution " + ps + "/" + pc + ": " + err.Error())
					return
				}
				if comp, err := alphabet.NewComplementor(string(def), feat.DNA, pr, gap, amb, cased); err == nil {
					cl, _ := comp.Complement(alphabet.Letter(x))
					r.Violate("constructor-accepts-invalid", fmt.Sprintf("NewComplementor(%q) accepted the pairing %q/%q, which pairs %q with %q although neither is a letter of the alphabet (Complement(%q)=%q)", def, ps, pc, x, y, x, cl), w)
					return
				}
				r.Count("pairings_between_outside_letters_refused", 1)
				if cased && ((isUpper(x) || isLower(x)) && member(x^32) || (isUpper(y) || isLower(y)) && member(y^32)) {
					r.Count("pairings_between_outside_letters_refused_other_case_of_a_member", 1)
				}
				break
			}
			ps, pc := string([]byte{a, x}), string([]byte{x, a})
			w = c17w{"invalid", map[string]string{"letters": string(def), "pair_s": ps, "pair_c": pc}, nil, "NewComplementor with a pairing that leaves the alphabet"}
			r.Note("inv6/"+string(def)+"/"+ps, true)
			pr, err := alphabet.NewPairing(ps, pc)
			if err != nil {
				r.Inconclusive("harness: NewPairing rejected the involution " + ps + "/" + pc + ": " + err.Error())
				return
			}
			if comp, err := alphabet.NewComplementor(string(def), feat.DNA, pr, gap, amb, cased); err == nil {
				cl, ok := comp.Complement(alphabet.Letter(a))
				r.Violate("constructor-accepts-invalid", fmt.Sprintf("NewComplementor(%q) accepted the pairing %q<->%q: the complement of the valid letter %q is %q (ok=%v), which is not a letter of the alphabet (IsValid=%v)", def, a, x, a, cl, ok, comp.IsValid(cl)), w)
				return
			}
			switch {
			case alphabet.Letter(x) == gap || alphabet.Letter(x) == amb || alphabet.Letter(a) == gap || alphabet.Letter(a) == amb:
				r.Count("pairings_leaving_the_alphabet_refused_gap_or_ambiguous_letter", 1)
			case x < 33 || x == 127:
				r.Count("pairings_leaving_the_alphabet_refused_unprintable_letter", 1)
			case cased && (isUpper(x) || isLower(x)) && member(x^32):
				r.Count("pairings_leaving_the_alphabet_refused_other_case_of_a_member", 1)
			}
		case 3: // length mismatch
			s := string(def)
			c := string(def[:rng.Intn(len(def))])
			if rng.Intn(2) == 0 {
				s, c = c, s
			}
			w = c17w{"invalid", map[string]string{"pair_s": s, "pair_c": c}, nil, "NewPairing with mismatched lengths"}
			r.Note("inv3/"+s+"/"+c, true)
			if _, err := alphabet.NewPairing(s, c); err == nil {
				r.Violate("constructor-accepts-invalid", fmt.Sprintf("mismatched pairing (%q,%q) accepted", s, c), w)
				return
			}
		default: // non-bijective: some letter maps to a letter that does not map back
			if len(def) < 2 {
				def = append(def, def[0]^1)
			}
			s := append([]byte(nil), def...)
			c := append([]byte(nil), def...) // identity
			a, b := rng.Intn(len(def)), rng.Intn(len(def))
			for b == a {
				b = rng.Intn(len(def))
			}
			c[a] = def[b] // a -> b but b -> b
			if rng.Intn(3) == 0 && len(def) >= 2 {
				// dangling pairs: the images are not listed as sources at all (now and then with NUL as a source)
				h := len(def) / 2
				s, c = append([]byte(nil), def[:h]...), append([]byte(nil), def[h:2*h]...)
				if rng.Intn(2) == 0 && bytes.IndexByte(c, 0) < 0 && bytes.IndexByte(s, 0) < 0 {
					s[rng.Intn(h)] = 0
				}
			} else if kind == 5 && len(def) >= 3 {
				// 3-cycle
				k := rng.Intn(len(def))
				for k == a || k == b {
					k = rng.Intn(len(def))
				}
				c[b] = def[k]
				c[k] = def[a]
			}
			w = c17w{"invalid", map[string]string{"pair_s": string(s), "pair_c": string(c)}, nil, "NewPairing that is not an involution"}
			r.Note("inv4/"+string(s)+"/"+string(c), true)
			if _, err := alphabet.NewPairing(string(s), string(c)); err == nil {
				r.Violate("constructor-accepts-invalid", fmt.Sprintf("non-bijective pairing (%q,%q) accepted", s, c), w)
				return
			}
		}
		r.Count("invalid_definitions_rejected", 1)
		if r.WantSample() && i < 60 {
			r.Sample(map[string]interface{}{"class": "invalid definition (rejected)", "what": w.What, "definition": w.Def})
		}
	}
}
