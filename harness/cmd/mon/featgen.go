package main

import (
	"fmt"
	"image/color"
	"math"
	"math/rand"
	"strings"

	"github.com/biogo/biogo/feat"
	"github.com/biogo/biogo/io/featio/bed"
	"github.com/biogo/biogo/io/featio/gff"
	"github.com/biogo/biogo/seq"
)

// Shared generators for the feature I/O monitors (C02, C03, C04).

// genField returns a non-empty, tab-free, trimmed text field not starting with '#'.
func genField(rng *rand.Rand, allowSpace bool) string {
	nw := 1
	if allowSpace {
		nw = 1 + rng.Intn(3)
	}
	var parts []string
	for i := 0; i < nw; i++ {
		n := 1 + rng.Intn(8)
		b := make([]byte, n)
		for k := range b {
			switch rng.Intn(8) {
			case 0:
				b[k] = "#;=,.:+-_\"'"[rng.Intn(11)]
			case 1:
				b[k] = byte('0' + rng.Intn(10))
			default:
				b[k] = byte(33 + rng.Intn(94))
			}
		}
		parts = append(parts, string(b))
	}
	s := strings.Join(parts, " ")
	if s[0] == '#' {
		s = "x" + s[1:]
	}
	if rng.Intn(20) == 0 { // words a format gives a meaning to elsewhere: here they are just text
		kw := []string{"track", "track_12", "tracking scaffold 3", "browser", "browserX", "gff-version", "sequence-region", "DNA", "end-DNA", "Type", "date", ".", "+", "-", "0", "1", "-1", "NaN", "Inf", "nil", "null", "true", "chr1", "e", "x"}[rng.Intn(25)]
		if allowSpace || !strings.Contains(kw, " ") {
			s = kw
		}
	}
	if rng.Intn(10) == 0 { // text beyond ASCII, in particular runes whose last UTF-8 byte is 0x85 or 0xA0 (white space if read alone)
		u := []string{"à", "Å", "é", "Р", "日", "Š", "ł", "…", "𝄞", "ā"}[rng.Intn(10)]
		switch rng.Intn(3) {
		case 0:
			s += u
		case 1:
			s = u + s
		default:
			p := rng.Intn(len(s) + 1)
			s = s[:p] + u + s[p:]
		}
	}
	return s
}

func genInt(rng *rand.Rand) int {
	switch rng.Intn(10) {
	case 0:
		return 0
	case 1:
		return rng.Intn(10)
	case 2:
		return -rng.Intn(10)
	case 3:
		return math.MinInt64 + rng.Intn(3)
	case 4:
		return math.MaxInt64 - rng.Intn(3)
	case 5:
		return int(rng.Int63())
	case 6:
		return -int(rng.Int63())
	default:
		return rng.Intn(1000000)
	}
}

func genStrand(rng *rand.Rand) seq.Strand { return seq.Strand(rng.Intn(3) - 1) }

// genLongField returns a text field of 4000..9000 bytes: a line holding it is longer than a 4096-byte read buffer.
func genLongField(rng *rand.Rand) string {
	n := 4000 + rng.Intn(5001)
	if rng.Intn(6) == 0 { // now and then longer than 64 KiB, the largest token a bufio.Scanner hands out by default
		n = 66000 + rng.Intn(20000)
	}
	b := make([]byte, n)
	for i := range b {
		b[i] = byte(33 + rng.Intn(94))
		if i > 0 && i < n-1 && rng.Intn(9) == 0 {
			b[i] = ' '
		}
	}
	if b[0] == '#' {
		b[0] = 'x'
	}
	return string(b)
}

func genBed(rng *rand.Rand, n int) feat.Feature {
	chrom := genField(rng, rng.Intn(4) == 0)
	s, e := genInt(rng), genInt(rng)
	name := genField(rng, rng.Intn(3) == 0)
	switch rng.Intn(60) {
	case 0:
		name = genLongField(rng)
	case 1:
		chrom = genLongField(rng)
	}
	score := genInt(rng)
	st := genStrand(rng)
	switch n {
	case 3:
		return &bed.Bed3{Chrom: chrom, ChromStart: s, ChromEnd: e}
	case 4:
		return &bed.Bed4{Chrom: chrom, ChromStart: s, ChromEnd: e, FeatName: name}
	case 5:
		return &bed.Bed5{Chrom: chrom, ChromStart: s, ChromEnd: e, FeatName: name, FeatScore: score}
	case 6:
		return &bed.Bed6{Chrom: chrom, ChromStart: s, ChromEnd: e, FeatName: name, FeatScore: score, FeatStrand: st}
	}
	nb := 1 + rng.Intn(5)
	if rng.Intn(60) == 0 { // enough blocks for a line of several read buffers
		nb = 400 + rng.Intn(800)
	}
	b := &bed.Bed12{Chrom: chrom, ChromStart: s, ChromEnd: e, FeatName: name, FeatScore: score, FeatStrand: st,
		ThickStart: genInt(rng), ThickEnd: genInt(rng), BlockCount: nb}
	switch rng.Intn(6) {
	case 0: // zero colour
	case 1: // opaque boundary colours: black, white, single channels
		c := [][3]uint8{{0, 0, 0}, {255, 255, 255}, {255, 0, 0}, {0, 255, 0}, {0, 0, 255}, {0, 0, 1}, {1, 0, 0}}[rng.Intn(7)]
		b.Rgb = color.RGBA{R: c[0], G: c[1], B: c[2], A: 0xff}
	default:
		b.Rgb = color.RGBA{R: uint8(rng.Intn(256)), G: uint8(rng.Intn(256)), B: uint8(rng.Intn(256)), A: 0xff}
	}
	for i := 0; i < nb; i++ {
		b.BlockSizes = append(b.BlockSizes, genInt(rng))
		b.BlockStarts = append(b.BlockStarts, genInt(rng))
	}
	return b
}

// bedPrefix returns the first m columns of b as a Bed-m value.
func bedPrefix(f feat.Feature, m int) feat.Feature {
	var b12 bed.Bed12
	switch b := f.(type) {
	case *bed.Bed3:
		b12 = bed.Bed12{Chrom: b.Chrom, ChromStart: b.ChromStart, ChromEnd: b.ChromEnd}
	case *bed.Bed4:
		b12 = bed.Bed12{Chrom: b.Chrom, ChromStart: b.ChromStart, ChromEnd: b.ChromEnd, FeatName: b.FeatName}
	case *bed.Bed5:
		b12 = bed.Bed12{Chrom: b.Chrom, ChromStart: b.ChromStart, ChromEnd: b.ChromEnd, FeatName: b.FeatName, FeatScore: b.FeatScore}
	case *bed.Bed6:
		b12 = bed.Bed12{Chrom: b.Chrom, ChromStart: b.ChromStart, ChromEnd: b.ChromEnd, FeatName: b.FeatName, FeatScore: b.FeatScore, FeatStrand: b.FeatStrand}
	case *bed.Bed12:
		b12 = *b
	}
	switch m {
	case 3:
		return &bed.Bed3{Chrom: b12.Chrom, ChromStart: b12.ChromStart, ChromEnd: b12.ChromEnd}
	case 4:
		return &bed.Bed4{Chrom: b12.Chrom, ChromStart: b12.ChromStart, ChromEnd: b12.ChromEnd, FeatName: b12.FeatName}
	case 5:
		return &bed.Bed5{Chrom: b12.Chrom, ChromStart: b12.ChromStart, ChromEnd: b12.ChromEnd, FeatName: b12.FeatName, FeatScore: b12.FeatScore}
	case 6:
		return &bed.Bed6{Chrom: b12.Chrom, ChromStart: b12.ChromStart, ChromEnd: b12.ChromEnd, FeatName: b12.FeatName, FeatScore: b12.FeatScore, FeatStrand: b12.FeatStrand}
	}
	c := b12
	return &c
}

func genTag(rng *rand.Rand) string {
	const cs = "abcdefghijklmnopqrstuvwxyzABCDEFGHIJKLMNOPQRSTUVWXYZ_"
	n := 1 + rng.Intn(8)
	b := make([]byte, n)
	for i := range b {
		b[i] = cs[rng.Intn(len(cs))]
	}
	return string(b)
}

// genValue returns an attribute value: empty or trimmed, tab- and ';'-free text.
func genValue(rng *rand.Rand) string {
	if rng.Intn(5) == 0 {
		return ""
	}
	s := strings.ReplaceAll(genField(rng, true), ";", ",")
	if rng.Intn(3) == 0 {
		s = "\"" + strings.ReplaceAll(s, "\"", "'") + "\""
	}
	return s
}

func genScore(rng *rand.Rand) *float64 {
	var v float64
	switch rng.Intn(8) {
	case 0:
		return nil
	case 1:
		v = math.Inf(1)
	case 2:
		v = math.Inf(-1)
	case 3:
		v = float64(rng.Intn(2000) - 1000)
	case 4:
		for {
			v = math.Float64frombits(rng.Uint64())
			if !math.IsNaN(v) && !math.IsInf(v, 0) {
				break
			}
		}
	case 5:
		v = math.Copysign(0, -1)
	default:
		v = rng.NormFloat64() * 100
	}
	return &v
}

func genGFF(rng *rand.Rand) *gff.Feature {
	var s, e int
	switch rng.Intn(9) {
	case 8: // a span wider than the largest int: End - Start does not fit, Start < End still holds
		s = math.MinInt64 + rng.Intn(1000)
		e = math.MaxInt64 - rng.Intn(1000)
		if rng.Intn(2) == 0 {
			s, e = math.MinInt64/2-rng.Intn(1000), math.MaxInt64/2+2+rng.Intn(1000)
		}
	case 0:
		s = math.MaxInt64 - 1 - rng.Intn(3)
		e = s + 1 + rng.Intn(math.MaxInt64-s)
	case 1:
		s = math.MinInt64 + rng.Intn(3)
		e = s + 1 + rng.Intn(1000)
	case 2:
		s = -1 - rng.Intn(20)
		e = s + 1 + rng.Intn(40)
	case 3:
		s = 0
		e = 1 + rng.Intn(5)
	default:
		s = rng.Intn(1000000)
		e = s + 1 + rng.Intn(100000)
	}
	f := &gff.Feature{
		SeqName: genField(rng, rng.Intn(4) == 0), Source: genField(rng, rng.Intn(4) == 0), Feature: genField(rng, rng.Intn(4) == 0),
		FeatStart: s, FeatEnd: e, FeatScore: genScore(rng), FeatStrand: genStrand(rng), FeatFrame: gff.Frame(rng.Intn(4) - 1),
	}
	na := rng.Intn(5)
	if na > 0 || rng.Intn(4) == 0 {
		f.FeatAttributes = gff.Attributes{}
		for i := 0; i < na; i++ {
			f.FeatAttributes = append(f.FeatAttributes, gff.Attribute{Tag: genTag(rng), Value: genValue(rng)})
		}
	}
	if rng.Intn(3) == 0 {
		f.Comments = genField(rng, true)
	}
	switch rng.Intn(80) {
	case 0:
		f.Comments = genLongField(rng)
	case 1:
		f.FeatAttributes = append(f.FeatAttributes, gff.Attribute{Tag: genTag(rng), Value: strings.ReplaceAll(genLongField(rng), ";", ",")})
	}
	return f
}

func gffNormalise(f *gff.Feature) *gff.Feature {
	c := *f
	if len(c.FeatAttributes) == 0 {
		c.FeatAttributes = nil
	}
	return &c
}

func gffBrief(f *gff.Feature) string {
	sc := "nil"
	if f.FeatScore != nil {
		sc = fmt.Sprint(*f.FeatScore)
	}
	return fmt.Sprintf("%q %q %q [%d,%d) score=%s strand=%d frame=%d attrs=%q comment=%q", f.SeqName, f.Source, f.Feature, f.FeatStart, f.FeatEnd, sc, f.FeatStrand, f.FeatFrame, []gff.Attribute(f.FeatAttributes), f.Comments)
}

func genNoSpace(rng *rand.Rand) string {
	s := genField(rng, false)
	return s
}
