package main

import (
	"bufio"
	"fmt"
	"hash/fnv"
	"os"
	"path/filepath"
	"strconv"
	"strings"
	"sync"

	"verif/harness/internal/obs"
)

// The two affine classes of known_findings.txt are defined by predicates over an alignment (see alnCheck), which by
// themselves would also swallow a new slip in the affine code that happens to meet one of them. On the exhaustive
// families - fixed matrices and every short sequence pair, the same in every run - the cases that meet a predicate on
// the pinned tree are therefore listed one by one (as 64-bit hashes of monitor, class, matrix, aligner, gap-open score
// and the two sequences) in known_affine_cases.txt. A case of those families that meets a predicate and is NOT listed is
// reported under a class of its own, which no known finding covers. Cases that stop meeting a predicate are no concern.
//
// The list is never written by a check. It was produced once from the pinned tree with VERIF_LIST_AFFINE=<file>
// (children append the hashes of the cases they meet to that file; sort -u of it is the committed list).

var (
	alnListedOnce sync.Once
	alnListed     map[uint64]bool
	alnListMu     sync.Mutex
)

func alnCaseHash(which, class string, c alnCase) uint64 {
	h := fnv.New64a()
	fmt.Fprintf(h, "%s|%s|%s|%s|%d|%s|%s", which, class, c.MatrixID, c.Alg, c.Open, c.R, c.Q)
	return h.Sum64()
}

// alnKnownClass returns the class under which a case meeting the predicate of a known affine class is reported.
func alnKnownClass(r *obs.Run, which, class string, c alnCase) string {
	if !strings.HasPrefix(c.MatrixID, "family") {
		return class
	}
	alnListedOnce.Do(func() {
		alnListed = map[uint64]bool{}
		f, err := os.Open(filepath.Join(r.Dir, "known_affine_cases.txt"))
		if err != nil {
			return
		}
		defer f.Close()
		sc := bufio.NewScanner(f)
		for sc.Scan() {
			t := strings.TrimSpace(sc.Text())
			if t == "" || t[0] == '#' {
				continue
			}
			if v, err := strconv.ParseUint(t, 16, 64); err == nil {
				alnListed[v] = true
			}
		}
	})
	h := alnCaseHash(which, class, c)
	if out := os.Getenv("VERIF_LIST_AFFINE"); out != "" {
		alnListMu.Lock()
		if f, err := os.OpenFile(out, os.O_CREATE|os.O_APPEND|os.O_WRONLY, 0o644); err == nil {
			fmt.Fprintf(f, "%016x\n", h)
			f.Close()
		}
		alnListMu.Unlock()
	}
	r.Count("cases_of_the_exhaustive_families_meeting_a_known_affine_predicate", 1)
	if alnListed[h] {
		return class
	}
	return class + "-in-a-case-not-listed"
}
