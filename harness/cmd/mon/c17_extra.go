package main

import (
	"bytes"
	"fmt"

	"github.com/biogo/biogo/align"
	"github.com/biogo/biogo/alphabet"
	"github.com/biogo/biogo/complexity"
	"github.com/biogo/biogo/feat"
	"github.com/biogo/biogo/index/kmerindex"
	"github.com/biogo/biogo/seq/alignment"
	"github.com/biogo/biogo/seq/linear"

	"verif/harness/internal/obs"
)

// C17, second part: alphabets looked at again after the library (or a later constructor call) has had
// its hands on the tables they are made of.

// c17snap is everything an alphabet answers, copied.
type c17snap struct {
	length  int
	letters string
	valid   [256]bool
	index   [256]int
	isValid [256]bool
	indexOf [256]int
	comp    [256]alphabet.Letter
	ok      [256]bool
	table   []alphabet.Letter
	ptable  []alphabet.Letter
}

func c17Snapshot(a alphabet.Alphabet, p *alphabet.Pairing) *c17snap {
	s := &c17snap{length: a.Len(), letters: a.Letters()}
	copy(s.valid[:], a.ValidLetters())
	s.index = *a.LetterIndex()
	c, isComp := a.(alphabet.Complementor)
	for l := 0; l < 256; l++ {
		s.isValid[l] = a.IsValid(alphabet.Letter(l))
		s.indexOf[l] = a.IndexOf(alphabet.Letter(l))
		if isComp {
			s.comp[l], s.ok[l] = c.Complement(alphabet.Letter(l))
		}
	}
	if isComp {
		s.table = append([]alphabet.Letter(nil), c.ComplementTable()...)
	}
	if p != nil {
		s.ptable = append([]alphabet.Letter(nil), p.ComplementTable()...)
	}
	return s
}

// diff names the first answer that differs between two snapshots ("" when there is none).
func (s *c17snap) diff(t *c17snap) string {
	if s.length != t.length || s.letters != t.letters {
		return fmt.Sprintf("Len/Letters %d %q -> %d %q", s.length, s.letters, t.length, t.letters)
	}
	for l := 0; l < 256; l++ {
		switch {
		case s.valid[l] != t.valid[l] || s.isValid[l] != t.isValid[l]:
			return fmt.Sprintf("validity of letter %d: %v -> %v", l, s.isValid[l], t.isValid[l])
		case s.index[l] != t.index[l] || s.indexOf[l] != t.indexOf[l]:
			return fmt.Sprintf("index of letter %d: %d -> %d (table %d -> %d)", l, s.indexOf[l], t.indexOf[l], s.index[l], t.index[l])
		case s.comp[l] != t.comp[l] || s.ok[l] != t.ok[l]:
			return fmt.Sprintf("Complement(%d): %d,%v -> %d,%v", l, s.comp[l], s.ok[l], t.comp[l], t.ok[l])
		}
	}
	if len(s.table) != len(t.table) || len(s.ptable) != len(t.ptable) {
		return "length of a complement table"
	}
	for l := range s.table {
		if s.table[l] != t.table[l] {
			return fmt.Sprintf("ComplementTable()[%d]: %d -> %d", l, s.table[l], t.table[l])
		}
	}
	for l := range s.ptable {
		if s.ptable[l] != t.ptable[l] {
			return fmt.Sprintf("Pairing.ComplementTable()[%d]: %d -> %d", l, s.ptable[l], t.ptable[l])
		}
	}
	return ""
}

// c17CheckImages: the complement of every listed source letter is the image listed for it.
func c17CheckImages(r *obs.Run, name string, c alphabet.Complementor, s, img []byte) {
	for k := range s {
		if got, ok := c.Complement(alphabet.Letter(s[k])); !ok || got != alphabet.Letter(img[k]) {
			r.Violate("complement-image", fmt.Sprintf("%s: Complement(%q)=%q,%v but the pairing lists %q", name, s[k], byte(got), ok, img[k]),
				c17w{name, nil, int(s[k]), "image"})
			return
		}
	}
	r.Count("complement_images_compared", int64(len(s)))
}

// c17SharedPairing hands the pairing p, from which the complementor c1 (already checked) was built, to further
// NewComplementor calls — one with the other case rule, one with a definition that lacks one letter of a
// two-letter pair and so must be refused — and then looks at c1 again: every answer as before, every check as before.
func c17SharedPairing(r *obs.Run, name string, c1 alphabet.Complementor, p *alphabet.Pairing, def, s, img []byte, cased bool, gap, amb alphabet.Letter, paired *[256]bool) {
	before := c17Snapshot(c1, p)
	// the same pairing under the other case rule (accepted or refused: either is fine, the result is not looked at)
	alphabet.NewComplementor(string(def), feat.DNA, p, gap, amb, !cased)
	if r.Rng.Intn(2) == 0 {
		alphabet.NewComplementor(string(bytes.ToUpper(def)), feat.DNA, p, gap, amb, !cased)
	}
	// the definition without one letter of a pair a<->b, a != b, both letters of the alphabet: b's complement
	// would be no letter of the alphabet, so the call must be refused
	for _, k := range r.Rng.Perm(len(s)) {
		a, b := s[k], img[k]
		at := bytes.IndexByte(def, a)
		if a == b || at < 0 || bytes.IndexByte(def, b) < 0 {
			continue
		}
		def2 := append(append([]byte(nil), def[:at]...), def[at+1:]...)
		if c2, err := alphabet.NewComplementor(string(def2), feat.DNA, p, gap, amb, cased); err == nil {
			cl, ok := c2.Complement(alphabet.Letter(b))
			r.Violate("constructor-accepts-invalid", fmt.Sprintf("NewComplementor(%q) accepted the pairing %q/%q (made for %q): the complement of the valid letter %q is %q (ok=%v), which is not a letter of the alphabet (IsValid=%v)",
				def2, s, img, def, b, byte(cl), ok, c2.IsValid(cl)), c17w{"invalid", map[string]string{"letters": string(def2), "pair_s": string(s), "pair_c": string(img)}, nil, "NewComplementor with a pairing made for a larger alphabet"})
		} else {
			r.Count("shared_pairings_refused_for_smaller_alphabet", 1)
		}
		break
	}
	if d := before.diff(c17Snapshot(c1, p)); d != "" {
		r.Violate("complementor-changed", fmt.Sprintf("%s: after later NewComplementor calls with the same *Pairing the first complementor answers differently: %s", name, d),
			c17w{name, map[string]string{"letters": string(def), "pair_s": string(s), "pair_c": string(img)}, nil, "changed by later constructor calls: " + d})
	}
	again := name + " (after later constructor calls with its pairing)"
	c17CheckAlphabet(r, again, c1, string(def), cased)
	c17CheckComplement(r, again, c1, paired, false)
	c17CheckImages(r, again, c1, s, img)
	r.Count("complementors_rechecked_after_sharing_their_pairing", 1)
}

// c17UseBuiltins runs the parts of the library that keep the built-in alphabets' internal tables (LetterIndex,
// ComplementTable, ValidLetters) over sequences that hold every letter value. Whatever these calls return or
// panic with is not C17's business; only what the alphabets answer afterwards is.
func c17UseBuiltins(r *obs.Run) {
	calls := int64(0)
	try := func(f func()) {
		defer func() { recover() }()
		calls++
		f()
	}
	every := func() []alphabet.Letter {
		ls := make([]alphabet.Letter, 0, 300)
		for l := 0; l < 256; l++ {
			ls = append(ls, alphabet.Letter(l))
		}
		return append(ls, alphabet.BytesToLetters([]byte("acgtnACGTN-acgu"))...)
	}
	quals := func(ls []alphabet.Letter) []alphabet.QLetter {
		ql := make([]alphabet.QLetter, len(ls))
		for i, l := range ls {
			ql[i] = alphabet.QLetter{L: l, Q: alphabet.Qphred(i)}
		}
		return ql
	}
	for _, b := range c17Builtins {
		a := b.a
		if _, ok := a.(alphabet.Complementor); ok {
			try(func() { linear.NewSeq("s", every(), a).RevComp() })
			try(func() { linear.NewQSeq("s", quals(every()), a, alphabet.Sanger).RevComp() })
			try(func() {
				var cols [][]alphabet.Letter
				for _, l := range every() {
					cols = append(cols, []alphabet.Letter{l, l ^ 1})
				}
				if m, err := alignment.NewSeq("m", []string{"x", "y"}, cols, a, nil); err == nil {
					m.RevComp()
				}
			})
		}
		// complexity measures tally letters through the index table
		try(func() { s := linear.NewSeq("s", every(), a); complexity.Entropic(s, s.Start(), s.End()) })
		try(func() { s := linear.NewSeq("s", every(), a); complexity.WF(s, s.Start(), s.End()) })
		try(func() { s := linear.NewSeq("s", every()[90:130], a); complexity.Z(s, s.Start(), s.End()) })
		if a.IndexOf(a.Gap()) != 0 {
			continue
		}
		// the aligners: a scoring matrix of the alphabet's size, sequences of valid letters and one with an illegal letter
		n := a.Len()
		m := make(align.Linear, n)
		for i := range m {
			m[i] = make([]int, n)
			for j := range m[i] {
				switch {
				case i == 0 || j == 0:
					m[i][j] = -2
				case i == j:
					m[i][j] = 2
				default:
					m[i][j] = -1
				}
			}
		}
		m[0][0] = 0
		good := func() []alphabet.Letter {
			var ls []alphabet.Letter
			for k := 0; k < 24; k++ {
				ls = append(ls, a.Letter(1+(k*k+k/3)%(n-1)))
			}
			return ls
		}
		for _, al := range []align.Aligner{align.NW(m), align.SW(m), align.Fitted(m),
			align.NWAffine{Matrix: m, GapOpen: -3}, align.SWAffine{Matrix: m, GapOpen: -3}, align.FittedAffine{Matrix: m, GapOpen: -3}} {
			al := al
			try(func() { al.Align(linear.NewSeq("r", good(), a), linear.NewSeq("q", good()[3:17], a)) })
			try(func() {
				al.Align(linear.NewSeq("r", good(), a), linear.NewSeq("q", append(good()[:9], 0xfe, '-', '!'), a))
			})
			try(func() {
				al.Align(linear.NewQSeq("r", quals(good()), a, alphabet.Sanger), linear.NewQSeq("q", quals(append(good()[5:20], '?')), a, alphabet.Sanger))
			})
		}
	}
	// the k-mer index keeps LetterIndex of the four-letter alphabets
	for _, a := range []alphabet.Alphabet{alphabet.DNA, alphabet.RNA} {
		a := a
		try(func() {
			s := linear.NewSeq("s", append(alphabet.BytesToLetters([]byte("acgtacggtcaNnacgatcgatcgaUutagc-gatcgatgcatcg")), every()...), a)
			if ki, err := kmerindex.New(4, s); err == nil {
				ki.Build()
				ki.KmerIndex()
				ki.ForEachKmerOf(s, 0, s.Len(), func(*kmerindex.Index, int, int) {})
			}
		})
	}
	r.Count("library_calls_on_builtins_before_recheck", calls)
}
