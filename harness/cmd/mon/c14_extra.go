package main

import (
	"math/rand"

	"github.com/biogo/biogo/align/pals/filter"
)

// C14 — helpers of the later extensions: the other strand in a self comparison, sequence offsets, long repeats,
// the parameter region pals.Optimise chooses, several uses of one Filter, several Filters on one index.

func c14RevComp(b []byte) []byte {
	out := make([]byte, len(b))
	for i, c := range b {
		switch c {
		case 'A':
			c = 'T'
		case 'C':
			c = 'G'
		case 'G':
			c = 'C'
		case 'T':
			c = 'A'
		}
		out[len(b)-1-i] = c
	}
	return out
}

// c14Mirror: in a comparison of a sequence with its own reverse complement every match has a mirror image, the same
// two stretches of the sequence with their roles exchanged.
func c14Mirror(m c14Match, tl, n int) c14Match {
	return c14Match{tl - n - m.Q0, tl - n - m.T0, m.Mism}
}

// c14Missed lists the matches no hit covers. With mirror set a match also counts as covered when its mirror image is.
func c14Missed(ms []c14Match, hits []filter.Hit, p c14Params, tl, dT, dQ int, mirror bool) []c14Match {
	var out []c14Match
	for _, m := range ms {
		if c14Covered(m, hits, p, dT, dQ) || mirror && c14Covered(c14Mirror(m, tl, p.N), hits, p, dT, dQ) {
			continue
		}
		out = append(out, m)
	}
	return out
}

// c14Spaced returns a copy of w with substitutions at least ceil(n/e) letters apart, so that no window of n letters
// holds more than e of them (none for e = 0).
func c14Spaced(rng *rand.Rand, w []byte, n, e int) []byte {
	out := append([]byte(nil), w...)
	if e == 0 {
		return out
	}
	step := (n + e - 1) / e
	for p := rng.Intn(step + 1); p < len(out); p += step + rng.Intn(n) {
		for {
			c := "ACGT"[rng.Intn(4)]
			if c != out[p] {
				out[p] = c
				break
			}
		}
	}
	return out
}

// c14Scramble returns a query of length n that shares material with q and with the target t: stretches of both,
// some letters changed, so that a filter working on it fills tubes of the same index.
func c14Scramble(rng *rand.Rand, t, q []byte, n int) []byte {
	out := c14Rand(rng, n)
	for k := 0; k < 3+n/200; k++ {
		src := q
		if k%2 == 1 {
			src = t
		}
		l := 1 + rng.Intn(minInt(len(src), n))
		copy(out[rng.Intn(n-l+1):], src[rng.Intn(len(src)-l+1):][:l])
	}
	for k := 0; k < n/8+1; k++ {
		out[rng.Intn(n)] = "ACGT"[rng.Intn(4)]
	}
	return out
}

var c14SeqOffsets = []int{1, 17, 1000, -5, -(1 << 20), 1 << 33}
