package main

import (
	"bytes"
	"errors"
	"fmt"
	"github.com/biogo/biogo/io/seqio"
	"io"
	"math/rand"
	"strings"
	"sync/atomic"

	"github.com/biogo/biogo/alphabet"
	"github.com/biogo/biogo/io/seqio/fasta"
	"github.com/biogo/biogo/io/seqio/fastq"
	"github.com/biogo/biogo/seq"
	"github.com/biogo/biogo/seq/linear"
)

// Shared generators and helpers for the sequence I/O monitors (C01, C03, C04).

type ioRec struct {
	Name    string `json:"name"`
	Desc    string `json:"desc"`
	Letters string `json:"letters"`
	Quals   []byte `json:"quals,omitempty"` // Phred values, nil for plain records
}

func (a ioRec) brief() map[string]interface{} {
	l := a.Letters
	if len(l) > 60 {
		l = fmt.Sprintf("%s...(%d letters)", l[:60], len(l))
	}
	m := map[string]interface{}{"name": a.Name, "desc": a.Desc, "letters": l}
	if a.Quals != nil {
		q := a.Quals
		if len(q) > 30 {
			q = q[:30]
		}
		m["quals_head"] = fmt.Sprint(q)
	}
	return m
}

type ioAlpha struct {
	name string
	a    alphabet.Alphabet
}

var ioAlphas = []ioAlpha{
	{"DNA", alphabet.DNA}, {"DNAgapped", alphabet.DNAgapped}, {"DNAredundant", alphabet.DNAredundant},
	{"RNA", alphabet.RNA}, {"RNAgapped", alphabet.RNAgapped}, {"RNAredundant", alphabet.RNAredundant},
	{"Protein", alphabet.Protein},
}

var ioPhredEncs = []alphabet.Encoding{alphabet.Sanger, alphabet.Illumina1_3, alphabet.Illumina1_5, alphabet.Illumina1_8, alphabet.Illumina1_9}

func genName(rng *rand.Rand) string {
	n := rng.Intn(13)
	if rng.Intn(12) == 0 {
		n = 0
	}
	if rng.Intn(50) == 0 { // a name that ends next to a multiple of a 4096-byte read buffer (one prefix byte precedes it)
		n = []int{4090, 8186}[rng.Intn(2)] + rng.Intn(11)
	}
	b := make([]byte, n)
	special := ">@+#;:|=~!"
	for i := range b {
		switch rng.Intn(5) {
		case 0:
			b[i] = special[rng.Intn(len(special))]
		default:
			b[i] = byte(33 + rng.Intn(94))
		}
	}
	if n > 0 && rng.Intn(3) == 0 {
		b[0] = ">@+#"[rng.Intn(4)]
	}
	return string(b)
}

func genWord(rng *rand.Rand, max int) string {
	n := 1 + rng.Intn(max)
	b := make([]byte, n)
	for i := range b {
		if rng.Intn(6) == 0 {
			b[i] = ">@+#;="[rng.Intn(6)]
		} else {
			b[i] = byte(33 + rng.Intn(94))
		}
	}
	return string(b)
}

func genDesc(rng *rand.Rand) string {
	nw := rng.Intn(5)
	if nw == 0 {
		return ""
	}
	if rng.Intn(25) == 0 { // a header line several read buffers long, with blanks all along it
		nw = 700 + rng.Intn(1200)
	}
	var sb strings.Builder
	for i := 0; i < nw; i++ {
		if i > 0 {
			switch rng.Intn(4) {
			case 0:
				sb.WriteString("  ")
			case 1:
				sb.WriteString("\t")
			default:
				sb.WriteString(" ")
			}
		}
		sb.WriteString(genWord(rng, 8))
	}
	return sb.String()
}

func genLetters(rng *rand.Rand, a alphabet.Alphabet, n int) string {
	letters := a.Letters() // lower + upper for the built-ins
	b := make([]byte, n)
	mode := rng.Intn(3)
	for i := range b {
		switch mode {
		case 0:
			b[i] = letters[rng.Intn(len(letters))]
		case 1:
			b[i] = letters[rng.Intn(len(letters)/2)]
		default:
			b[i] = letters[len(letters)/2+rng.Intn(len(letters)/2)]
		}
	}
	return string(b)
}

func genLen(rng *rand.Rand, width int, big bool) int {
	if !big {
		switch rng.Intn(8) {
		case 0:
			return 0
		case 1:
			return 1
		case 2:
			return maxInt(width-1, 0)
		case 3:
			return width
		case 4:
			return width + 1
		default:
			return rng.Intn(200)
		}
	}
	if rng.Intn(12) == 0 { // longer than a 64 KiB line buffer (bufio.Scanner's default limit), up to a few of them
		return 65530 + rng.Intn(80000)
	}
	switch rng.Intn(8) {
	case 0:
		return 4095
	case 1:
		return 4096
	case 2:
		return 4097
	case 3:
		return 8191
	case 4:
		return 8193
	case 5:
		return 8192
	default:
		return rng.Intn(20000)
	}
}

func maxInt(a, b int) int {
	if a > b {
		return a
	}
	return b
}

func genQuals(rng *rand.Rand, enc alphabet.Encoding, n int) []byte {
	lo, hi := phredRange(enc)
	q := make([]byte, n)
	mode := rng.Intn(4)
	for i := range q {
		switch mode {
		case 0:
			q[i] = byte(lo + rng.Intn(hi-lo+1))
		case 1:
			q[i] = byte(hi - rng.Intn(3))
		case 2:
			q[i] = byte(lo + rng.Intn(3))
		default:
			q[i] = byte(lo + rng.Intn(minInt(41, hi-lo+1)))
		}
	}
	if n > 0 && rng.Intn(3) == 0 {
		// make the quality string start with '@' or '+' where the encoding can express it
		for _, c := range []byte{'@', '+'} {
			v := int(c) - phredOffset(enc)
			if v >= lo && v <= hi && rng.Intn(2) == 0 {
				q[0] = byte(v)
			}
		}
	}
	return q
}

func (a ioRec) toSeq(al alphabet.Alphabet, enc alphabet.Encoding, quality bool) seq.Sequence {
	if quality {
		ql := make([]alphabet.QLetter, len(a.Letters))
		for i := range ql {
			ql[i] = alphabet.QLetter{L: alphabet.Letter(a.Letters[i]), Q: alphabet.Qphred(a.Quals[i])}
		}
		s := linear.NewQSeq(a.Name, ql, al, enc)
		s.Desc = a.Desc
		return s
	}
	s := linear.NewSeq(a.Name, alphabet.BytesToLetters([]byte(a.Letters)), al)
	s.Desc = a.Desc
	return s
}

func seqToRec(s seq.Sequence, quality bool) ioRec {
	r := ioRec{Name: s.Name(), Desc: s.Description()}
	b := make([]byte, s.Len())
	var q []byte
	if quality {
		q = make([]byte, s.Len())
	}
	for i := 0; i < s.Len(); i++ {
		ql := s.At(s.Start() + i)
		b[i] = byte(ql.L)
		if quality {
			q[i] = byte(ql.Q)
		}
	}
	r.Letters = string(b)
	r.Quals = q
	return r
}

func recEqual(a, b ioRec, quality bool) string {
	switch {
	case a.Name != b.Name:
		return fmt.Sprintf("name %q != %q", a.Name, b.Name)
	case a.Desc != b.Desc:
		return fmt.Sprintf("description %q != %q", a.Desc, b.Desc)
	case a.Letters != b.Letters:
		return fmt.Sprintf("letters differ (len %d vs %d, first difference at %d)", len(a.Letters), len(b.Letters), firstDiff(a.Letters, b.Letters))
	case quality && !bytes.Equal(a.Quals, b.Quals):
		return fmt.Sprintf("qualities differ (first difference at %d)", firstDiff(string(a.Quals), string(b.Quals)))
	}
	return ""
}

func firstDiff(a, b string) int {
	n := minInt(len(a), len(b))
	for i := 0; i < n; i++ {
		if a[i] != b[i] {
			return i
		}
	}
	return n
}

// countingWriter records the bytes emitted.
type countingWriter struct{ buf bytes.Buffer }

func (w *countingWriter) Write(p []byte) (int, error) { return w.buf.Write(p) }

// limitWriter accepts budget bytes in all; the call that crosses the budget is a short write with an error, and
// every later call fails outright.
type limitWriter struct {
	budget, got int
	failed      bool
	want        []byte // when set: the stream a fault-free run emitted; the bytes accepted must be its prefix
	differs     bool   // an accepted byte was not the byte of want at that place
	diffAt      int
	// eager: the call whose bytes use up the budget exactly is accepted in full AND returns the error (a device that
	// reports "full" together with the last bytes it took), instead of the error coming with the next call
	eager bool
}

// check compares the n bytes of p being accepted at offset w.got with the expected stream.
func (w *limitWriter) check(p []byte, n int) {
	if w.want == nil || w.differs {
		return
	}
	for i := 0; i < n; i++ {
		if w.got+i >= len(w.want) || w.want[w.got+i] != p[i] {
			w.differs, w.diffAt = true, w.got+i
			return
		}
	}
}

var errWriteFault = errors.New("verif: injected write failure")

func (w *limitWriter) Write(p []byte) (int, error) {
	if w.failed {
		return 0, errWriteFault
	}
	if w.got+len(p) > w.budget {
		n := w.budget - w.got
		w.check(p, n)
		w.got += n
		w.failed = true
		return n, errWriteFault
	}
	w.check(p, len(p))
	w.got += len(p)
	if w.eager && w.got == w.budget && len(p) > 0 {
		w.failed = true
		return len(p), errWriteFault
	}
	return len(p), nil
}

// richWriter is a destination that, like *bufio.Writer, *bytes.Buffer or *os.File, offers WriteByte and WriteString
// besides Write. All three go through the wrapped writer, so they count into the same buffer and honour the same
// byte budget; the calls taken through the two extra methods are counted.
type richWriter struct {
	w                      io.Writer
	byteCalls, stringCalls int64
}

func (w *richWriter) Write(p []byte) (int, error) { return w.w.Write(p) }

func (w *richWriter) WriteByte(c byte) error {
	w.byteCalls++
	_, err := w.w.Write([]byte{c})
	return err
}

func (w *richWriter) WriteString(s string) (int, error) {
	w.stringCalls++
	return w.w.Write([]byte(s))
}

// windowWriter accepts everything while open. While failing it accepts cut more bytes, then short-writes with an
// error and refuses every further call until it is opened again (a disk that was full for a moment, a pipe that
// timed out once).
type windowWriter struct {
	buf     bytes.Buffer
	failing bool
	cut     int
}

func (w *windowWriter) Write(p []byte) (int, error) {
	if !w.failing {
		return w.buf.Write(p)
	}
	if w.cut > 0 && w.cut >= len(p) {
		w.cut -= len(p)
		return w.buf.Write(p)
	}
	n := w.cut
	w.buf.Write(p[:n])
	w.cut = 0
	return n, errWriteFault
}

// chunkReader delivers data in irregular small chunks and records whether EOF was delivered.
type chunkReader struct {
	data    []byte
	pos     int
	rng     *rand.Rand
	eof     bool
	eofFlag int32
	maxLen  int
	failing bool // the source fails (every read from offset failAt on returns errSourceFault) instead of ending
	failAt  int
}

// errSourceFault is what a chunkReader with failAt set returns, from that offset on, instead of data.
var errSourceFault = errors.New("verif: injected read failure")

func (c *chunkReader) Read(p []byte) (int, error) {
	if c.failing && c.pos >= c.failAt {
		c.eof = true
		atomic.StoreInt32(&c.eofFlag, 1)
		return 0, errSourceFault
	}
	if c.failing && c.pos < c.failAt && len(p) > c.failAt-c.pos {
		p = p[:c.failAt-c.pos]
	}
	if c.pos >= len(c.data) {
		c.eof = true
		atomic.StoreInt32(&c.eofFlag, 1)
		return 0, io.EOF
	}
	n := len(p)
	if c.maxLen > 0 && n > c.maxLen {
		n = 1 + c.rng.Intn(c.maxLen)
	}
	if n > len(c.data)-c.pos {
		n = len(c.data) - c.pos
	}
	copy(p, c.data[c.pos:c.pos+n])
	c.pos += n
	return n, nil
}

func newSrc(rng *rand.Rand, data []byte) *chunkReader {
	c := &chunkReader{data: data, rng: rng}
	switch rng.Intn(3) {
	case 0:
		c.maxLen = 7
	case 1:
		c.maxLen = 700
	}
	return c
}

// ioTemplate returns the empty sequence a reader clones for every record; a third of them are empty with room to
// spare (a buffer the caller pre-sized), which must not end up shared between the records.
func ioTemplate(rng *rand.Rand, al alphabet.Alphabet, quality bool, enc alphabet.Encoding) seqio.SequenceAppender {
	room := 0
	if rng.Intn(3) == 0 {
		room = []int{16, 1024, 70000}[rng.Intn(3)]
		atomic.AddInt64(&ioRoomyTemplates, 1)
	}
	if quality {
		t := linear.NewQSeq("", nil, al, enc)
		if room > 0 {
			t.Seq = make(alphabet.QLetters, 0, room)
		}
		return t
	}
	t := linear.NewSeq("", nil, al)
	if room > 0 {
		t.Seq = make(alphabet.Letters, 0, room)
	}
	return t
}

// ioRoomyTemplates counts the templates made with spare capacity (read by the monitors for their evidence).
var ioRoomyTemplates int64

// readAllFasta reads every record from data.
func readAllFasta(rng *rand.Rand, data []byte, al alphabet.Alphabet, maxCalls int) ([]seq.Sequence, error, int) {
	// half of the time the quality-carrying type is the template: letters arrive through its own AppendLetters
	tmpl := ioTemplate(rng, al, rng.Intn(2) == 0, alphabet.Sanger)
	return readAllFastaFrom(newSrc(rng, data), tmpl, maxCalls)
}

// readAllFastaFrom reads every record from src (which may be a *bufio.Reader of the caller's own size: the reader
// then works with that buffer) into clones of tmpl.
func readAllFastaFrom(src io.Reader, tmpl seqio.SequenceAppender, maxCalls int) ([]seq.Sequence, error, int) {
	rd := fasta.NewReader(src, tmpl)
	var out []seq.Sequence
	for calls := 1; ; calls++ {
		s, err := rd.Read()
		if err != nil {
			if err == io.EOF {
				return out, nil, calls
			}
			return out, err, calls
		}
		out = append(out, s)
		if calls > maxCalls {
			return out, fmt.Errorf("no EOF after %d calls", calls), calls
		}
	}
}

func readAllFastq(rng *rand.Rand, data []byte, al alphabet.Alphabet, enc alphabet.Encoding, plainTemplate bool, maxCalls int) ([]seq.Sequence, error, int) {
	src := newSrc(rng, data)
	return readAllFastqFrom(src, ioTemplate(rng, al, !plainTemplate, enc), maxCalls)
}

func readAllFastqFrom(src io.Reader, tmpl seqio.SequenceAppender, maxCalls int) ([]seq.Sequence, error, int) {
	rd := fastq.NewReader(src, tmpl)
	var out []seq.Sequence
	for calls := 1; ; calls++ {
		s, err := rd.Read()
		if err != nil {
			if err == io.EOF {
				return out, nil, calls
			}
			return out, err, calls
		}
		out = append(out, s)
		if calls > maxCalls {
			return out, fmt.Errorf("no EOF after %d calls", calls), calls
		}
	}
}

// refParseFasta is an independent reader for the canonical writer output.
func refParseFasta(data []byte) ([]ioRec, error) {
	var out []ioRec
	if len(data) == 0 {
		return nil, nil
	}
	if data[len(data)-1] != '\n' {
		return nil, fmt.Errorf("output does not end in a newline")
	}
	lines := strings.Split(string(data[:len(data)-1]), "\n")
	for _, ln := range lines {
		if strings.HasPrefix(ln, ">") {
			h := ln[1:]
			rec := ioRec{}
			if i := strings.IndexAny(h, " \t"); i >= 0 {
				rec.Name, rec.Desc = h[:i], h[i+1:]
			} else {
				rec.Name = h
			}
			out = append(out, rec)
			continue
		}
		if len(out) == 0 {
			return nil, fmt.Errorf("sequence line before any header")
		}
		out[len(out)-1].Letters += ln
	}
	return out, nil
}

// refParseFastq is an independent strict four-line reader.
func refParseFastq(data []byte, offset int) ([]ioRec, error) {
	if len(data) == 0 {
		return nil, nil
	}
	if data[len(data)-1] != '\n' {
		return nil, fmt.Errorf("output does not end in a newline")
	}
	lines := strings.Split(string(data[:len(data)-1]), "\n")
	if len(lines)%4 != 0 {
		return nil, fmt.Errorf("%d lines is not a multiple of four", len(lines))
	}
	var out []ioRec
	for i := 0; i < len(lines); i += 4 {
		if !strings.HasPrefix(lines[i], "@") || !strings.HasPrefix(lines[i+2], "+") {
			return nil, fmt.Errorf("record %d: bad @ or + line", i/4)
		}
		h := lines[i][1:]
		rec := ioRec{}
		if k := strings.IndexAny(h, " \t"); k >= 0 {
			rec.Name, rec.Desc = h[:k], h[k+1:]
		} else {
			rec.Name = h
		}
		if lines[i+2] != "+" && lines[i+2][1:] != h {
			return nil, fmt.Errorf("record %d: + line %q does not repeat the header", i/4, lines[i+2])
		}
		rec.Letters = lines[i+1]
		if len(lines[i+3]) != len(lines[i+1]) {
			return nil, fmt.Errorf("record %d: quality length %d != sequence length %d", i/4, len(lines[i+3]), len(lines[i+1]))
		}
		rec.Quals = make([]byte, len(lines[i+3]))
		for k := range rec.Quals {
			rec.Quals[k] = lines[i+3][k] - byte(offset)
		}
		out = append(out, rec)
	}
	return out, nil
}

// gateWriter accepts everything while open and refuses every call (0 bytes, an error) while closed.
type gateWriter struct {
	buf    bytes.Buffer
	closed bool
}

var errGateClosed = errors.New("harness: the underlying writer refuses this call")

func (g *gateWriter) Write(p []byte) (int, error) {
	if g.closed {
		return 0, errGateClosed
	}
	return g.buf.Write(p)
}
