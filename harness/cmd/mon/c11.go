package main

import (
	"fmt"
	"io"
	"math/rand"
	"os"
	"sort"
	"sync/atomic"
	"time"

	"github.com/biogo/biogo/morass"

	"verif/harness/internal/obs"
)

// C11 — external sort yields the sorted multiset of its input for every usage history.
// (The history runner is shared with C13, which adds file-system residue checks.)

type c11Int int

func (i c11Int) Less(j interface{}) bool { return i < j.(c11Int) }

type c11S struct {
	K int
	P int
}

func (s c11S) Less(j interface{}) bool { return s.K < j.(c11S).K }

type c11Cycle struct {
	Keys  []int  `json:"keys"`
	Drain string `json:"drain"` // none, one, half, all, all+extra
	Twice bool   `json:"finalise_called_twice,omitempty"`
	// Faulted: the sorter's directory is missing during this cycle, so its spills fail; the directory is put back and
	// Clear called before the next cycle, which is held to the property like any other ("whatever earlier cycles did").
	Faulted bool `json:"directory_missing_during_this_cycle,omitempty"`
	// WriteFault > 0: the n-th write to a run file made during this cycle fails (the cycle is then given up: finalised or
	// not, its errors ignored, Clear called - which must succeed); the cycles after it are judged as always.
	WriteFault int `json:"failing_run_file_write_of_this_cycle,omitempty"`
	// Abandoned: the values are pushed and the cycle is given up with Clear, without Finalise (the background writers of a
	// concurrent sorter may still be at work when Clear is called); the cycles after it are judged as always.
	Abandoned bool `json:"abandoned_with_clear_before_finalise,omitempty"`
	// ForeignPush (1-based, 0 = none): before the push with this number (len+1: after the last push) a value of another
	// type is pushed. BadPull (1-based, 0 = none): before the pull with this number, while values remain, Pull is called
	// with a destination it cannot set. A call the sorter refuses has pushed or pulled nothing: Pos and Len stay and the
	// cycle goes on as if the call had not been made.
	ForeignPush int `json:"value_of_another_type_pushed_before_push_number,omitempty"`
	BadPull     int `json:"pull_into_a_non_pointer_before_pull_number,omitempty"`
}

type c11Hist struct {
	Chunk      int  `json:"chunk_size"`
	Concurrent bool `json:"concurrent"`
	Struct     bool `json:"struct_elements"`
	// AltStruct: the struct elements are of a type called c11S too, but declared in another package
	AltStruct bool `json:"struct_type_of_another_package_with_the_same_name,omitempty"`
	AutoClear bool `json:"auto_clear"`
	AutoClean bool `json:"auto_clean"`
	// Prefix: the name pattern handed to morass.New for the sorter's directory and run files ("" = "run"); a '*' in it is
	// replaced by the random part of the name, as ioutil.TempFile documents
	Prefix string     `json:"prefix,omitempty"`
	Cycles []c11Cycle `json:"cycles"`
	// Elem: flavour of the struct element type: "" (c11S), "gob-registered" / "gob-registered-by-name" (the harness has
	// registered the type with gob itself), "rich" (string, float, bool, nested struct, slice and map fields)
	Elem string `json:"struct_flavour,omitempty"`
	// ReuseDest: every Pull of a cycle writes into the same variable; a third of the struct payloads are 0
	ReuseDest bool `json:"one_destination_variable_for_all_pulls,omitempty"`
	// LowFdLimit: the history runs with a descriptor limit of 40 above what is open at its start, collector off
	LowFdLimit bool `json:"descriptor_limit_lowered,omitempty"`
	// LateFlags: the sorter starts with AutoClear and AutoClean off; the caller sets the history's flags (public fields)
	// only when it knows which cycle is the last: at the start of cycle FlagsFrom or, with FlagsMidDrain, after half of
	// that cycle's pulls. Only histories with AutoClean have it.
	LateFlags     bool `json:"flags_set_later,omitempty"`
	FlagsFrom     int  `json:"flags_set_from_cycle,omitempty"`
	FlagsMidDrain bool `json:"flags_set_half_way_through_that_cycles_pulls,omitempty"`
}

// c11LateFlags lets half of the histories with AutoClean set their flags late.
func c11LateFlags(rng *rand.Rand, h *c11Hist) {
	if !h.AutoClean || len(h.Cycles) == 0 || rng.Intn(2) == 0 {
		return
	}
	h.LateFlags, h.FlagsFrom, h.FlagsMidDrain = true, rng.Intn(len(h.Cycles)), rng.Intn(2) == 0
}

func (h c11Hist) word() string {
	w := fmt.Sprintf("c%d/conc%v/s%v/ac%v/", h.Chunk, h.Concurrent, h.Struct, h.AutoClear)
	for _, c := range h.Cycles {
		mode := "mem"
		if len(c.Keys) >= h.Chunk {
			mode = "disk"
		}
		w += fmt.Sprintf("%s:%d:%s;", mode, len(c.Keys), c.Drain)
		if c.Twice {
			w += "F2;"
		}
		if c.Faulted {
			w += "X;"
		}
		if c.Abandoned {
			w += "A;"
		}
	}
	if h.LateFlags {
		w += fmt.Sprintf("late%d%v", h.FlagsFrom, h.FlagsMidDrain)
	}
	return w
}

func c11GenHist(rng *rand.Rand, maxCycles int) c11Hist {
	h := c11Hist{Chunk: []int{1, 2, 3, 7, 64}[rng.Intn(5)], Concurrent: rng.Intn(2) == 0, Struct: rng.Intn(2) == 0, AutoClear: rng.Intn(2) == 0}
	big := rng.Intn(20) == 0
	if big { // chunk sizes past the sizes at which slices are usually pre-sized or grown in steps
		h.Chunk = []int{1025, 1500, 2100, 4097}[rng.Intn(4)]
	}
	n := 1 + rng.Intn(maxCycles)
	if big && n > 3 {
		n = 3
	}
	for i := 0; i < n; i++ {
		c := h.Chunk
		cnt := []int{0, 1, c - 1, c, c + 1, 2 * c, 3*c + 2, rng.Intn(8*c + 1)}[rng.Intn(8)]
		if big {
			cnt = []int{c - 1, c, c + 1, c + 1 + rng.Intn(c/2), 2 * c, 2*c + 1 + rng.Intn(c/2)}[rng.Intn(6)]
		} else if cnt > 400 {
			cnt = 400
		}
		keys := make([]int, cnt)
		span := 1 + rng.Intn(3*cnt+2)
		for k := range keys {
			keys[k] = rng.Intn(span) - span/2
		}
		h.Cycles = append(h.Cycles, c11Cycle{Keys: keys, Drain: []string{"none", "one", "half", "all", "all", "all+extra"}[rng.Intn(6)], Twice: rng.Intn(8) == 0})
	}
	h.AltStruct = h.Struct && rng.Intn(3) == 0
	if rng.Intn(4) == 0 {
		h.Prefix = []string{"sort-*.run", "*", "x*y"}[rng.Intn(3)]
	}
	// AutoClean: the first cycle drained to io.EOF is the sorter's last (the history stops there)
	h.AutoClean = rng.Intn(6) == 0
	c11LateFlags(rng, &h)
	for i := 0; i+1 < len(h.Cycles); i++ {
		if rng.Intn(8) == 0 {
			h.Cycles[i].Abandoned = true
		}
	}
	if !h.AutoClean && !big {
		for i := 0; i+1 < len(h.Cycles); i++ {
			if len(h.Cycles[i].Keys) >= h.Chunk && rng.Intn(8) == 0 {
				h.Cycles[i].Faulted = true
			}
		}
	}
	if !h.AutoClean && !big {
		for i := 0; i+1 < len(h.Cycles); i++ {
			if c := &h.Cycles[i]; !c.Faulted && len(c.Keys) > h.Chunk && rng.Intn(8) == 0 {
				c.WriteFault = 1 + rng.Intn(len(c.Keys))
				if h.Concurrent && rng.Intn(2) == 0 {
					c.Abandoned = true // Clear meets a background writer whose write is about to fail
				}
			}
		}
	}
	if h.Struct && !h.AltStruct && rng.Intn(3) == 0 {
		h.Elem = []string{"gob-registered", "gob-registered-by-name", "rich"}[rng.Intn(3)]
	}
	h.ReuseDest = rng.Intn(2) == 0
	for i := range h.Cycles {
		c := &h.Cycles[i]
		if c.Abandoned || c.Faulted || c.WriteFault > 0 {
			continue
		}
		if rng.Intn(8) == 0 {
			c.ForeignPush = 1 + rng.Intn(len(c.Keys)+1)
		}
		if rng.Intn(8) == 0 && len(c.Keys) > 0 {
			// before pull number 1..want+1, but only while a value remains
			want := map[string]int{"none": 0, "one": 1, "half": len(c.Keys) / 2}[c.Drain]
			if c.Drain == "all" || c.Drain == "all+extra" {
				want = len(c.Keys)
			}
			c.BadPull = 1 + rng.Intn(minInt(want, len(c.Keys)-1)+1)
		}
	}
	return h
}

// c11Enumerated returns the history for the systematic part: every memory/disk ordering of up to 3 cycles
// times drain modes, AutoClear and concurrency.
func c11Enumerated(idx int, rng *rand.Rand) (c11Hist, bool) {
	drains := []string{"none", "one", "half", "all", "all+extra"}
	// idx encodes: ncycles(1..3), per cycle (mode 2 x drain 5), autoClear 2, concurrent 2, chunk 2
	total := 0
	for n := 1; n <= 3; n++ {
		per := 1
		for k := 0; k < n; k++ {
			per *= 10
		}
		if idx < total+per*8 {
			e := idx - total
			flags := e % 8
			e /= 8
			h := c11Hist{Chunk: []int{3, 7}[flags&1], AutoClear: flags&2 != 0, Concurrent: flags&4 != 0, Struct: rng.Intn(2) == 0}
			for k := 0; k < n; k++ {
				d := e % 10
				e /= 10
				cnt := h.Chunk - 1 - rng.Intn(2) // memory
				if d >= 5 {
					cnt = h.Chunk + rng.Intn(2*h.Chunk+2) // disk
				}
				keys := make([]int, cnt)
				for x := range keys {
					keys[x] = rng.Intn(2*cnt+3) - cnt
				}
				h.Cycles = append(h.Cycles, c11Cycle{Keys: keys, Drain: drains[d%5]})
			}
			h.ReuseDest = rng.Intn(2) == 0
			return h, true
		}
		total += per * 8
	}
	return c11Hist{}, false
}

const c11EnumTotal = (10 + 100 + 1000) * 8

type c11Result struct {
	class, what     string
	spills          int
	memCycles       int
	pulls           int
	writeFaulted    int    // cycles in which a write to a run file was made to fail
	abandoned       int    // cycles given up with Clear before Finalise
	abandonedDir    bool   // ... in a history whose directory is inspected (C13)
	faulted         int    // cycles run with the directory missing
	faultedSeen     int    // ... in which Push or Finalise reported an error
	dir             string // the sorter's scratch parent directory (caller removes it)
	residue         []string
	refusedPush     int  // pushes of a value of another type that the sorter refused
	refusedPull     int  // pulls into a destination that cannot be set
	foreignTaken    bool // the sorter accepted a value of another type: the rest of the history is not judged
	reusedPulls     int  // pulls into a destination variable that already held an earlier value
	lateFlagSets    int  // times the caller set AutoClear/AutoClean on a sorter already in use
	lateWriteFaults int  // write failures of a background writer that arrived after the caller had moved on to Finalise/Clear
}

// c11RunHist executes a history on a real Morass, checking the model after every call.
// scratch is a private directory; the sorter creates its own temp dir inside it.
func c11RunHist(r *obs.Run, h c11Hist, scratch string, checkResidue bool) (res c11Result) {
	m, sorterDir, err := c11NewSorter(h, scratch, nil)
	if err != nil {
		res.class, res.what = "harness", "morass.New: "+err.Error()
		return
	}
	return c11RunOn(h, m, sorterDir, checkResidue)
}

// c11RunOn runs the history on the sorter m, whose own directory is sorterDir ("" if unknown). It talks to nothing but
// the sorter and the file system, so two of them may run side by side.
func c11RunOn(h c11Hist, m *morass.Morass, sorterDir string, checkResidue bool) (res c11Result) {
	el := c11ElemOf(h)
	fail := func(class, what string) c11Result {
		res.class, res.what = class, what
		return res
	}
	payload := 0
	cleanedByAutoClean := false
	// the flags in force: the history's own, or none until a late-setting caller sets them
	autoClear, autoClean := h.AutoClear, h.AutoClean
	if h.LateFlags {
		autoClear, autoClean = false, false
		m.AutoClear, m.AutoClean = false, false
	}
	setFlags := func() {
		autoClear, autoClean = h.AutoClear, h.AutoClean
		m.AutoClear, m.AutoClean = h.AutoClear, h.AutoClean
		res.lateFlagSets++
	}
	for ci, cyc := range h.Cycles {
		if h.LateFlags && ci == h.FlagsFrom && !h.FlagsMidDrain {
			setFlags()
		}
		when := func(s string) string {
			return fmt.Sprintf("cycle %d (%d pushes, chunk %d): %s", ci, len(cyc.Keys), h.Chunk, s)
		}
		if cyc.WriteFault > 0 && !cyc.Faulted {
			// a cycle in which a write to a run file fails (its errors are C13's business); given up with Clear, after
			// Finalise or - when the cycle is an abandoned one - with background writers possibly still at work
			var nw int64
			// in concurrent mode the failing write is held back until the caller is about to give the cycle up, so that
			// the failure arrives while Finalise or Clear is already under way (bounded: a Push may be waiting for that
			// very writer)
			var gate chan struct{}
			var fired int32
			if h.Concurrent {
				gate = make(chan struct{})
			}
			morass.VerifSetWrap(func(f *os.File) (io.Writer, io.Reader) {
				return c11FailWriter{f, &nw, int64(cyc.WriteFault), gate, &fired}, f
			})
			for _, k := range cyc.Keys {
				if err := m.Push(el.mk(k, -3)); err != nil {
					break
				}
			}
			if gate != nil {
				close(gate)
			}
			if !cyc.Abandoned {
				m.Finalise()
			}
			err := m.Clear()
			if atomic.LoadInt32(&fired) == 2 {
				res.lateWriteFaults++
			}
			morass.VerifSetWrap(nil)
			if err != nil {
				return fail("clear-error", when(fmt.Sprintf("Clear after a cycle whose write #%d to a run file failed returned %v", cyc.WriteFault, err)))
			}
			if m.Len() != 0 || m.Pos() != 0 {
				return fail("pos-len", when(fmt.Sprintf("after Clear Pos=%d Len=%d", m.Pos(), m.Len())))
			}
			res.writeFaulted++
			continue
		}
		if cyc.Abandoned && !cyc.Faulted {
			for i, k := range cyc.Keys {
				if err := m.Push(el.mk(k, -2)); err != nil {
					return fail("push-error", when(fmt.Sprintf("push %d returned %v", i, err)))
				}
			}
			if err := m.Clear(); err != nil {
				return fail("clear-error", when("Clear before Finalise returned "+err.Error()))
			}
			if m.Len() != 0 || m.Pos() != 0 {
				return fail("pos-len", when(fmt.Sprintf("after Clear Pos=%d Len=%d", m.Pos(), m.Len())))
			}
			if checkResidue && sorterDir != "" {
				res.abandonedDir = true
			}
			res.abandoned++
			continue
		}
		if cyc.Faulted && sorterDir != "" {
			// a cycle that goes wrong: its errors are C13's business, the cycles after it are this property's
			os.RemoveAll(sorterDir)
			sawErr := false
			for _, k := range cyc.Keys {
				if err := m.Push(el.mk(k, -1)); err != nil {
					sawErr = true
					break
				}
			}
			if err := m.Finalise(); err != nil {
				sawErr = true
			}
			if err := os.Mkdir(sorterDir, 0700); err != nil {
				return fail("harness", "cannot put the sorter's directory back: "+err.Error())
			}
			if err := m.Clear(); err != nil {
				return fail("clear-error", when("Clear after a cycle whose spills failed returned "+err.Error()))
			}
			if m.Len() != 0 || m.Pos() != 0 {
				return fail("pos-len", when(fmt.Sprintf("after Clear Pos=%d Len=%d", m.Pos(), m.Len())))
			}
			res.faulted++
			if sawErr {
				res.faultedSeen++
			}
			continue
		}
		type kv = c11KV
		var pushed []kv
		// foreign: a value of another type is offered; a sorter that refuses it has not pushed it
		foreign := func(i int) (stop bool, out c11Result) {
			err := m.Push(el.foreign)
			if err == nil {
				res.foreignTaken = true // a sorter of mixed values: outside what the model describes, nothing is judged
				m.CleanUp()
				return true, res
			}
			res.refusedPush++
			if m.Pos() != int64(i) || m.Len() != int64(i) {
				return true, fail("refused-call", when(fmt.Sprintf("a %T pushed before push %d was refused (%v), yet Pos=%d Len=%d afterwards, want %d and %d", el.foreign, i, err, m.Pos(), m.Len(), i, i)))
			}
			return false, res
		}
		for i, k := range cyc.Keys {
			payload++
			p := payload
			if h.ReuseDest && payload%3 == 0 {
				p = 0
			}
			e := el.mk(k, p)
			pushed = append(pushed, kv{k, p})
			if m.Pos() != int64(i) || m.Len() != int64(i) {
				return fail("pos-len", when(fmt.Sprintf("before push %d Pos=%d Len=%d", i, m.Pos(), m.Len())))
			}
			if cyc.ForeignPush == i+1 {
				if stop, out := foreign(i); stop {
					return out
				}
			}
			if err := m.Push(e); err != nil {
				return fail("push-error", when(fmt.Sprintf("push %d returned %v", i, err)))
			}
		}
		if cyc.ForeignPush == len(cyc.Keys)+1 {
			if stop, out := foreign(len(cyc.Keys)); stop {
				return out
			}
		}
		if m.Len() != int64(len(cyc.Keys)) || m.Pos() != int64(len(cyc.Keys)) {
			return fail("pos-len", when(fmt.Sprintf("after pushes Pos=%d Len=%d", m.Pos(), m.Len())))
		}
		if err := m.Finalise(); err != nil {
			return fail("finalise-error", when("Finalise returned "+err.Error()))
		}
		if cyc.Twice { // a second Finalise before anything is pulled changes nothing
			if err := m.Finalise(); err != nil {
				return fail("finalise-error", when("a second Finalise returned "+err.Error()))
			}
		}
		if len(cyc.Keys) >= h.Chunk {
			res.spills++
		} else {
			res.memCycles++
		}
		if m.Len() != int64(len(cyc.Keys)) || m.Pos() != 0 {
			return fail("pos-len", when(fmt.Sprintf("after Finalise Pos=%d Len=%d", m.Pos(), m.Len())))
		}
		want := len(cyc.Keys)
		switch cyc.Drain {
		case "none":
			want = 0
		case "one":
			want = minInt(1, len(cyc.Keys))
		case "half":
			want = len(cyc.Keys) / 2
		}
		remaining := map[kv]int{}
		for _, x := range pushed {
			if !h.Struct {
				x.p = 0
			}
			remaining[x]++
		}
		sortedKeys := append([]int(nil), cyc.Keys...)
		sort.Ints(sortedKeys)
		last := 0
		eof := false
		pullInto := el.puller(m, h.ReuseDest)
		pull := func() (kv, error) {
			v, bad, err := pullInto()
			if err == nil && bad != "" {
				err = fmt.Errorf("nil, but the value is damaged: %s", bad)
			}
			return v, err
		}
		// badPull: Pull is handed something it cannot set while values remain; nothing may be consumed by that call
		badPull := func(i int) bool {
			err := m.Pull(el.unsettable)
			res.refusedPull++
			if m.Pos() != int64(i) || m.Len() != int64(len(cyc.Keys)) {
				fail("refused-call", when(fmt.Sprintf("Pull into a %T (not a pointer) before pull %d returned %v and left Pos=%d Len=%d, want %d and %d", el.unsettable, i, err, m.Pos(), m.Len(), i, len(cyc.Keys))))
				return false
			}
			return true
		}
		for i := 0; i < want; i++ {
			if h.LateFlags && h.FlagsMidDrain && ci == h.FlagsFrom && i == want/2 {
				setFlags()
			}
			if cyc.BadPull == i+1 && !badPull(i) {
				return res
			}
			v, err := pull()
			res.pulls++
			if h.ReuseDest && i > 0 {
				res.reusedPulls++
			}
			if err != nil {
				return fail("pull-error", when(fmt.Sprintf("pull %d of %d returned %v", i, len(cyc.Keys), err)))
			}
			if i > 0 && v.k < last {
				return fail("order", when(fmt.Sprintf("pull %d returned key %d after %d", i, v.k, last)))
			}
			if v.k != sortedKeys[i] {
				return fail("wrong-value", when(fmt.Sprintf("pull %d returned key %d, the sorted input has %d there", i, v.k, sortedKeys[i])))
			}
			if remaining[v] == 0 {
				return fail("wrong-value", when(fmt.Sprintf("pull %d returned %v which was not pushed (or already pulled)", i, v)))
			}
			remaining[v]--
			last = v.k
			if m.Pos() != int64(i+1) || m.Len() != int64(len(cyc.Keys)) {
				return fail("pos-len", when(fmt.Sprintf("after pull %d Pos=%d Len=%d", i, m.Pos(), m.Len())))
			}
		}
		if h.LateFlags && h.FlagsMidDrain && ci == h.FlagsFrom && want == 0 {
			setFlags()
		}
		if cyc.BadPull == want+1 && want < len(cyc.Keys) && !badPull(want) {
			return res
		}
		if cyc.Drain == "all" || cyc.Drain == "all+extra" {
			n := 1
			if cyc.Drain == "all+extra" {
				n = 3
			}
			for x := 0; x < n; x++ {
				v, err := pull()
				if err != io.EOF {
					return fail("no-eof", when(fmt.Sprintf("pull after exhaustion returned (%v, %v), want io.EOF", v, err)))
				}
				// the exhausted pull leaves the counters alone; with AutoClear (or AutoClean) it closed the cycle
				wantPos, wantLen := int64(len(cyc.Keys)), int64(len(cyc.Keys))
				if autoClear {
					wantPos, wantLen = 0, 0
				}
				if !autoClean && (m.Pos() != wantPos || m.Len() != wantLen) {
					return fail("pos-len", when(fmt.Sprintf("after the io.EOF pull #%d Pos=%d Len=%d, want %d and %d", x+1, m.Pos(), m.Len(), wantPos, wantLen)))
				}
			}
			eof = true
			if autoClean {
				cleanedByAutoClean = true
			}
		}
		if checkResidue && eof && sorterDir != "" {
			if autoClean {
				if _, err := os.Stat(sorterDir); err == nil {
					return fail("autoclean-residue", when("drained with AutoClean set but the temporary directory still exists"))
				}
			} else if autoClear {
				ents, _ := os.ReadDir(sorterDir)
				if len(ents) != 0 {
					return fail("autoclear-residue", when(fmt.Sprintf("drained with AutoClear set but %d run files remain", len(ents))))
				}
			}
		}
		if cleanedByAutoClean {
			break // the sorter's directory is gone; no further cycles are possible
		}
		if !(autoClear && eof) {
			if err := m.Clear(); err != nil {
				return fail("clear-error", when("Clear returned "+err.Error()))
			}
		}
		if m.Len() != 0 || m.Pos() != 0 {
			return fail("pos-len", when(fmt.Sprintf("after Clear Pos=%d Len=%d", m.Pos(), m.Len())))
		}
	}
	if err := m.CleanUp(); err != nil {
		return fail("cleanup-error", "CleanUp returned "+err.Error())
	}
	if checkResidue && sorterDir != "" {
		if _, err := os.Stat(sorterDir); err == nil {
			return fail("cleanup-residue", "the temporary directory still exists after CleanUp")
		}
	}
	return res
}

func c11Scratch(r *obs.Run) string {
	base := os.Getenv("VERIF_SCRATCH")
	if base == "" {
		base = os.TempDir()
	}
	d, err := os.MkdirTemp(base, fmt.Sprintf("%s-b%d-", r.ID, r.Batch))
	if err != nil {
		panic("harness: cannot create scratch dir: " + err.Error())
	}
	return d
}

func init() {
	register(&obs.Monitor{
		ID:    "C11",
		Level: "exploration",
		Rule: "one usage history per case on one sorter: first every memory/disk ordering of 1..3 cycles x drain {none, one, half, all, all+extra} x AutoClear x concurrent mode (enumerated), then random histories of 1..5 cycles with per-cycle push counts from {0,1,c-1,c,c+1,2c,3c+2,random<=8c}, " +
			"chunk sizes {1,2,3,7,64}, int and struct elements with duplicate keys; model checked after every call (Pos, Len, order, multiset, io.EOF). Built with -race. " +
			"Also: struct types the caller has registered with gob itself and a struct with string/float/bool/struct/slice/map fields; calls the sorter refuses inside a cycle (a value of another type pushed, Pull into a non-pointer: Pos, Len and the cycle's values stay); one destination variable for all pulls of a cycle; " +
			"1 random history in 100 has 60 cycles and runs with 40 spare file descriptors; 6 in 100 run next to a second sorter with a history of its own (same parent directory and prefix, each judged alone); once per process eight sorters for eight unseen element types are created at the same moment. " +
			"Non-trivial = >=2 cycles or a spilling cycle; distinct = (chunk, mode, per-cycle mem/disk:count:drain) word",
		Batches: func(t string) int {
			if t == "thorough" {
				return 16
			}
			return 8
		},
		MaxPar:      16,
		Cases:       func(r *obs.Run) int { return r.Share(c11EnumTotal) + r.Share(r.Pick(1500, 80000)) },
		Setup:       func(r *obs.Run) { r.WatchDeadlock(5*time.Second, 2*time.Minute) },
		Case:        c11Case,
		MinDistinct: func(t string) int { return 3000 },
		Floors: func(string) map[string]int64 {
			return map[string]int64{"histories": 8000, "cycles_spilled": 5000, "cycles_in_memory": 5000, "memory_then_disk_histories": 1500, "disk_then_memory_histories": 1500, "pulls": 50000, "concurrent_histories": 3000,
				"pushes_of_another_type_refused": 200, "pulls_into_a_non_pointer": 150, "pulls_into_a_reused_destination": 80000, "long_histories_with_40_spare_descriptors": 3,
				"histories_with_a_second_sorter_at_work": 35, "parallel_first_use_starts": 6}
		},
		Assumptions: []string{"a use cycle is push*, Finalise, pull*, Clear (explicit, or implicit through AutoClear when drained to io.EOF)", "stability is not assumed: equal keys may come out in any order, payloads are compared as a multiset"},
	})
}

var c11ParStarted bool

func c11Case(r *obs.Run, i int) {
	nEnum := r.Share(c11EnumTotal)
	var h c11Hist
	var pair *c11Hist
	lowFd := false
	if i < nEnum {
		var ok bool
		h, ok = c11Enumerated(i*r.NBatch+r.Batch, r.Rng)
		if !ok {
			return
		}
	} else {
		h = c11GenHist(r.Rng, 5)
		switch x := r.Rng.Intn(100); {
		case x == 0:
			h = c11GenLong(r.Rng)
		case x <= 6: // a second sorter, with a history of its own, at work next to this one
			h2 := c11GenHist(r.Rng, 3)
			if h2.Chunk > 64 {
				h2.Chunk = 64
			}
			pair = &h2
			for k := range h.Cycles { // the write-fault hook is process-wide: not while two sorters are at work
				h.Cycles[k].WriteFault = 0
			}
			for k := range pair.Cycles {
				pair.Cycles[k].WriteFault = 0
			}
		}
	}
	scratch := c11Scratch(r)
	defer os.RemoveAll(scratch)
	if !c11ParStarted {
		// once per process, before any sorter exists: eight sorters for eight unseen element types created at once
		c11ParStarted = true
		r.Crumb("eight sorters for new element types started together")
		classes, whats := c11ParallelStart(r.Seed*1000+int64(r.Batch), scratch)
		r.Count("parallel_first_use_starts", 1)
		r.Count("sorters_created_at_the_same_moment_for_unseen_types", 8)
		for k := range classes {
			if classes[k] == "harness" {
				r.Inconclusive(whats[k])
				continue
			}
			r.Violate(classes[k], "eight sorters created at the same moment, each for an element type of its own: "+whats[k], map[string]interface{}{"what": whats[k], "all_failures": whats})
		}
	}
	r.Crumb(fmt.Sprintf("%+v pair=%+v", h, pair))
	var res, res2 c11Result
	func() {
		defer func() {
			if e := recover(); e != nil {
				res.class, res.what = "panic", fmt.Sprintf("panic: %v", e)
			}
		}()
		switch {
		case pair != nil:
			res, res2 = c11RunPair(h, *pair, scratch)
		case h.LowFdLimit:
			restore, ok := c11LowerFdLimit(40)
			defer restore() // before anything is reported: writing a witness needs a descriptor
			if ok {
				lowFd = true
			}
			res = c11RunHist(r, h, scratch, false)
		default:
			res = c11RunHist(r, h, scratch, false)
		}
	}()
	if pair != nil {
		r.Count("histories_with_a_second_sorter_at_work", 1)
		r.Count("cycles_of_the_second_sorter", int64(res2.spills+res2.memCycles+res2.abandoned+res2.faulted))
		r.Count("pulls", int64(res2.pulls))
		switch res2.class {
		case "":
		case "harness":
			r.Inconclusive(res2.what)
		default:
			r.Violate(res2.class, "second of two sorters at work side by side: "+res2.what, map[string]interface{}{"history": *pair, "history_of_the_other_sorter": h, "what": res2.what})
		}
	}
	if lowFd {
		r.Count("long_histories_with_40_spare_descriptors", 1)
		r.Count("cycles_in_long_histories", int64(res.spills+res.memCycles+res.abandoned))
	}
	r.Count("pushes_of_another_type_refused", int64(res.refusedPush+res2.refusedPush))
	r.Count("pulls_into_a_non_pointer", int64(res.refusedPull+res2.refusedPull))
	r.Count("pulls_into_a_reused_destination", int64(res.reusedPulls+res2.reusedPulls))
	r.Count("histories_setting_the_flags_on_a_sorter_already_in_use", int64(res.lateFlagSets+res2.lateFlagSets))
	r.Count("write_failures_arriving_after_the_caller_moved_on_to_finalise_or_clear", int64(res.lateWriteFaults+res2.lateWriteFaults))
	if res.foreignTaken || res2.foreignTaken {
		r.Count("histories_not_judged_after_a_foreign_value_was_accepted", 1)
	}
	if h.Elem != "" && res.class == "" {
		r.Count("histories_with_"+h.Elem+"_struct_elements", 1)
	}
	r.Count("histories", 1)
	r.Count("cycles_spilled", int64(res.spills))
	r.Count("earlier_cycles_abandoned_before_finalise", int64(res.abandoned))
	r.Count("earlier_cycles_with_a_failing_run_file_write", int64(res.writeFaulted))
	r.Count("earlier_cycles_with_failed_spills", int64(res.faulted))
	r.Count("earlier_cycles_with_failed_spills_that_reported_an_error", int64(res.faultedSeen))
	r.Count("cycles_in_memory", int64(res.memCycles))
	r.Count("pulls", int64(res.pulls))
	if h.Concurrent {
		r.Count("concurrent_histories", 1)
	}
	for k := 1; k < len(h.Cycles); k++ {
		a, b := len(h.Cycles[k-1].Keys) >= h.Chunk, len(h.Cycles[k].Keys) >= h.Chunk
		if !a && b {
			r.Count("memory_then_disk_histories", 1)
			break
		}
	}
	for k := 1; k < len(h.Cycles); k++ {
		a, b := len(h.Cycles[k-1].Keys) >= h.Chunk, len(h.Cycles[k].Keys) >= h.Chunk
		if a && !b {
			r.Count("disk_then_memory_histories", 1)
			break
		}
	}
	if res.class == "harness" {
		r.Inconclusive(res.what)
	} else if res.class != "" {
		w := map[string]interface{}{"history": h, "what": res.what}
		if pair != nil {
			w["history_of_the_other_sorter"] = *pair
		}
		r.Violate(res.class, res.what, w)
	}
	r.Note(h.word(), len(h.Cycles) >= 2 || res.spills > 0)
	if r.WantSample() && len(h.Cycles) <= 2 && h.Chunk <= 3 {
		r.Sample(h)
	}
}
