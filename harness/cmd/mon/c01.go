package main

import (
	"bytes"
	"fmt"
	"io"
	"math"
	"math/rand"
	"sync"
	"sync/atomic"

	"github.com/biogo/biogo/alphabet"
	"github.com/biogo/biogo/io/seqio"
	"github.com/biogo/biogo/io/seqio/fasta"
	"github.com/biogo/biogo/io/seqio/fastq"
	"github.com/biogo/biogo/seq"
	"github.com/biogo/biogo/seq/alignment"
	"github.com/biogo/biogo/seq/linear"

	"verif/harness/internal/obs"
)

// C01 — FASTA and FASTQ write-then-read reproduces every record.

// c01ParallelWriters: independent writers (each with its own destination and its own records) used from different
// goroutines at the same time must not influence one another: every stream equals what the same records give when
// written alone.
func c01ParallelWriters(r *obs.Run) {
	rng := r.Rng
	isFastq := rng.Intn(3) != 0
	ng := 2 + rng.Intn(5)
	al := ioAlphas[rng.Intn(2)]
	type job struct {
		recs []ioRec
		want []byte
		got  []byte
		err  error
	}
	write := func(recs []ioRec, qid bool) ([]byte, error) {
		return c01WriteAll(recs, al.a, isFastq, qid)
	}
	jobs := make([]*job, ng)
	for g := range jobs {
		j := &job{}
		for k := 0; k < 6+rng.Intn(10); k++ {
			n := 500 + rng.Intn(3000)
			j.recs = append(j.recs, ioRec{Name: genName(rng), Desc: genDesc(rng), Letters: genLetters(rng, al.a, n), Quals: genQuals(rng, alphabet.Sanger, n)})
		}
		j.want, j.err = write(j.recs, g%2 == 0)
		if j.err != nil {
			r.Violate("write-error", "Write returned "+j.err.Error(), nil)
			return
		}
		j.want = append([]byte(nil), j.want...)
		jobs[g] = j
	}
	var wg sync.WaitGroup
	start := make(chan struct{})
	for g, j := range jobs {
		wg.Add(1)
		go func(g int, j *job) {
			defer wg.Done()
			<-start
			b, err := write(j.recs, g%2 == 0)
			j.got, j.err = append([]byte(nil), b...), err
		}(g, j)
	}
	close(start)
	wg.Wait()
	for g, j := range jobs {
		if j.err != nil || !bytes.Equal(j.got, j.want) {
			at := 0
			for at < len(j.got) && at < len(j.want) && j.got[at] == j.want[at] {
				at++
			}
			r.Violate("parallel-writers-interfere", fmt.Sprintf("%d independent %s writers in parallel: the stream of writer %d differs from the same records written alone (err=%v, first difference at byte %d of %d)", ng, map[bool]string{true: "fastq", false: "fasta"}[isFastq], g, j.err, at, len(j.want)),
				map[string]interface{}{"writers": ng, "format_fastq": isFastq, "writer": g, "first_difference_at": at, "bytes": len(j.want)})
			return
		}
	}
	r.Count("parallel_writer_sets", 1)
	var recs [][]ioRec
	var streams [][]byte
	for _, j := range jobs {
		recs, streams = append(recs, j.recs), append(streams, j.want)
	}
	if !c01ReadersSideBySide(r, al.a, isFastq, recs, streams) {
		return
	}
	r.Note(fmt.Sprintf("parallel/%v/%d/%x", isFastq, ng, hashBytes(jobs[0].want)), true)
}

func init() {
	register(&obs.Monitor{
		ID:    "C01",
		Level: "exploration",
		Rule: "one record list per case (0..6 records; names over printable ASCII incl. leading '>','@','+','#'; trimmed descriptions with inner blanks/tabs; letters from the 7 built-in alphabets, mixed case; " +
			"lengths 0,1,W-1,W,W+1,4095..8193,<=20000) written by the real FASTA writer (widths 1,2,59..61,len-1..len+1,4096,random) or FASTQ writer (QID on/off, 5 Phred-offset encodings, qualities over the printable range incl. strings starting with '@'/'+'; " +
			"plain and quality sources and templates), read back through a chunked source, compared after the whole file is consumed, cross-checked by an independent parser of the emitted bytes and byte counts (also under write faults: the list is written again through a writer that accepts only the first B bytes and then short-writes with an error; the counts returned must add up to the bytes accepted); FASTA read-backs go into a linear.Seq or a linear.QSeq template; 1 record in 25 has a header line several read buffers long; plus %a/%q renderings (1 %a in 4 without a width). " +
			"Half of the destinations also offer WriteByte/WriteString; 1 list in 8 is the rows of an alignment.Seq/QSeq; under write faults the bytes accepted must be a prefix of the fault-free output; one more pass lets the destination fail only while one record is written and uses the same writer on (later records must come out as when written alone, or with an error of their own); the sequence values are written in every pass and must still hold their name, description, letters and qualities afterwards; " +
			"every 50th case: parallel writers, then their streams read back by parallel readers and by readers called in turn that clone one shared template. " +
			"Non-trivial = >=1 record and (a sequence longer than the width or quality-carrying); distinct = (format,type,encoding,QID,width class,length classes,name/desc shape)+content hash",
		Batches: func(t string) int {
			if t == "thorough" {
				return 16
			}
			return 4
		},
		Cases:       func(r *obs.Run) int { return r.Share(r.Pick(4000, 40000)) },
		Case:        c01Case,
		MinDistinct: func(t string) int { return 800 },
		Floors: func(string) map[string]int64 {
			return map[string]int64{"records_compared": 3000, "records_over_8192": 20, "fastq_quality_records": 500, "write_calls_counted": 3000, "format_verb_roundtrips": 300, "empty_lists": 5, "scanner_passes": 800,
				"rich_destination_cases": 800, "alignment_rows_written": 300, "writes_after_a_failed_write": 1000, "parallel_reader_sets": 20, "round_robin_reader_sets_on_one_template": 20, "format_verb_a_without_width": 50}
		},
		Assumptions: []string{"records are written at offset 0 (the writers index from 0)", "the reference parsers assume the canonical layout the writers emit (one header line, LF terminators)"},
	})
}

func c01Case(r *obs.Run, i int) {
	rng := r.Rng
	roomyBefore := atomic.LoadInt64(&ioRoomyTemplates)
	defer func() {
		r.Count("reader_templates_with_spare_capacity", atomic.LoadInt64(&ioRoomyTemplates)-roomyBefore)
	}()
	hugeWidth := false
	if i%50 == 17 {
		c01ParallelWriters(r)
		return
	}
	al := ioAlphas[rng.Intn(len(ioAlphas))]
	isFastq := rng.Intn(2) == 0
	nrec := rng.Intn(7)
	if rng.Intn(40) == 0 {
		nrec = 0
	}
	width := []int{1, 2, 59, 60, 61, 4096, 1 + rng.Intn(200), 1 + rng.Intn(10000)}[rng.Intn(8)]
	if rng.Intn(25) == 0 { // "any positive line width": up to the largest int (arithmetic on the width must not overflow)
		width = []int{math.MaxInt64, math.MaxInt64 - 1, math.MaxInt64 - rng.Intn(9000), math.MaxInt32, math.MaxInt32 + 1, 1 << 40}[rng.Intn(6)]
		hugeWidth = true
	}
	enc := ioPhredEncs[rng.Intn(len(ioPhredEncs))]
	quality := rng.Intn(3) != 0 // source type
	qid := rng.Intn(2) == 0
	if !quality {
		enc = alphabet.Sanger // plain sources are written with the default Sanger encoding
	}
	plainTemplate := isFastq && !quality && rng.Intn(2) == 0
	// half of the destinations also offer WriteByte and WriteString, as every real one does (*os.File, *bufio.Writer, ...)
	rich := rng.Intn(2) == 0
	// 1 list in 8 is the rows of an alignment (all of one length >= 1) instead of stand-alone linear sequences
	asRows := nrec > 0 && rng.Intn(8) == 0
	var recs []ioRec
	anyLong, over8k := false, false
	for k := 0; k < nrec; k++ {
		lw := width
		if hugeWidth {
			lw = 60 // lengths are drawn around an ordinary width; the huge one only parameterises the writer
		}
		n := genLen(rng, lw, rng.Intn(6) == 0)
		if asRows {
			if k > 0 {
				n = len(recs[0].Letters)
			} else if n == 0 {
				n = 1
			}
		}
		if !isFastq && !hugeWidth && rng.Intn(8) == 0 && n > 1 { // width relative to the length
			width = []int{n - 1, n, n + 1}[rng.Intn(3)]
		}
		rec := ioRec{Name: genName(rng), Desc: genDesc(rng), Letters: genLetters(rng, al.a, n)}
		if quality {
			rec.Quals = genQuals(rng, enc, n)
		}
		recs = append(recs, rec)
		if n > width {
			anyLong = true
		}
		if n > 8192 {
			over8k = true
			r.Count("records_over_8192", 1)
		}
	}
	w := map[string]interface{}{"format": map[bool]string{true: "fastq", false: "fasta"}[isFastq], "alphabet": al.name, "width": width,
		"encoding": encNames[enc], "qid": qid, "quality_source": quality, "plain_template": plainTemplate,
		"destination_has_writebyte_writestring": rich, "records_are_alignment_rows": asRows}
	var rb []interface{}
	for _, rec := range recs {
		rb = append(rb, rec.brief())
	}
	w["records"] = rb
	fail := func(class, what string) {
		w["what"] = what
		r.Violate(class, what, w)
	}
	defer func() {
		if e := recover(); e != nil {
			fail("panic", fmt.Sprintf("panic: %v", e))
		}
	}()
	if nrec == 0 {
		r.Count("empty_lists", 1)
	}

	// the sequence objects handed to the writers: built once, written in every pass below, looked at afterwards
	srcs, err := c01Sources(recs, al.a, enc, quality, asRows)
	if err != nil {
		fail("harness", "cannot build the sources: "+err.Error())
		return
	}
	var richCalls [2]int64
	newWriter := func(dst io.Writer) (func(seq.Sequence) (int, error), func()) {
		done := func() {}
		if rich {
			rw := &richWriter{w: dst}
			dst = rw
			done = func() { richCalls[0] += rw.byteCalls; richCalls[1] += rw.stringCalls }
		}
		if isFastq {
			fw := fastq.NewWriter(dst)
			fw.QID = qid
			return fw.Write, done
		}
		return fasta.NewWriter(dst, width).Write, done
	}
	defer func() {
		if rich {
			r.Count("rich_destination_cases", 1)
			r.Count("rich_destination_writebyte_calls", richCalls[0])
			r.Count("rich_destination_writestring_calls", richCalls[1])
		}
	}()
	unchanged := func(when string) bool {
		fresh, _ := c01Sources(recs, al.a, enc, quality, asRows)
		for k := range srcs {
			if d := c01SourceDiff(srcs[k], fresh[k]); d != "" {
				fail("source-changed", fmt.Sprintf("the sequence handed to Write as record %d is not what it was (%s): %s", k, when, d))
				return false
			}
			r.Count("sources_compared_after_write", 1)
		}
		return true
	}

	// write
	cw := &countingWriter{}
	write, wdone := newWriter(cw)
	total := 0
	recAt := []int{0} // record k occupies data[recAt[k]:recAt[k+1]]
	for k := range recs {
		before := cw.buf.Len()
		n, err := write(srcs[k])
		if err != nil {
			fail("write-error", fmt.Sprintf("Write of record %d returned %v", k, err))
			return
		}
		if n != cw.buf.Len()-before {
			fail("byte-count", fmt.Sprintf("Write of record %d returned n=%d but emitted %d bytes", k, n, cw.buf.Len()-before))
			return
		}
		total += n
		recAt = append(recAt, cw.buf.Len())
		r.Count("write_calls_counted", 1)
		if asRows {
			r.Count("alignment_rows_written", 1)
		}
	}
	wdone()
	data := append([]byte(nil), cw.buf.Bytes()...)
	if total != len(data) {
		fail("byte-count", fmt.Sprintf("sum of n=%d but %d bytes emitted", total, len(data)))
		return
	}

	// what a writer emits for a record does not depend on the records it wrote before: each record written by a writer of
	// its own gives the same bytes, and so does a list in which the kinds of source (plain, quality-carrying) and the
	// quality encodings change from record to record
	{
		var alone bytes.Buffer
		for k := range recs {
			w1, d1 := newWriter(&alone)
			if _, err := w1(srcs[k]); err != nil {
				fail("write-error", fmt.Sprintf("Write of record %d by a writer of its own returned %v", k, err))
				return
			}
			d1()
		}
		if !bytes.Equal(alone.Bytes(), data) {
			fail("writer-keeps-state", fmt.Sprintf("the %d records written by one writer give %d bytes, written by a writer each %d bytes (first difference at byte %d)", len(recs), len(data), alone.Len(), firstDiff(alone.String(), string(data))))
			return
		}
		r.Count("lists_also_written_with_a_writer_per_record", 1)
		if isFastq && quality && !asRows && len(recs) > 1 && rng.Intn(2) == 0 {
			encs := []alphabet.Encoding{alphabet.Sanger, alphabet.Illumina1_3, alphabet.Illumina1_5, alphabet.Illumina1_8, alphabet.Illumina1_9}
			mixed := make([]seq.Sequence, len(recs))
			for k, rec := range recs {
				mixed[k] = rec.toSeq(al.a, encs[rng.Intn(len(encs))], rng.Intn(3) != 0)
			}
			var one, each bytes.Buffer
			w1, d1 := newWriter(&one)
			for k := range mixed {
				if _, err := w1(mixed[k]); err != nil {
					fail("write-error", fmt.Sprintf("Write of record %d of a list of mixed source kinds and encodings returned %v", k, err))
					return
				}
				w2, d2 := newWriter(&each)
				w2(mixed[k])
				d2()
			}
			d1()
			if !bytes.Equal(one.Bytes(), each.Bytes()) {
				w["mixed_list_one_writer"] = one.String()
				w["mixed_list_writer_per_record"] = each.String()
				fail("writer-keeps-state", fmt.Sprintf("a list whose records differ in source kind and quality encoding: one writer gives %d bytes, a writer per record %d bytes (first difference at byte %d)", one.Len(), each.Len(), firstDiff(one.String(), each.String())))
				return
			}
			r.Count("lists_of_mixed_source_kinds_and_encodings", 1)
		}
	}

	if !unchanged("after the first pass") {
		return
	}

	// the same records again through a writer that accepts only the first B bytes and then fails with a short write:
	// the counts returned, the failing call's included, must add up to what the writer accepted
	if len(data) > 0 {
		var budgets []int
		if len(data) <= 160 {
			for b := 0; b < len(data); b++ {
				budgets = append(budgets, b)
			}
		} else {
			budgets = []int{0, 1, len(data) - 1}
			for k := 0; k < 5; k++ {
				budgets = append(budgets, rng.Intn(len(data)))
			}
			// just inside the lines that start a record part ('+' line of FASTQ, header lines)
			for k := 0; k < len(data)-1 && len(budgets) < 40; k++ {
				if data[k] == '\n' && (data[k+1] == '+' || data[k+1] == '@' || data[k+1] == '>') {
					budgets = append(budgets, k+1, k+2)
				}
			}
		}
		for _, b := range budgets {
			lw := &limitWriter{budget: b, want: data, eager: rng.Intn(2) == 0}
			fwrite, fdone := newWriter(lw)
			sum, sawErr := 0, false
			for k := range recs {
				before := lw.got
				n, err := fwrite(srcs[k])
				sum += n
				if n != lw.got-before {
					w["write_fault_after_bytes"] = b
					fail("byte-count", fmt.Sprintf("underlying writer fails after %d bytes: Write of record %d returned n=%d, err=%v, but %d of its bytes were accepted", b, k, n, err, lw.got-before))
					return
				}
				if err != nil {
					sawErr = true
					break
				}
			}
			fdone()
			if lw.differs {
				w["write_fault_after_bytes"] = b
				fail("write-fault-bytes", fmt.Sprintf("underlying writer fails after %d bytes: the bytes it accepted are not the first %d bytes of the fault-free output (first difference at byte %d)", b, b, lw.diffAt))
				return
			}
			if !sawErr {
				w["write_fault_after_bytes"] = b
				fail("write-error-hidden", fmt.Sprintf("underlying writer failed after %d of %d bytes and no Write returned an error (counts sum to %d)", b, len(data), sum))
				return
			}
			r.Count("write_fault_points", 1)
		}
	}

	// the destination fails only while one chosen record is written (it refuses the record, or accepts its first
	// bytes and then short-writes with an error) and works again afterwards; the SAME writer is used on. The failing
	// call must count what was accepted; every later call either reports an error of its own (and counts what it
	// emitted) or emits exactly the bytes the record gave in the first pass: nothing of the failed record may linger
	if nrec > 0 {
		victim := rng.Intn(nrec)
		cut := 0
		if rng.Intn(3) != 0 {
			cut = rng.Intn(recAt[victim+1] - recAt[victim])
		}
		w["failing_record"], w["failing_record_bytes_accepted"] = victim, cut
		ww := &windowWriter{}
		wwrite, wwdone := newWriter(ww)
		for k := range recs {
			alone := data[recAt[k]:recAt[k+1]]
			ww.failing, ww.cut = k == victim, cut
			before := ww.buf.Len()
			n, err := wwrite(srcs[k])
			ww.failing = false
			emitted := ww.buf.Bytes()[before:]
			switch {
			case n != len(emitted):
				fail("byte-count", fmt.Sprintf("destination fails only during record %d (after %d of its bytes): Write of record %d returned n=%d, err=%v, but %d bytes were accepted", victim, cut, k, n, err, len(emitted)))
				return
			case k == victim && err == nil:
				fail("write-error-hidden", fmt.Sprintf("destination failed after %d bytes of record %d and Write returned no error", cut, k))
				return
			case k < victim && err != nil:
				fail("write-error", fmt.Sprintf("Write of record %d returned %v", k, err))
				return
			case err != nil && !bytes.HasPrefix(alone, emitted), err == nil && !bytes.Equal(alone, emitted):
				fail("writer-reuse-after-error", fmt.Sprintf("destination fails only during record %d (after %d of its bytes): Write of record %d (err=%v) emitted %d bytes that differ at byte %d from the %d bytes the same record gave when all writes succeeded", victim, cut, k, err, len(emitted), firstDiff(string(emitted), string(alone)), len(alone)))
				return
			}
			if k > victim && err == nil {
				r.Count("writes_after_a_failed_write", 1)
			}
		}
		wwdone()
		delete(w, "failing_record")
		delete(w, "failing_record_bytes_accepted")
		if !unchanged("after all write passes") {
			return
		}
	}

	// read back with the real reader; compare after everything is consumed
	var got []seq.Sequence
	if isFastq {
		got, err, _ = readAllFastq(rng, data, al.a, enc, plainTemplate, len(recs)+3)
	} else {
		got, err, _ = readAllFasta(rng, data, al.a, len(recs)+3)
	}
	if err != nil {
		fail("read-error", fmt.Sprintf("reader returned %v after %d records", err, len(got)))
		return
	}
	if len(got) != len(recs) {
		fail("record-count", fmt.Sprintf("wrote %d records, read %d", len(recs), len(got)))
		return
	}
	cmpQ := isFastq && quality && !plainTemplate
	for k := range recs {
		g := seqToRec(got[k], cmpQ)
		if d := recEqual(recs[k], g, cmpQ); d != "" {
			fail("record-differs", fmt.Sprintf("record %d: %s", k, d))
			return
		}
		r.Count("records_compared", 1)
		if cmpQ {
			r.Count("fastq_quality_records", 1)
		}
		if isFastq && !quality && !plainTemplate {
			// plain source: every quality is the default score
			for p := 0; p < got[k].Len(); p++ {
				if got[k].At(p).Q != seq.DefaultQphred {
					fail("record-differs", fmt.Sprintf("record %d: plain source read back with quality %d at %d", k, got[k].At(p).Q, p))
					return
				}
			}
		}
	}

	// the same bytes through seqio.Scanner
	{
		var rd seqio.Reader
		switch {
		case isFastq && plainTemplate:
			rd = fastq.NewReader(newSrc(rng, data), linear.NewSeq("", nil, al.a))
		case isFastq:
			rd = fastq.NewReader(newSrc(rng, data), linear.NewQSeq("", nil, al.a, enc))
		default:
			rd = fasta.NewReader(newSrc(rng, data), linear.NewSeq("", nil, al.a))
		}
		sc := seqio.NewScanner(rd)
		k := 0
		for sc.Next() {
			if k >= len(recs) {
				fail("scanner", fmt.Sprintf("seqio.Scanner yields more than the %d records written", len(recs)))
				return
			}
			if d := recEqual(recs[k], seqToRec(sc.Seq(), cmpQ), cmpQ); d != "" {
				fail("scanner", fmt.Sprintf("seqio.Scanner record %d: %s", k, d))
				return
			}
			k++
		}
		if err := sc.Error(); err != nil || k != len(recs) {
			fail("scanner", fmt.Sprintf("seqio.Scanner stopped after %d of %d records, Error()=%v", k, len(recs), err))
			return
		}
		r.Count("scanner_passes", 1)
	}

	// independent parser of the emitted bytes
	var ref []ioRec
	if isFastq {
		e := enc
		if !quality {
			e = alphabet.Sanger
		}
		ref, err = refParseFastq(data, phredOffset(e))
	} else {
		ref, err = refParseFasta(data)
	}
	if err != nil {
		fail("emitted-bytes", "independent parser: "+err.Error())
		return
	}
	if len(ref) != len(recs) {
		fail("emitted-bytes", fmt.Sprintf("independent parser finds %d records in the output, wrote %d", len(ref), len(recs)))
		return
	}
	for k := range recs {
		if d := recEqual(recs[k], ref[k], isFastq && quality); d != "" {
			fail("emitted-bytes", fmt.Sprintf("independent parser, record %d: %s", k, d))
			return
		}
	}

	// %a / %q renderings of single records
	if nrec > 0 && rng.Intn(2) == 0 {
		rec := recs[rng.Intn(nrec)]
		var text string
		fq := rng.Intn(2) == 0
		src := rec.toSeq(al.a, enc, quality)
		if qs, ok := src.(*linear.QSeq); ok {
			qs.Threshold = 0 // every letter at or above the threshold
		}
		switch {
		case fq && qid:
			text = fmt.Sprintf("%+q\n", src)
		case fq:
			text = fmt.Sprintf("%q\n", src)
		default:
			fw := width
			if hugeWidth {
				fw = 60 // fmt caps widths in a format string
			}
			if rng.Intn(4) == 0 { // no width given: "%a" (no line breaks are asked for)
				text = fmt.Sprintf("%a\n", src)
				r.Count("format_verb_a_without_width", 1)
			} else {
				text = fmt.Sprintf(fmt.Sprintf("%%%da\n", fw), src)
			}
		}
		fresh := rec.toSeq(al.a, enc, quality)
		if qs, ok := fresh.(*linear.QSeq); ok {
			qs.Threshold = 0
		}
		if d := c01SourceDiff(src, fresh); d != "" {
			fail("source-changed", fmt.Sprintf("the sequence %q is not what it was after being rendered with a format verb: %s", rec.Name, d))
			return
		}
		var back []seq.Sequence
		if fq {
			back, err, _ = readAllFastq(rng, []byte(text), al.a, enc, false, 4)
		} else {
			back, err, _ = readAllFasta(rng, []byte(text), al.a, 4)
		}
		switch {
		case err != nil:
			fail("format-verb", fmt.Sprintf("rendering of %q does not parse: %v", rec.Name, err))
		case len(back) != 1:
			fail("format-verb", fmt.Sprintf("rendering of %q parses to %d records", rec.Name, len(back)))
		default:
			if d := recEqual(rec, seqToRec(back[0], fq && quality), fq && quality); d != "" {
				fail("format-verb", fmt.Sprintf("rendering of %q parses back differently: %s", rec.Name, d))
			}
		}
		r.Count("format_verb_roundtrips", 1)
	}

	shape := ""
	for _, rec := range recs {
		shape += fmt.Sprintf("%d/%v/%v/%d;", lenClass(len(rec.Letters), width), rec.Name == "", rec.Desc == "", bytes.Count([]byte(rec.Desc), []byte(" ")))
	}
	h := fmt.Sprintf("%x", data[:minInt(len(data), 200)])
	r.Note(fmt.Sprint(isFastq, quality, plainTemplate, encNames[enc], qid, width, al.name, shape, h), nrec > 0 && (anyLong && !isFastq || isFastq && quality))
	_ = over8k
	if r.WantSample() && len(data) < 300 && nrec > 0 {
		w["emitted"] = string(data)
		r.Sample(w)
	}
}

func lenClass(n, width int) int {
	switch {
	case n == 0:
		return 0
	case n < width:
		return 1
	case n == width:
		return 2
	case n <= 4096:
		return 3
	case n <= 8192:
		return 4
	}
	return 5
}

// c01Sources builds the sequence values for recs: stand-alone linear.Seq / linear.QSeq, or (asRows; the records
// then have one length >= 1) the rows of one alignment.Seq / alignment.QSeq that stores them column by column.
func c01Sources(recs []ioRec, al alphabet.Alphabet, enc alphabet.Encoding, quality, asRows bool) ([]seq.Sequence, error) {
	out := make([]seq.Sequence, len(recs))
	if !asRows {
		for k, rec := range recs {
			out[k] = rec.toSeq(al, enc, quality)
		}
		return out, nil
	}
	n, rows := len(recs[0].Letters), len(recs)
	ids := make([]string, rows)
	for k, rec := range recs {
		ids[k] = rec.Name
	}
	if quality {
		flat := make([]alphabet.QLetter, n*rows)
		cols := make([][]alphabet.QLetter, n)
		for c := range cols {
			cols[c] = flat[c*rows : (c+1)*rows : (c+1)*rows]
			for k, rec := range recs {
				cols[c][k] = alphabet.QLetter{L: alphabet.Letter(rec.Letters[c]), Q: alphabet.Qphred(rec.Quals[c])}
			}
		}
		a, err := alignment.NewQSeq("aln", ids, cols, al, enc, nil)
		if err != nil {
			return nil, err
		}
		for k, rec := range recs {
			a.SubAnnotations[k].Desc = rec.Desc
			out[k] = a.Row(k)
		}
		return out, nil
	}
	flat := make([]alphabet.Letter, n*rows)
	cols := make([][]alphabet.Letter, n)
	for c := range cols {
		cols[c] = flat[c*rows : (c+1)*rows : (c+1)*rows]
		for k, rec := range recs {
			cols[c][k] = alphabet.Letter(rec.Letters[c])
		}
	}
	a, err := alignment.NewSeq("aln", ids, cols, al, nil)
	if err != nil {
		return nil, err
	}
	for k, rec := range recs {
		a.SubAnnotations[k].Desc = rec.Desc
		out[k] = a.Row(k)
	}
	return out, nil
}

// c01SourceDiff says how got (a sequence that has been through Write or a format verb) differs from want (the same
// record built afresh) in what the property speaks about: name, description, letters and quality scores. A list may
// hold the same sequence value more than once, so writing a record must leave it the record it was. (Offset, encoding,
// threshold and the like are not compared: a change there that no output shows is outside the statement.)
func c01SourceDiff(got, want seq.Sequence) string {
	switch {
	case got.Name() != want.Name():
		return fmt.Sprintf("name %q, was %q", got.Name(), want.Name())
	case got.Description() != want.Description():
		return fmt.Sprintf("description %q, was %q", got.Description(), want.Description())
	case got.Len() != want.Len():
		return fmt.Sprintf("length %d, was %d", got.Len(), want.Len())
	}
	for i := 0; i < want.Len(); i++ {
		if g, w := got.At(i), want.At(i); g != w {
			return fmt.Sprintf("position %d holds %q/%d, was %q/%d", i, g.L, g.Q, w.L, w.Q)
		}
	}
	return ""
}

// c01WriteAll writes recs (quality-carrying, Sanger) with a writer of its own and returns the stream.
func c01WriteAll(recs []ioRec, al alphabet.Alphabet, isFastq, qid bool) ([]byte, error) {
	cw := &countingWriter{}
	var wr interface {
		Write(seq.Sequence) (int, error)
	}
	if isFastq {
		fw := fastq.NewWriter(cw)
		fw.QID = qid
		wr = fw
	} else {
		wr = fasta.NewWriter(cw, 60)
	}
	for _, rec := range recs {
		if _, err := wr.Write(rec.toSeq(al, alphabet.Sanger, true)); err != nil {
			return nil, err
		}
	}
	return cw.buf.Bytes(), nil
}

// c01ReadersSideBySide reads the streams of the parallel pass back with several readers alive at the same time:
// (a) one reader per stream, each in a goroutine of its own with a template of its own, all started together;
// (b) in one goroutine, one reader per stream (every third stream re-written in the other format, so FASTA and FASTQ
// readers are mixed), all cloning ONE shared template, called in turn until each has reached io.EOF.
// Readers must not influence one another: every reader yields the records of its own stream, and the shared template
// is still empty at the end. Results are compared only after all readers have finished.
func c01ReadersSideBySide(r *obs.Run, al alphabet.Alphabet, isFastq bool, recs [][]ioRec, streams [][]byte) bool {
	rng := r.Rng
	ng := len(streams)
	fname := map[bool]string{true: "fastq", false: "fasta"}
	compare := func(how string, g int, fq bool, got []seq.Sequence, err error) bool {
		d := ""
		switch {
		case err != nil:
			d = fmt.Sprintf("reader returned %v after %d records", err, len(got))
		case len(got) != len(recs[g]):
			d = fmt.Sprintf("%d records read, %d written", len(got), len(recs[g]))
		default:
			for k := range got {
				if d = recEqual(recs[g][k], seqToRec(got[k], fq), fq); d != "" {
					d = fmt.Sprintf("record %d: %s", k, d)
					break
				}
			}
		}
		if d != "" {
			r.Violate("readers-interfere", fmt.Sprintf("%d readers %s: the %s reader of stream %d does not yield its own records (%s)", ng, how, fname[fq], g, d),
				map[string]interface{}{"readers": ng, "how": how, "reader": g, "reader_format": fname[fq], "what": d})
			return false
		}
		r.Count("records_compared_from_side_by_side_readers", int64(len(got)))
		return true
	}

	// (a) in parallel
	type result struct {
		got []seq.Sequence
		err error
	}
	res := make([]result, ng)
	seeds := make([]int64, ng)
	for g := range seeds {
		seeds[g] = rng.Int63()
	}
	var wg sync.WaitGroup
	start := make(chan struct{})
	for g := range streams {
		wg.Add(1)
		go func(g int) {
			defer wg.Done()
			lr := rand.New(rand.NewSource(seeds[g]))
			src, tmpl := newSrc(lr, streams[g]), ioTemplate(lr, al, lr.Intn(2) == 0 || isFastq, alphabet.Sanger)
			<-start
			if isFastq {
				res[g].got, res[g].err, _ = readAllFastqFrom(src, tmpl, len(recs[g])+3)
			} else {
				res[g].got, res[g].err, _ = readAllFastaFrom(src, tmpl, len(recs[g])+3)
			}
		}(g)
	}
	close(start)
	wg.Wait()
	for g := range res {
		if !compare("in parallel goroutines", g, isFastq, res[g].got, res[g].err) {
			return false
		}
	}
	r.Count("parallel_reader_sets", 1)

	// (b) in turn, one shared template
	tmpl := ioTemplate(rng, al, true, alphabet.Sanger)
	rds := make([]seqio.Reader, ng)
	fq := make([]bool, ng)
	for g := range rds {
		fq[g] = isFastq
		data := streams[g]
		if g%3 == 2 {
			fq[g] = !isFastq
			b, err := c01WriteAll(recs[g], al, fq[g], g%2 == 0)
			if err != nil {
				r.Violate("write-error", "Write returned "+err.Error(), nil)
				return false
			}
			data = append([]byte(nil), b...)
		}
		if fq[g] {
			rds[g] = fastq.NewReader(newSrc(rng, data), tmpl)
		} else {
			rds[g] = fasta.NewReader(newSrc(rng, data), tmpl)
		}
	}
	turn := make([]result, ng)
	done := make([]bool, ng)
	for left, round := ng, 0; left > 0; round++ {
		for g, rd := range rds {
			if done[g] {
				continue
			}
			s, err := rd.Read()
			switch {
			case err == nil && round <= len(recs[g])+3:
				turn[g].got = append(turn[g].got, s)
				continue
			case err == nil:
				err = fmt.Errorf("no EOF after %d calls", round+1)
			case err == io.EOF:
				err = nil
			}
			turn[g].err, done[g] = err, true
			left--
		}
	}
	for g := range turn {
		if !compare("called in turn and cloning one shared template", g, fq[g], turn[g].got, turn[g].err) {
			return false
		}
	}
	if tmpl.Name() != "" || tmpl.Description() != "" || tmpl.Len() != 0 {
		r.Violate("readers-interfere", fmt.Sprintf("the template shared by %d readers is no longer empty after they have read their files: name %q, description %q, %d letters", ng, tmpl.Name(), tmpl.Description(), tmpl.Len()),
			map[string]interface{}{"readers": ng, "template_name": tmpl.Name(), "template_description": tmpl.Description(), "template_length": tmpl.Len()})
		return false
	}
	r.Count("round_robin_reader_sets_on_one_template", 1)
	return true
}

