package main

import (
	"bytes"
	"fmt"
	"math"
	"sync"
	"sync/atomic"

	"github.com/biogo/biogo/alphabet"
	"github.com/biogo/biogo/io/seqio"
	"github.com/biogo/biogo/io/seqio/fasta"
	"github.com/biogo/biogo/io/seqio/fastq"
	"github.com/biogo/biogo/seq"
	"github.com/biogo/biogo/seq/linear"

	"verif/harness/internal/obs"
)

// C01 — FASTA and FASTQ write-then-read reproduces every record.

// c01ParallelWriters: independent writers (each with its own destination and its own records) used from different
// goroutines at the same time must not influence one another: every stream equals what the same records give when
// written alone.
func c01ParallelWriters(r *obs.Run) {
	rng := r.Rng
	isFastq := rng.Intn(3) != 0
	ng := 2 + rng.Intn(5)
	al := ioAlphas[rng.Intn(2)]
	type job struct {
		recs []ioRec
		want []byte
		got  []byte
		err  error
	}
	write := func(recs []ioRec, qid bool) ([]byte, error) {
		cw := &countingWriter{}
		var wr interface {
			Write(seq.Sequence) (int, error)
		}
		if isFastq {
			fw := fastq.NewWriter(cw)
			fw.QID = qid
			wr = fw
		} else {
			wr = fasta.NewWriter(cw, 60)
		}
		for _, rec := range recs {
			if _, err := wr.Write(rec.toSeq(al.a, alphabet.Sanger, true)); err != nil {
				return nil, err
			}
		}
		return cw.buf.Bytes(), nil
	}
	jobs := make([]*job, ng)
	for g := range jobs {
		j := &job{}
		for k := 0; k < 6+rng.Intn(10); k++ {
			n := 500 + rng.Intn(3000)
			j.recs = append(j.recs, ioRec{Name: genName(rng), Desc: genDesc(rng), Letters: genLetters(rng, al.a, n), Quals: genQuals(rng, alphabet.Sanger, n)})
		}
		j.want, j.err = write(j.recs, g%2 == 0)
		if j.err != nil {
			r.Violate("write-error", "Write returned "+j.err.Error(), nil)
			return
		}
		j.want = append([]byte(nil), j.want...)
		jobs[g] = j
	}
	var wg sync.WaitGroup
	start := make(chan struct{})
	for g, j := range jobs {
		wg.Add(1)
		go func(g int, j *job) {
			defer wg.Done()
			<-start
			b, err := write(j.recs, g%2 == 0)
			j.got, j.err = append([]byte(nil), b...), err
		}(g, j)
	}
	close(start)
	wg.Wait()
	for g, j := range jobs {
		if j.err != nil || !bytes.Equal(j.got, j.want) {
			at := 0
			for at < len(j.got) && at < len(j.want) && j.got[at] == j.want[at] {
				at++
			}
			r.Violate("parallel-writers-interfere", fmt.Sprintf("%d independent %s writers in parallel: the stream of writer %d differs from the same records written alone (err=%v, first difference at byte %d of %d)", ng, map[bool]string{true: "fastq", false: "fasta"}[isFastq], g, j.err, at, len(j.want)),
				map[string]interface{}{"writers": ng, "format_fastq": isFastq, "writer": g, "first_difference_at": at, "bytes": len(j.want)})
			return
		}
	}
	r.Count("parallel_writer_sets", 1)
	r.Note(fmt.Sprintf("parallel/%v/%d/%x", isFastq, ng, hashBytes(jobs[0].want)), true)
}

func init() {
	register(&obs.Monitor{
		ID:    "C01",
		Level: "exploration",
		Rule: "one record list per case (0..6 records; names over printable ASCII incl. leading '>','@','+','#'; trimmed descriptions with inner blanks/tabs; letters from the 7 built-in alphabets, mixed case; " +
			"lengths 0,1,W-1,W,W+1,4095..8193,<=20000) written by the real FASTA writer (widths 1,2,59..61,len-1..len+1,4096,random) or FASTQ writer (QID on/off, 5 Phred-offset encodings, qualities over the printable range incl. strings starting with '@'/'+'; " +
			"plain and quality sources and templates), read back through a chunked source, compared after the whole file is consumed, cross-checked by an independent parser of the emitted bytes and byte counts (also under write faults: the list is written again through a writer that accepts only the first B bytes and then short-writes with an error; the counts returned must add up to the bytes accepted); FASTA read-backs go into a linear.Seq or a linear.QSeq template; 1 record in 25 has a header line several read buffers long; plus %a/%q renderings. " +
			"Non-trivial = >=1 record and (a sequence longer than the width or quality-carrying); distinct = (format,type,encoding,QID,width class,length classes,name/desc shape)+content hash",
		Batches: func(t string) int {
			if t == "thorough" {
				return 16
			}
			return 4
		},
		Cases:       func(r *obs.Run) int { return r.Share(r.Pick(4000, 40000)) },
		Case:        c01Case,
		MinDistinct: func(t string) int { return 800 },
		Floors: func(string) map[string]int64 {
			return map[string]int64{"records_compared": 3000, "records_over_8192": 20, "fastq_quality_records": 500, "write_calls_counted": 3000, "format_verb_roundtrips": 300, "empty_lists": 5, "scanner_passes": 800}
		},
		Assumptions: []string{"records are written at offset 0 (the writers index from 0)", "the reference parsers assume the canonical layout the writers emit (one header line, LF terminators)"},
	})
}

func c01Case(r *obs.Run, i int) {
	rng := r.Rng
	roomyBefore := atomic.LoadInt64(&ioRoomyTemplates)
	defer func() {
		r.Count("reader_templates_with_spare_capacity", atomic.LoadInt64(&ioRoomyTemplates)-roomyBefore)
	}()
	hugeWidth := false
	if i%50 == 17 {
		c01ParallelWriters(r)
		return
	}
	al := ioAlphas[rng.Intn(len(ioAlphas))]
	isFastq := rng.Intn(2) == 0
	nrec := rng.Intn(7)
	if rng.Intn(40) == 0 {
		nrec = 0
	}
	width := []int{1, 2, 59, 60, 61, 4096, 1 + rng.Intn(200), 1 + rng.Intn(10000)}[rng.Intn(8)]
	if rng.Intn(25) == 0 { // "any positive line width": up to the largest int (arithmetic on the width must not overflow)
		width = []int{math.MaxInt64, math.MaxInt64 - 1, math.MaxInt64 - rng.Intn(9000), math.MaxInt32, math.MaxInt32 + 1, 1 << 40}[rng.Intn(6)]
		hugeWidth = true
	}
	enc := ioPhredEncs[rng.Intn(len(ioPhredEncs))]
	quality := rng.Intn(3) != 0 // source type
	qid := rng.Intn(2) == 0
	if !quality {
		enc = alphabet.Sanger // plain sources are written with the default Sanger encoding
	}
	plainTemplate := isFastq && !quality && rng.Intn(2) == 0
	var recs []ioRec
	anyLong, over8k := false, false
	for k := 0; k < nrec; k++ {
		lw := width
		if hugeWidth {
			lw = 60 // lengths are drawn around an ordinary width; the huge one only parameterises the writer
		}
		n := genLen(rng, lw, rng.Intn(6) == 0)
		if !isFastq && !hugeWidth && rng.Intn(8) == 0 && n > 1 { // width relative to the length
			width = []int{n - 1, n, n + 1}[rng.Intn(3)]
		}
		rec := ioRec{Name: genName(rng), Desc: genDesc(rng), Letters: genLetters(rng, al.a, n)}
		if quality {
			rec.Quals = genQuals(rng, enc, n)
		}
		recs = append(recs, rec)
		if n > width {
			anyLong = true
		}
		if n > 8192 {
			over8k = true
			r.Count("records_over_8192", 1)
		}
	}
	w := map[string]interface{}{"format": map[bool]string{true: "fastq", false: "fasta"}[isFastq], "alphabet": al.name, "width": width,
		"encoding": encNames[enc], "qid": qid, "quality_source": quality, "plain_template": plainTemplate}
	var rb []interface{}
	for _, rec := range recs {
		rb = append(rb, rec.brief())
	}
	w["records"] = rb
	fail := func(class, what string) {
		w["what"] = what
		r.Violate(class, what, w)
	}
	defer func() {
		if e := recover(); e != nil {
			fail("panic", fmt.Sprintf("panic: %v", e))
		}
	}()
	if nrec == 0 {
		r.Count("empty_lists", 1)
	}

	// write
	cw := &countingWriter{}
	var wr interface {
		Write(seq.Sequence) (int, error)
	}
	if isFastq {
		fw := fastq.NewWriter(cw)
		fw.QID = qid
		wr = fw
	} else {
		wr = fasta.NewWriter(cw, width)
	}
	total := 0
	for k, rec := range recs {
		before := cw.buf.Len()
		n, err := wr.Write(rec.toSeq(al.a, enc, quality))
		if err != nil {
			fail("write-error", fmt.Sprintf("Write of record %d returned %v", k, err))
			return
		}
		if n != cw.buf.Len()-before {
			fail("byte-count", fmt.Sprintf("Write of record %d returned n=%d but emitted %d bytes", k, n, cw.buf.Len()-before))
			return
		}
		total += n
		r.Count("write_calls_counted", 1)
	}
	data := append([]byte(nil), cw.buf.Bytes()...)
	if total != len(data) {
		fail("byte-count", fmt.Sprintf("sum of n=%d but %d bytes emitted", total, len(data)))
		return
	}

	// the same records again through a writer that accepts only the first B bytes and then fails with a short write:
	// the counts returned, the failing call's included, must add up to what the writer accepted
	if len(data) > 0 {
		var budgets []int
		if len(data) <= 160 {
			for b := 0; b < len(data); b++ {
				budgets = append(budgets, b)
			}
		} else {
			budgets = []int{0, 1, len(data) - 1}
			for k := 0; k < 5; k++ {
				budgets = append(budgets, rng.Intn(len(data)))
			}
			// just inside the lines that start a record part ('+' line of FASTQ, header lines)
			for k := 0; k < len(data)-1 && len(budgets) < 40; k++ {
				if data[k] == '\n' && (data[k+1] == '+' || data[k+1] == '@' || data[k+1] == '>') {
					budgets = append(budgets, k+1, k+2)
				}
			}
		}
		for _, b := range budgets {
			lw := &limitWriter{budget: b}
			var fwr interface {
				Write(seq.Sequence) (int, error)
			}
			if isFastq {
				fw := fastq.NewWriter(lw)
				fw.QID = qid
				fwr = fw
			} else {
				fwr = fasta.NewWriter(lw, width)
			}
			sum, sawErr := 0, false
			for k, rec := range recs {
				before := lw.got
				n, err := fwr.Write(rec.toSeq(al.a, enc, quality))
				sum += n
				if n != lw.got-before {
					w["write_fault_after_bytes"] = b
					fail("byte-count", fmt.Sprintf("underlying writer fails after %d bytes: Write of record %d returned n=%d, err=%v, but %d of its bytes were accepted", b, k, n, err, lw.got-before))
					return
				}
				if err != nil {
					sawErr = true
					break
				}
			}
			if !sawErr {
				w["write_fault_after_bytes"] = b
				fail("write-error-hidden", fmt.Sprintf("underlying writer failed after %d of %d bytes and no Write returned an error (counts sum to %d)", b, len(data), sum))
				return
			}
			r.Count("write_fault_points", 1)
		}
	}

	// read back with the real reader; compare after everything is consumed
	var got []seq.Sequence
	var err error
	if isFastq {
		got, err, _ = readAllFastq(rng, data, al.a, enc, plainTemplate, len(recs)+3)
	} else {
		got, err, _ = readAllFasta(rng, data, al.a, len(recs)+3)
	}
	if err != nil {
		fail("read-error", fmt.Sprintf("reader returned %v after %d records", err, len(got)))
		return
	}
	if len(got) != len(recs) {
		fail("record-count", fmt.Sprintf("wrote %d records, read %d", len(recs), len(got)))
		return
	}
	cmpQ := isFastq && quality && !plainTemplate
	for k := range recs {
		g := seqToRec(got[k], cmpQ)
		if d := recEqual(recs[k], g, cmpQ); d != "" {
			fail("record-differs", fmt.Sprintf("record %d: %s", k, d))
			return
		}
		r.Count("records_compared", 1)
		if cmpQ {
			r.Count("fastq_quality_records", 1)
		}
		if isFastq && !quality && !plainTemplate {
			// plain source: every quality is the default score
			for p := 0; p < got[k].Len(); p++ {
				if got[k].At(p).Q != seq.DefaultQphred {
					fail("record-differs", fmt.Sprintf("record %d: plain source read back with quality %d at %d", k, got[k].At(p).Q, p))
					return
				}
			}
		}
	}

	// the same bytes through seqio.Scanner
	{
		var rd seqio.Reader
		switch {
		case isFastq && plainTemplate:
			rd = fastq.NewReader(newSrc(rng, data), linear.NewSeq("", nil, al.a))
		case isFastq:
			rd = fastq.NewReader(newSrc(rng, data), linear.NewQSeq("", nil, al.a, enc))
		default:
			rd = fasta.NewReader(newSrc(rng, data), linear.NewSeq("", nil, al.a))
		}
		sc := seqio.NewScanner(rd)
		k := 0
		for sc.Next() {
			if k >= len(recs) {
				fail("scanner", fmt.Sprintf("seqio.Scanner yields more than the %d records written", len(recs)))
				return
			}
			if d := recEqual(recs[k], seqToRec(sc.Seq(), cmpQ), cmpQ); d != "" {
				fail("scanner", fmt.Sprintf("seqio.Scanner record %d: %s", k, d))
				return
			}
			k++
		}
		if err := sc.Error(); err != nil || k != len(recs) {
			fail("scanner", fmt.Sprintf("seqio.Scanner stopped after %d of %d records, Error()=%v", k, len(recs), err))
			return
		}
		r.Count("scanner_passes", 1)
	}

	// independent parser of the emitted bytes
	var ref []ioRec
	if isFastq {
		e := enc
		if !quality {
			e = alphabet.Sanger
		}
		ref, err = refParseFastq(data, phredOffset(e))
	} else {
		ref, err = refParseFasta(data)
	}
	if err != nil {
		fail("emitted-bytes", "independent parser: "+err.Error())
		return
	}
	if len(ref) != len(recs) {
		fail("emitted-bytes", fmt.Sprintf("independent parser finds %d records in the output, wrote %d", len(ref), len(recs)))
		return
	}
	for k := range recs {
		if d := recEqual(recs[k], ref[k], isFastq && quality); d != "" {
			fail("emitted-bytes", fmt.Sprintf("independent parser, record %d: %s", k, d))
			return
		}
	}

	// %a / %q renderings of single records
	if nrec > 0 && rng.Intn(2) == 0 {
		rec := recs[rng.Intn(nrec)]
		var text string
		fq := rng.Intn(2) == 0
		src := rec.toSeq(al.a, enc, quality)
		if qs, ok := src.(*linear.QSeq); ok {
			qs.Threshold = 0 // every letter at or above the threshold
		}
		switch {
		case fq && qid:
			text = fmt.Sprintf("%+q\n", src)
		case fq:
			text = fmt.Sprintf("%q\n", src)
		default:
			fw := width
			if hugeWidth {
				fw = 60 // fmt caps widths in a format string
			}
			text = fmt.Sprintf(fmt.Sprintf("%%%da\n", fw), src)
		}
		var back []seq.Sequence
		if fq {
			back, err, _ = readAllFastq(rng, []byte(text), al.a, enc, false, 4)
		} else {
			back, err, _ = readAllFasta(rng, []byte(text), al.a, 4)
		}
		switch {
		case err != nil:
			fail("format-verb", fmt.Sprintf("rendering of %q does not parse: %v", rec.Name, err))
		case len(back) != 1:
			fail("format-verb", fmt.Sprintf("rendering of %q parses to %d records", rec.Name, len(back)))
		default:
			if d := recEqual(rec, seqToRec(back[0], fq && quality), fq && quality); d != "" {
				fail("format-verb", fmt.Sprintf("rendering of %q parses back differently: %s", rec.Name, d))
			}
		}
		r.Count("format_verb_roundtrips", 1)
	}

	shape := ""
	for _, rec := range recs {
		shape += fmt.Sprintf("%d/%v/%v/%d;", lenClass(len(rec.Letters), width), rec.Name == "", rec.Desc == "", bytes.Count([]byte(rec.Desc), []byte(" ")))
	}
	h := fmt.Sprintf("%x", data[:minInt(len(data), 200)])
	r.Note(fmt.Sprint(isFastq, quality, plainTemplate, encNames[enc], qid, width, al.name, shape, h), nrec > 0 && (anyLong && !isFastq || isFastq && quality))
	_ = over8k
	if r.WantSample() && len(data) < 300 && nrec > 0 {
		w["emitted"] = string(data)
		r.Sample(w)
	}
}

func lenClass(n, width int) int {
	switch {
	case n == 0:
		return 0
	case n < width:
		return 1
	case n == width:
		return 2
	case n <= 4096:
		return 3
	case n <= 8192:
		return 4
	}
	return 5
}
