package main

import (
	"encoding/gob"
	"errors"
	"fmt"
	"io"
	"math/rand"
	"os"
	"path/filepath"
	"reflect"
	"runtime/debug"
	"sort"
	"strconv"
	"sync"
	"sync/atomic"
	"syscall"
	"time"

	"github.com/biogo/biogo/morass"

	"verif/harness/internal/c11alt"
)

// C11, additions after the second gap review: more struct element types (types the caller has registered with gob
// itself, a struct with fields of many kinds), calls the sorter refuses inside a cycle, one destination variable reused
// for every Pull, long histories under a small descriptor budget, and more than one sorter alive in the process.

type c11KV struct{ k, p int }

// c11Pre and c11PreNamed are registered with gob by the harness itself (as New's documentation invites callers to do)
// before the sorter ever sees them.
type c11Pre struct {
	K int
	P int
}

func (s c11Pre) Less(j interface{}) bool { return s.K < j.(c11Pre).K }

type c11PreNamed struct {
	K int
	P int
}

func (s c11PreNamed) Less(j interface{}) bool { return s.K < j.(c11PreNamed).K }

func init() {
	gob.Register(c11Pre{})
	gob.RegisterName("verif-c11-registered-by-name", c11PreNamed{})
}

// c11Rich: a struct element with fields of many kinds, all derived from (K, P) so that a pulled value can be compared
// with what was pushed. No empty-but-non-nil slices or maps (gob does not transmit them: a spilled cycle would return
// nil where a memory cycle returns the original, which is gob's convention and not the sorter's business).
type c11Inner struct {
	A int
	T string
}

type c11Rich struct {
	K  int
	P  int
	S  string
	F  float64
	B  bool
	In c11Inner
	L  []int
	M  map[string]int
}

func (s c11Rich) Less(j interface{}) bool { return s.K < j.(c11Rich).K }

func c11MkRich(k, p int) c11Rich {
	return c11Rich{K: k, P: p, S: fmt.Sprint("s", k, "/", p), F: float64(k) / 4, B: (k+p)%2 == 0, In: c11Inner{A: p - k, T: "t" + strconv.Itoa(p)},
		L: []int{k, p, 0}, M: map[string]int{"k": k, "p": p}}
}

// c11Elem is what the history runner needs to know about the element type of a history.
type c11Elem struct {
	proto interface{}
	mk    func(k, p int) morass.LessInterface
	// puller returns the function that pulls one value: into a fresh variable every time, or (reuse) into one variable
	// kept for the whole cycle. The string is non-empty when the pulled value is not one that mk can have made.
	puller     func(m *morass.Morass, reuse bool) func() (c11KV, string, error)
	foreign    morass.LessInterface // a value of another type than the sorter's
	unsettable morass.LessInterface // a destination Pull cannot set (not a pointer)
}

func c11PullerOf[T any, PT interface {
	*T
	morass.LessInterface
}](fields func(*T) (c11KV, string)) func(m *morass.Morass, reuse bool) func() (c11KV, string, error) {
	return func(m *morass.Morass, reuse bool) func() (c11KV, string, error) {
		var kept T
		return func() (c11KV, string, error) {
			dst := &kept
			if !reuse {
				dst = new(T)
			}
			err := m.Pull(PT(dst))
			kv, bad := fields(dst)
			return kv, bad, err
		}
	}
}

func c11ElemOf(h c11Hist) c11Elem {
	switch {
	case !h.Struct:
		return c11Elem{proto: c11Int(0), mk: func(k, p int) morass.LessInterface { return c11Int(k) },
			puller:  c11PullerOf[c11Int, *c11Int](func(v *c11Int) (c11KV, string) { return c11KV{int(*v), 0}, "" }),
			foreign: c11S{K: 1, P: 1}, unsettable: c11Int(0)}
	case h.AltStruct:
		return c11Elem{proto: c11alt.Proto(), mk: func(k, p int) morass.LessInterface { return c11alt.New(k, p) },
			puller: func(m *morass.Morass, reuse bool) func() (c11KV, string, error) {
				kept := c11alt.Ptr()
				return func() (c11KV, string, error) {
					dst := kept
					if !reuse {
						dst = c11alt.Ptr()
					}
					err := m.Pull(dst)
					k, p := c11alt.Fields(dst)
					return c11KV{k, p}, "", err
				}
			},
			// the struct type of the same name declared in this package, and the other package's type by value
			foreign: c11S{K: 1, P: 1}, unsettable: c11alt.New(0, 0)}
	case h.Elem == "gob-registered":
		return c11Elem{proto: c11Pre{}, mk: func(k, p int) morass.LessInterface { return c11Pre{K: k, P: p} },
			puller:  c11PullerOf[c11Pre, *c11Pre](func(v *c11Pre) (c11KV, string) { return c11KV{v.K, v.P}, "" }),
			foreign: c11PreNamed{K: 1, P: 1}, unsettable: c11Pre{}}
	case h.Elem == "gob-registered-by-name":
		return c11Elem{proto: c11PreNamed{}, mk: func(k, p int) morass.LessInterface { return c11PreNamed{K: k, P: p} },
			puller:  c11PullerOf[c11PreNamed, *c11PreNamed](func(v *c11PreNamed) (c11KV, string) { return c11KV{v.K, v.P}, "" }),
			foreign: c11Int(1), unsettable: c11PreNamed{}}
	case h.Elem == "rich":
		return c11Elem{proto: c11Rich{}, mk: func(k, p int) morass.LessInterface { return c11MkRich(k, p) },
			puller: c11PullerOf[c11Rich, *c11Rich](func(v *c11Rich) (c11KV, string) {
				if want := c11MkRich(v.K, v.P); !reflect.DeepEqual(*v, want) {
					return c11KV{v.K, v.P}, fmt.Sprintf("pulled %+v; the value pushed with these K and P was %+v", *v, want)
				}
				return c11KV{v.K, v.P}, ""
			}),
			foreign: c11S{K: 1, P: 1}, unsettable: c11Rich{}}
	}
	return c11Elem{proto: c11S{}, mk: func(k, p int) morass.LessInterface { return c11S{K: k, P: p} },
		puller:  c11PullerOf[c11S, *c11S](func(v *c11S) (c11KV, string) { return c11KV{v.K, v.P}, "" }),
		foreign: c11Int(1), unsettable: c11S{}}
}

// ---- long histories under a small descriptor budget ----

// c11GenLong: 60 cycles of 0..20 values on a sorter with chunk size 2 or 3 (up to 10 runs per cycle), full and partial
// drains and abandoned cycles. The history is run with the process's descriptor limit lowered to 40 above what is open
// at its start and with the garbage collector off (so that no finaliser closes a file the sorter forgot): a sorter that
// keeps anything open per run or per cycle fails a Push or Finalise within the history ("any sequence of use cycles").
func c11GenLong(rng *rand.Rand) c11Hist {
	h := c11Hist{Chunk: 2 + rng.Intn(2), Concurrent: rng.Intn(2) == 0, Struct: rng.Intn(2) == 0, AutoClear: rng.Intn(2) == 0, LowFdLimit: true}
	for i := 0; i < 60; i++ {
		cnt := rng.Intn(21)
		keys := make([]int, cnt)
		for k := range keys {
			keys[k] = rng.Intn(2*cnt+1) - cnt
		}
		c := c11Cycle{Keys: keys, Drain: []string{"all", "all", "all", "half", "none"}[rng.Intn(5)]}
		if i < 59 && rng.Intn(8) == 0 {
			c.Abandoned = true
		}
		h.Cycles = append(h.Cycles, c)
	}
	h.ReuseDest = rng.Intn(2) == 0
	return h
}

// c11LowerFdLimit sets the soft RLIMIT_NOFILE to extra above the highest descriptor now open and turns the collector
// off; the returned function undoes both. ok is false when the limit could not be read or set (nothing is changed then).
func c11LowerFdLimit(extra int) (restore func(), ok bool) {
	ents, err := os.ReadDir("/proc/self/fd")
	if err != nil {
		return func() {}, false
	}
	top := 0
	for _, e := range ents {
		if n, err := strconv.Atoi(e.Name()); err == nil && n > top {
			top = n
		}
	}
	var old syscall.Rlimit
	if err := syscall.Getrlimit(syscall.RLIMIT_NOFILE, &old); err != nil {
		return func() {}, false
	}
	low := old
	low.Cur = uint64(top + 1 + extra)
	if low.Cur >= old.Cur {
		return func() {}, false
	}
	if err := syscall.Setrlimit(syscall.RLIMIT_NOFILE, &low); err != nil {
		return func() {}, false
	}
	gc := debug.SetGCPercent(-1)
	return func() {
		syscall.Setrlimit(syscall.RLIMIT_NOFILE, &old)
		debug.SetGCPercent(gc)
	}, true
}

// ---- two sorters side by side ----

// c11RunPair runs two histories at the same time, each on its own sorter and in its own goroutine; both sorters live in
// the same parent directory under the same prefix. Each history is judged alone, by the model of its own sorter: whatever
// the other sorter does (its spills, its Clear, its CleanUp) is none of its business. The verdicts are returned to the
// caller's goroutine.
func c11RunPair(h1, h2 c11Hist, scratch string) (r1, r2 c11Result) {
	m1, d1, err := c11NewSorter(h1, scratch, nil)
	if err != nil {
		r1.class, r1.what = "harness", "morass.New: "+err.Error()
		return
	}
	m2, d2, err := c11NewSorter(h2, scratch, []string{d1})
	if err != nil {
		m1.CleanUp()
		r1.class, r1.what = "harness", "morass.New: "+err.Error()
		return
	}
	if d1 == "" || d2 == "" || d1 == d2 {
		// two sorters must not share a directory: the first history's CleanUp would take the other's run files along.
		// Left to the histories to show (no directory known: the cycles that need it are run as plain cycles).
		d1, d2 = "", ""
	}
	var wg sync.WaitGroup
	run := func(h c11Hist, m *morass.Morass, d string, res *c11Result) {
		defer wg.Done()
		defer func() {
			if e := recover(); e != nil {
				res.class, res.what = "panic", fmt.Sprintf("panic: %v", e)
			}
		}()
		*res = c11RunOn(h, m, d, false)
	}
	wg.Add(2)
	go run(h1, m1, d1, &r1)
	go run(h2, m2, d2, &r2)
	wg.Wait()
	return
}

// ---- several sorters for element types nobody has seen yet, created at the same moment ----

type c11G[T any] struct {
	K int
	P int
}

func (s c11G[T]) Less(j interface{}) bool { return s.K < j.(c11G[T]).K }

// c11ParOne: wait for the start signal, create a sorter for c11G[T] (the first use of that type in the process), run one
// spilling cycle and compare.
func c11ParOne[T any](start <-chan struct{}, scratch string, conc bool, keys []int, class, what *string, wg *sync.WaitGroup) {
	defer wg.Done()
	defer func() {
		if e := recover(); e != nil {
			*class, *what = "panic", fmt.Sprintf("panic: %v", e)
		}
	}()
	fail := func(c, w string) {
		*class, *what = c, fmt.Sprintf("sorter for element type %T, %d values, chunk 2, concurrent=%v: %s", c11G[T]{}, len(keys), conc, w)
	}
	<-start
	m, err := morass.New(c11G[T]{}, "par", scratch, 2, conc)
	if err != nil {
		*class, *what = "harness", "morass.New: "+err.Error()
		return
	}
	defer m.CleanUp()
	for i, k := range keys {
		if err := m.Push(c11G[T]{K: k, P: i + 1}); err != nil {
			fail("push-error", fmt.Sprintf("push %d returned %v", i, err))
			return
		}
	}
	if err := m.Finalise(); err != nil {
		fail("finalise-error", "Finalise returned "+err.Error())
		return
	}
	want := append([]int(nil), keys...)
	sort.Ints(want)
	seen := map[int]bool{}
	for i := range want {
		var v c11G[T]
		if err := m.Pull(&v); err != nil {
			fail("pull-error", fmt.Sprintf("pull %d returned %v", i, err))
			return
		}
		if v.K != want[i] || v.P < 1 || v.P > len(keys) || keys[v.P-1] != v.K || seen[v.P] {
			fail("wrong-value", fmt.Sprintf("pull %d returned %+v; sorted keys %v", i, v, want))
			return
		}
		seen[v.P] = true
	}
	var v c11G[T]
	if err := m.Pull(&v); err != io.EOF {
		fail("no-eof", fmt.Sprintf("pull after exhaustion returned %v", err))
	}
}

// c11ParallelStart: eight goroutines released together, each creating a sorter for an element type of its own that the
// process has not used before (all in one parent directory, same prefix) and running one spilling cycle on it. Returns
// one (class, what) pair per failed sorter; called once per process.
func c11ParallelStart(seed int64, scratch string) (classes, whats []string) {
	rng := rand.New(rand.NewSource(seed))
	start := make(chan struct{})
	var wg sync.WaitGroup
	cl, wh := make([]string, 8), make([]string, 8)
	keys := func() []int {
		k := make([]int, 3+rng.Intn(9))
		for i := range k {
			k[i] = rng.Intn(7) - 3
		}
		return k
	}
	wg.Add(8)
	go c11ParOne[int8](start, scratch, false, keys(), &cl[0], &wh[0], &wg)
	go c11ParOne[int16](start, scratch, true, keys(), &cl[1], &wh[1], &wg)
	go c11ParOne[int32](start, scratch, false, keys(), &cl[2], &wh[2], &wg)
	go c11ParOne[int64](start, scratch, true, keys(), &cl[3], &wh[3], &wg)
	go c11ParOne[uint8](start, scratch, false, keys(), &cl[4], &wh[4], &wg)
	go c11ParOne[uint16](start, scratch, true, keys(), &cl[5], &wh[5], &wg)
	go c11ParOne[string](start, scratch, false, keys(), &cl[6], &wh[6], &wg)
	go c11ParOne[float64](start, scratch, true, keys(), &cl[7], &wh[7], &wg)
	close(start)
	wg.Wait()
	for i := range cl {
		if cl[i] != "" {
			classes, whats = append(classes, cl[i]), append(whats, wh[i])
		}
	}
	return
}

// c11NewSorter creates the sorter of a history inside scratch and finds the directory it made for itself (the one
// sub-directory of scratch that is not listed in known).
func c11NewSorter(h c11Hist, scratch string, known []string) (*morass.Morass, string, error) {
	prefix := "run"
	if h.Prefix != "" {
		prefix = h.Prefix
	}
	m, err := morass.New(c11ElemOf(h).proto, prefix, scratch, h.Chunk, h.Concurrent)
	if err != nil {
		return nil, "", err
	}
	m.AutoClear, m.AutoClean = h.AutoClear, h.AutoClean
	ents, _ := os.ReadDir(scratch)
	var fresh []string
	for _, e := range ents {
		p := filepath.Join(scratch, e.Name())
		old := false
		for _, k := range known {
			old = old || k == p
		}
		if !old {
			fresh = append(fresh, p)
		}
	}
	if len(fresh) == 1 {
		return m, fresh[0], nil
	}
	return m, "", nil
}

// c11FailWriter stands in for a run file: its n-th Write (counted over all run files of the cycle) fails.
type c11FailWriter struct {
	f      *os.File
	n      *int64
	failAt int64
	// gate, if not nil, holds the failing write back until it is closed (and a moment longer), for at most 300 ms;
	// fired becomes 1 when the write failed, 2 when it did so after the gate had been opened
	gate  chan struct{}
	fired *int32
}

func (w c11FailWriter) Write(p []byte) (int, error) {
	if atomic.AddInt64(w.n, 1) == w.failAt {
		late := int32(1)
		if w.gate != nil {
			select {
			case <-w.gate:
				time.Sleep(2 * time.Millisecond)
				late = 2
			case <-time.After(300 * time.Millisecond):
			}
		}
		if w.fired != nil {
			atomic.StoreInt32(w.fired, late)
		}
		return 0, errors.New("harness: injected write failure")
	}
	return w.f.Write(p)
}
