package main

import (
	"fmt"

	"verif/harness/internal/obs"
)

// C07 — multi-sequence containers keep row and column views consistent under edits.

func init() {
	register(&obs.Monitor{
		ID:    "C07",
		Level: "exploration",
		Rule: "one history per case on alignment.Seq/QSeq (column-stored, >=1 column, offset 0), multi.Multi of Seq/QSeq rows with arbitrary row offsets, or multi.Set: 1..6 rows x 0..30 columns, then up to 6 edits from " +
			"{AppendColumns, AppendEach with unequal run lengths (1 in 3 with all columns / runs cut from one buffer so that each has the others in its spare capacity, now and then one run for two rows), Delete, Add (rows clipped at either end, gap-filled, or wholly outside), " +
			"Flush at either or both ends with gap or 'n' (IsFlush asked afterwards), Truncate/Subseq over a range every row covers, Clone then mutate either copy, Set, row SetOffset, SetOffset of a whole row-stored alignment (every row moves alike)}; " +
			"alphabets: the six nucleotide ones, Protein and two case-sensitive ones (upper case only; both cases as distinct letters); " +
			"after every edit the caller's buffers are overwritten, then row view, column view (Column and ColumnQL with fill), Rows/Len/Start/End are compared with a grid model, frozen copies re-observed, and uniform valid columns checked against DefaultConsensus. " +
			"Non-trivial = >=2 rows and >=2 edits; distinct = initial grid + edits",
		Batches: func(t string) int {
			if t == "thorough" {
				return 16
			}
			return 4
		},
		Cases:       func(r *obs.Run) int { return r.Share(r.Pick(20000, 3000000)) },
		Case:        c07Case,
		MinDistinct: func(t string) int { return 3000 },
		Floors: func(string) map[string]int64 {
			return map[string]int64{"op_append_columns": 1500, "op_append_each": 1500, "append_each_padded": 300, "op_delete": 800, "op_add": 800, "op_flush": 500, "flush_padded_ragged_rows": 200,
				"op_truncate": 200, "op_subseq": 200, "op_clone": 800, "caller_buffers_overwritten": 5000, "uniform_columns_consensus_checked": 3000, "states_compared": 15000,
				"appends_from_one_shared_buffer": 2000, "add_rows_clipped_on_the_left": 80, "op_multi_setoffset": 400, "isflush_asked_after_flush": 500,
				"histories_over_case_sensitive_alphabets": 1000, "uniform_columns_in_case_sensitive_or_protein_alphabets": 1000}
		},
		Assumptions: []string{
			"Multi.SetOffset(o) moves every row by the same amount, either o minus the offset recorded in the container or o minus the old Start(); an AppendColumns call that reports an error (a column of the wrong height among several) has supplied no letters: the container must be as it was; what a refused AppendEach leaves behind is not judged",
			"grids handed to the constructors are private copies (the statement speaks about AppendColumns/AppendEach buffers only)",
			"alignment.QSeq.Column applies its quality threshold: the column letter view is compared only for letters at or above it, ColumnQL always",
			"column-stored alignments stay at offset 0; Truncate/Subseq are exercised on multi.Multi, whose methods they are",
		},
	})
}

var c07Kinds = []string{"aseq", "aqseq", "mseq", "mqseq", "aseq", "aqseq", "mseq", "mqseq", "set", "qset"}

func c07Case(r *obs.Run, i int) {
	rng := r.Rng
	kind := c07Kinds[rng.Intn(len(c07Kinds))]
	h := newSeqHist(r, kind, 6, 30, false)
	defer func() {
		if e := recover(); e != nil {
			h.fail("panic", fmt.Sprintf("panic: %v", e))
		}
	}()
	if d := snapDiff(h.m.observe(h.x), h.m.snapshot()); d != "" {
		h.fail("initial-state", "freshly built container differs from the model: "+d)
		return
	}
	switch {
	case h.m.alpha().IsCased():
		r.Count("histories_over_case_sensitive_alphabets", 1)
	case h.m.Alpha == "Protein":
		r.Count("histories_over_the_protein_alphabet", 1)
	}
	nops := 1 + rng.Intn(6)
	done := 0
	for k := 0; k < nops && !h.failed && !h.ended; k++ {
		before := len(h.Ops)
		if h.m.isSet() {
			h.opAppendEach()
		} else {
			switch rng.Intn(15) {
			case 0, 1:
				h.opAppendColumns()
			case 2, 3:
				h.opAppendEach()
			case 4:
				h.opDelete()
			case 5, 6:
				h.opAdd()
			case 7, 8:
				h.opFlush()
			case 9:
				h.opTruncate(false)
			case 10:
				h.opTruncate(true)
			case 11:
				h.opClone()
			case 12:
				h.opSet()
			case 14:
				h.opMultiSetOffset()
			default:
				if h.m.isMulti() {
					h.opRowSetOffset()
				}
			}
		}
		if len(h.Ops) == before || h.failed || h.ended {
			continue
		}
		done++
		if !h.check("views-differ") {
			return
		}
		r.Count("states_compared", int64(1+len(h.frozen)))
		h.checkConsensus()
	}
	r.Note(fmt.Sprint(h.init, h.Ops), len(h.m.Rows) >= 2 && done >= 2)
	if r.WantSample() && len(h.m.Rows) <= 3 && done >= 2 {
		small := true
		for _, row := range h.m.Rows {
			if len(row.L) > 14 {
				small = false
			}
		}
		if small {
			r.Sample(map[string]interface{}{"initial": h.init, "ops": h.Ops, "final_model": h.m.brief()})
		}
	}
}
