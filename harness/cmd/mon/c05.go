package main

import (
	"github.com/biogo/biogo/seq/multi"
	"github.com/biogo/biogo/feat"
	"github.com/biogo/biogo/seq/linear"
	"github.com/biogo/biogo/alphabet"
	"github.com/biogo/biogo/seq"
	"github.com/biogo/biogo/seq/alignment"
	"fmt"

	"verif/harness/internal/obs"
)

// C05 — reverse-complement, reverse and clone obey their algebra on all sequence types.

func init() {
	register(&obs.Monitor{
		ID:    "C05",
		Level: "exploration",
		Rule: "one history per case on linear.Seq/QSeq, alignment.Seq/QSeq (column-stored), multi.Multi of Seq or QSeq rows (flush and ragged, negative offsets) or multi.Set; six complementing alphabets, letters from each pairing's domain " +
			"(ambiguity codes, n, x, gap, both cases), lengths 0..40; zero-column alignment.Seq/QSeq get a direct strand check; otherwise first RevComp twice and Reverse twice on a fresh copy (direct involution check), then up to 6 operations from {RevComp, Reverse, Clone and continue on either copy, Set, row RevComp, row SetOffset}, " +
			"the full observable state (letters, qualities, coordinates, strands, column view) compared with a clean-room model after every step and every frozen copy re-observed. " +
			"The model complements by a written-out IUPAC table (not the library's pairing); column-stored alignments sit at offsets -20..20 (2 in 3); Multi.SetOffset is one of the operations; row copies are compared by name and alphabet (encoding in the field-by-field cases), " +
			"a clone of a moved multi.Multi must move like a never-cloned twin; containers without rows (empty Multi/Set, n columns x 0 rows) get a direct no-panic/strand check (1 case in 80). Non-trivial = length >= 2 and (ragged rows or qualities or ambiguity letters); distinct = initial state + operations",
		Batches: func(t string) int {
			if t == "thorough" {
				return 16
			}
			return 4
		},
		Cases:       func(r *obs.Run) int { return r.Share(r.Pick(20000, 3000000)) },
		Case:        c05Case,
		MinDistinct: func(t string) int { return 3000 },
		Floors: func(string) map[string]int64 {
			return map[string]int64{"op_revcomp": 3000, "op_reverse": 2000, "op_clone": 2000, "op_set": 2000, "op_row_revcomp": 1000, "op_row_setoffset": 1000,
				"multi_ragged_revcomp": 300, "involution_checks": 5000, "frozen_copies_reobserved": 3000,
				"op_multi_setoffset": 400, "column_stored_alignments_at_an_offset": 500, "containers_without_rows": 50, "row_clone_name_alphabet_compared": 800}
		},
		Assumptions: []string{
			"column-stored alignments sit at an offset in 2 of 3 cases; their Column view is indexed from 0 whatever the offset, as on the pinned tree",
			"a multi.Multi's own Strand after RevComp is not judged (its rows carry the strands); where the copy of a column-stored row sits (offset, strand, description) is not judged; Multi.SetOffset(o) moves every row by o minus the recorded offset, or by o minus the old Start()",
			"coordinates after Reverse of a multi.Multi are not judged (the statement only fixes them for RevComp); the model adopts the observed offsets",
			"alignment rows' own strands live in sub-annotations and are unaffected by whole-alignment RevComp",
		},
	})
}

var c05Kinds = []string{"lseq", "lqseq", "aseq", "aqseq", "mseq", "mqseq", "mseq", "mqseq", "set", "qset"}

// c05ZeroColumns: column-stored alignments without a single column cannot be described by the row model (they have no
// rows to observe), so the strand part of the statement is checked on them directly.
func c05ZeroColumns(r *obs.Run) {
	rng := r.Rng
	al := []alphabet.Alphabet{alphabet.DNA, alphabet.RNA, alphabet.DNAgapped, alphabet.RNAgapped, alphabet.DNAredundant, alphabet.RNAredundant}[rng.Intn(6)]
	st := seq.Strand(1 - 2*rng.Intn(2))
	quality := rng.Intn(2) == 0
	w := map[string]interface{}{"kind": map[bool]string{true: "alignment.QSeq", false: "alignment.Seq"}[quality], "columns": 0, "strand": st}
	defer func() {
		if e := recover(); e != nil {
			r.Violate("panic", fmt.Sprintf("zero-column %v: panic: %v", w["kind"], e), w)
		}
	}()
	var x interface {
		RevComp()
		Reverse()
		Len() int
		Clone() seq.Rower
	}
	strand := func() seq.Strand { return 0 }
	if quality {
		a, err := alignment.NewQSeq("aln", nil, nil, al, alphabet.Sanger, seq.DefaultQConsensus)
		if err != nil {
			r.Inconclusive("harness: alignment.NewQSeq without columns: " + err.Error())
			return
		}
		a.Strand = st
		x, strand = a, func() seq.Strand { return a.Strand }
	} else {
		a, err := alignment.NewSeq("aln", nil, nil, al, seq.DefaultConsensus)
		if err != nil {
			r.Inconclusive("harness: alignment.NewSeq without columns: " + err.Error())
			return
		}
		a.Strand = st
		x, strand = a, func() seq.Strand { return a.Strand }
	}
	x.RevComp()
	if strand() != -st || x.Len() != 0 {
		r.Violate("revcomp", fmt.Sprintf("zero-column %v with strand %d: after one RevComp strand %d (want %d), length %d", w["kind"], st, strand(), -st, x.Len()), w)
		return
	}
	x.RevComp()
	if strand() != st || x.Len() != 0 {
		r.Violate("revcomp-involution", fmt.Sprintf("zero-column %v with strand %d: after two RevComps strand %d, length %d", w["kind"], st, strand(), x.Len()), w)
		return
	}
	// Clone of nothing is still a copy of its own; Reverse twice changes nothing
	c := x.Clone()
	if cl, ok := c.(interface{ Len() int }); c == nil || !ok || cl.Len() != 0 {
		r.Violate("clone-not-independent", fmt.Sprintf("zero-column %v: Clone returned %v", w["kind"], c), w)
		return
	}
	c.(interface{ RevComp() }).RevComp()
	if strand() != st {
		r.Violate("clone-not-independent", fmt.Sprintf("zero-column %v: RevComp of the clone changed the original's strand to %d", w["kind"], strand()), w)
		return
	}
	x.Reverse()
	x.Reverse()
	if x.Len() != 0 {
		r.Violate("reverse-involution", fmt.Sprintf("zero-column %v: length %d after two Reverses", w["kind"], x.Len()), w)
		return
	}
	r.Count("zero_column_alignments", 1)
	r.Note(fmt.Sprintf("zerocol/%v/%d/%s", quality, st, al.Letters()), true)
}

// c05ZeroRows: containers without a single row - a multi.Multi or multi.Set that rows are yet to be added to, a
// column-stored alignment of n columns by 0 rows. Nothing can be read from them, but the operations must go through and
// the alignment's strand must follow: RevComp negates it, twice restores it, Len and Rows stay, the clone is its own.
func c05ZeroRows(r *obs.Run) {
	rng := r.Rng
	al := []alphabet.Alphabet{alphabet.DNA, alphabet.RNA, alphabet.DNAgapped, alphabet.RNAgapped, alphabet.DNAredundant, alphabet.RNAredundant}[rng.Intn(6)]
	shape := rng.Intn(4)
	ncols := 1 + rng.Intn(4)
	st := seq.Strand(1 - 2*rng.Intn(2))
	name := []string{"multi.Multi", "multi.Set", "alignment.Seq", "alignment.QSeq"}[shape]
	w := map[string]interface{}{"kind": name, "rows": 0, "strand": st}
	defer func() {
		if e := recover(); e != nil {
			r.Violate("panic", fmt.Sprintf("%s without rows: panic: %v", name, e), w)
		}
	}()
	type ops interface {
		RevComp()
		Reverse()
		Rows() int
	}
	var x ops
	clone := func() ops { return nil }
	strand := func() seq.Strand { return st }
	length := func() int { return 0 }
	switch shape {
	case 0:
		m, err := multi.NewMulti("m", nil, seq.DefaultConsensus)
		if err != nil {
			r.Inconclusive("harness: multi.NewMulti without rows: " + err.Error())
			return
		}
		x, clone = m, func() ops { return m.Clone().(ops) }
	case 1:
		x = multi.Set{}
	case 2:
		a, err := alignment.NewSeq("a", nil, make([][]alphabet.Letter, ncols), al, seq.DefaultConsensus)
		if err != nil {
			r.Inconclusive("harness: alignment.NewSeq without rows: " + err.Error())
			return
		}
		a.Strand = st
		w["columns"] = ncols
		x, clone, strand, length = a, func() ops { return a.Clone().(ops) }, func() seq.Strand { return a.Strand }, a.Len
	default:
		a, err := alignment.NewQSeq("a", nil, make([][]alphabet.QLetter, ncols), al, alphabet.Sanger, seq.DefaultQConsensus)
		if err != nil {
			r.Inconclusive("harness: alignment.NewQSeq without rows: " + err.Error())
			return
		}
		a.Strand = st
		w["columns"] = ncols
		x, clone, strand, length = a, func() ops { return a.Clone().(ops) }, func() seq.Strand { return a.Strand }, a.Len
	}
	n := length()
	x.RevComp()
	if shape >= 2 && strand() != -st || x.Rows() != 0 || length() != n {
		r.Violate("revcomp", fmt.Sprintf("%s without rows, strand %d: after one RevComp strand %d (want %d), %d rows, length %d (was %d)", name, st, strand(), -st, x.Rows(), length(), n), w)
		return
	}
	x.RevComp()
	if strand() != st || x.Rows() != 0 || length() != n {
		r.Violate("revcomp-involution", fmt.Sprintf("%s without rows, strand %d: after two RevComps strand %d, %d rows, length %d (was %d)", name, st, strand(), x.Rows(), length(), n), w)
		return
	}
	if c := clone(); shape != 1 {
		if c == nil || c.Rows() != 0 {
			r.Violate("clone-not-independent", fmt.Sprintf("%s without rows: Clone returned %v", name, c), w)
			return
		}
		c.RevComp()
		if strand() != st {
			r.Violate("clone-not-independent", fmt.Sprintf("%s without rows: RevComp of the clone changed the original's strand to %d", name, strand()), w)
			return
		}
	}
	x.Reverse()
	x.Reverse()
	if x.Rows() != 0 || length() != n {
		r.Violate("reverse-involution", fmt.Sprintf("%s without rows: %d rows, length %d (was %d) after two Reverses", name, x.Rows(), length(), n), w)
		return
	}
	r.Count("containers_without_rows", 1)
	r.Note(fmt.Sprintf("zerorows/%d/%d/%d/%s", shape, ncols, st, al.Letters()), true)
}

// c05EmptyClones: clones of a zero-length linear sequence whose slice has room to spare (a template that was emptied, or
// preallocated) must not share that room: letters appended to one copy never show up in, or get overwritten through,
// another.
func c05EmptyClones(r *obs.Run) {
	rng := r.Rng
	quality := rng.Intn(2) == 0
	spare := 1 + rng.Intn(24)
	w := map[string]interface{}{"kind": map[bool]string{true: "linear.QSeq", false: "linear.Seq"}[quality], "length": 0, "spare_capacity": spare}
	defer func() {
		if e := recover(); e != nil {
			r.Violate("panic", fmt.Sprintf("empty %v with spare capacity: panic: %v", w["kind"], e), w)
		}
	}()
	var orig seq.Sequence
	if quality { // the constructors copy their argument: the roomy slice is assigned to the exported field
		q := linear.NewQSeq("x", nil, alphabet.DNA, alphabet.Sanger)
		q.Seq = make(alphabet.QLetters, 0, spare)
		orig = q
	} else {
		l := linear.NewSeq("x", nil, alphabet.DNA)
		l.Seq = make(alphabet.Letters, 0, spare)
		orig = l
	}
	copies := []seq.Sequence{orig, orig.Clone().(seq.Sequence), orig.Clone().(seq.Sequence)}
	want := make([]string, len(copies))
	order := rng.Perm(len(copies))
	for round := 0; round < 2; round++ {
		for _, k := range order {
			n := 1 + rng.Intn(minInt(spare, 5))
			l := make([]byte, n)
			for j := range l {
				l[j] = "acgt"[(k+j+round)%4]
			}
			var err error
			if quality {
				ql := make([]alphabet.QLetter, n)
				for j := range ql {
					ql[j] = alphabet.QLetter{L: alphabet.Letter(l[j]), Q: alphabet.Qphred(10 + k)}
				}
				err = copies[k].(*linear.QSeq).AppendQLetters(ql...)
			} else {
				err = copies[k].(*linear.Seq).AppendLetters(alphabet.BytesToLetters(l)...)
			}
			if err != nil {
				r.Violate("append-error", "append to a copy of an empty sequence returned "+err.Error(), w)
				return
			}
			want[k] += string(l)
			for c := range copies {
				got := make([]byte, copies[c].Len())
				for p := range got {
					got[p] = byte(copies[c].At(p).L)
				}
				if string(got) != want[c] {
					w["copies_expected"] = want
					r.Violate("clone-not-independent", fmt.Sprintf("%v of length 0 (spare capacity %d) and two clones: after appending %q to copy %d, copy %d reads %q, want %q", w["kind"], spare, l, k, c, got, want[c]), w)
					return
				}
			}
		}
	}
	r.Count("empty_sequence_clone_sets", 1)
	r.Note(fmt.Sprintf("emptyclones/%v/%d/%v", quality, spare, order), true)
}

// c05CloneCarries: a clone is a copy of the whole value - description, conformation, location, offset (hence Start and
// End), encoding, threshold and the rows' annotations travel with the letters - and stays its own afterwards.
func c05CloneCarries(r *obs.Run) {
	rng := r.Rng
	loc := linear.NewSeq("chr", nil, alphabet.DNA)
	off := rng.Intn(41) - 20
	enc := []alphabet.Encoding{alphabet.Sanger, alphabet.Illumina1_3, alphabet.Solexa, alphabet.Illumina1_8}[rng.Intn(4)]
	thr := alphabet.Qphred(3 + rng.Intn(30))
	ann := func(a *seq.Annotation) {
		a.Desc, a.Conform, a.Loc, a.Offset, a.Strand = "some description", feat.Circular, loc, off, seq.Strand(1-2*rng.Intn(2))
	}
	kind := rng.Intn(5)
	w := map[string]interface{}{"kind": []string{"linear.Seq", "linear.QSeq", "alignment.Seq", "alignment.QSeq", "multi.Multi"}[kind], "offset": off}
	bad := func(what string) {
		r.Violate("clone-not-independent", fmt.Sprintf("%v: %s", w["kind"], what), w)
	}
	defer func() {
		if e := recover(); e != nil {
			r.Violate("panic", fmt.Sprintf("%v: panic: %v", w["kind"], e), w)
		}
	}()
	type whole interface {
		CloneAnnotation() *seq.Annotation
		Start() int
		End() int
	}
	var x, c whole
	extra := func(v whole) string { return "" }
	switch kind {
	case 0:
		s := linear.NewSeq("s", alphabet.BytesToLetters([]byte("acgtacg")), alphabet.DNA)
		ann(&s.Annotation)
		x, c = s, s.Clone().(whole)
	case 1:
		s := linear.NewQSeq("s", []alphabet.QLetter{{L: 'a', Q: 9}, {L: 'c', Q: 40}, {L: 'g', Q: 1}}, alphabet.DNA, enc)
		ann(&s.Annotation)
		s.Threshold, s.QFilter = thr, seq.CaseFilter
		x, c = s, s.Clone().(whole)
		extra = func(v whole) string {
			q := v.(*linear.QSeq)
			return fmt.Sprint(q.Threshold, q.Encode, q.QFilter != nil)
		}
	case 2:
		s, err := alignment.NewSeq("a", []string{"r0", "r1"}, [][]alphabet.Letter{{'a', 'c'}, {'g', 't'}, {'a', 'a'}}, alphabet.DNA, seq.DefaultConsensus)
		if err != nil {
			r.Inconclusive("harness: alignment.NewSeq: " + err.Error())
			return
		}
		ann(&s.Annotation)
		s.SubAnnotations[1].Desc, s.SubAnnotations[1].Offset = "row description", 3
		x, c = s, s.Clone().(whole)
		extra = func(v whole) string { return fmt.Sprintf("%+v", v.(*alignment.Seq).SubAnnotations) }
		// the copy of one row, taken through its handle, is that row's sequence: its name, its alphabet
		if rc := s.Row(1).Clone().(seq.Sequence); rc.Name() != "r1" || rc.Alphabet() != alphabet.DNA {
			bad(fmt.Sprintf("Row(1).Clone is named %q over alphabet %q, the row is \"r1\" over %q", rc.Name(), alphaLetters(rc.Alphabet()), alphaLetters(alphabet.DNA)))
			return
		}
	case 3:
		s, err := alignment.NewQSeq("a", []string{"r0", "r1"}, [][]alphabet.QLetter{{{L: 'a', Q: 9}, {L: 'c', Q: 8}}, {{L: 'g', Q: 30}, {L: 't', Q: 2}}}, alphabet.DNA, enc, seq.DefaultQConsensus)
		if err != nil {
			r.Inconclusive("harness: alignment.NewQSeq: " + err.Error())
			return
		}
		ann(&s.Annotation)
		s.Threshold = thr
		s.SubAnnotations[0].Desc, s.SubAnnotations[0].Strand = "row description", seq.Minus
		x, c = s, s.Clone().(whole)
		extra = func(v whole) string {
			q := v.(*alignment.QSeq)
			return fmt.Sprintf("%v %v %+v", q.Threshold, q.Encode, q.SubAnnotations)
		}
		// the copy of one row carries its name, alphabet and the encoding its qualities are written in
		rc := s.Row(0).Clone().(seq.Sequence)
		sc, scores := rc.(interface{ Encoding() alphabet.Encoding })
		got := alphabet.Encoding(-1)
		if scores {
			got = sc.Encoding()
		}
		if rc.Name() != "r0" || rc.Alphabet() != alphabet.DNA || got != enc {
			bad(fmt.Sprintf("Row(0).Clone is a %T named %q over alphabet %q with encoding %d, the row is \"r0\" over %q with encoding %d", rc, rc.Name(), alphaLetters(rc.Alphabet()), got, alphaLetters(alphabet.DNA), enc))
			return
		}
		r.Count("row_clone_encoding_compared", 1)
	default:
		strand := seq.Strand(1 - 2*rng.Intn(2))
		mk := func() (*multi.Multi, error) {
			r0 := linear.NewSeq("r0", alphabet.BytesToLetters([]byte("acgt")), alphabet.DNA)
			r1 := linear.NewSeq("r1", alphabet.BytesToLetters([]byte("ggt")), alphabet.DNA)
			r1.Desc, r1.Offset = "row description", 2
			m, err := multi.NewMulti("m", []seq.Sequence{r0, r1}, seq.DefaultConsensus)
			if err != nil {
				return nil, err
			}
			m.Desc, m.Conform, m.Loc, m.Encode, m.Strand = "some description", feat.Circular, loc, enc, strand
			m.SetOffset(off) // the container's own offset: the rows move along with it
			return m, nil
		}
		m, err := mk()
		twin, err2 := mk()
		if err != nil || err2 != nil {
			r.Inconclusive("harness: multi.NewMulti failed")
			return
		}
		x, c = m, m.Clone().(whole)
		// a copy behaves as the original does: moved to another offset it lands where a never-cloned twin of the
		// original lands, and the original's rows stay
		o2 := rng.Intn(41) - 20
		w["moved_to"] = o2
		at := func(v *multi.Multi) string { return fmt.Sprint(v.Seq[0].Start(), v.Seq[1].Start()) }
		was := at(m)
		c2 := m.Clone().(*multi.Multi)
		c2.SetOffset(o2)
		twin.SetOffset(o2)
		if at(c2) != at(twin) {
			bad(fmt.Sprintf("after SetOffset(%d) the clone's rows start at %s, those of an identical never-cloned container at %s", o2, at(c2), at(twin)))
			return
		}
		if at(m) != was {
			bad(fmt.Sprintf("SetOffset(%d) on the clone moved the original's rows from %s to %s", o2, was, at(m)))
			return
		}
		r.Count("multi_clone_moved_like_its_original", 1)
		extra = func(v whole) string {
			mm := v.(*multi.Multi)
			return fmt.Sprintf("%v %s/%d %s/%d", mm.Encode, mm.Seq[0].Description(), mm.Seq[0].Start(), mm.Seq[1].Description(), mm.Seq[1].Start())
		}
	}
	xa, ca := *x.CloneAnnotation(), *c.CloneAnnotation()
	if xa != ca {
		bad(fmt.Sprintf("the clone's annotation is %+v, the original's %+v", ca, xa))
		return
	}
	if x.Start() != c.Start() || x.End() != c.End() {
		bad(fmt.Sprintf("the clone spans [%d,%d), the original [%d,%d)", c.Start(), c.End(), x.Start(), x.End()))
		return
	}
	if extra(x) != extra(c) {
		bad(fmt.Sprintf("the clone carries %s, the original %s", extra(c), extra(x)))
		return
	}
	before := fmt.Sprintf("%+v %s", xa, extra(x))
	// the clone's own fields are changed: the original keeps its
	switch v := c.(type) {
	case *linear.Seq:
		v.Desc, v.Offset, v.Conform = "changed", v.Offset+5, feat.Linear
	case *linear.QSeq:
		v.Desc, v.Offset, v.Threshold, v.Encode = "changed", v.Offset+5, 0, alphabet.Illumina1_5
	case *alignment.Seq:
		v.Desc, v.Offset = "changed", v.Offset+5
		v.SubAnnotations[1].Desc, v.SubAnnotations[0].Strand = "changed", seq.Minus
	case *alignment.QSeq:
		v.Desc, v.Offset, v.Threshold = "changed", v.Offset+5, 0
		v.SubAnnotations[0].Desc = "changed"
	case *multi.Multi:
		v.Desc, v.Encode = "changed", alphabet.Illumina1_5
		v.Seq[1].(*linear.Seq).Desc, v.Seq[1].(*linear.Seq).Offset = "changed", 9
	}
	if after := fmt.Sprintf("%+v %s", *x.CloneAnnotation(), extra(x)); after != before {
		bad(fmt.Sprintf("changing the clone's fields changed the original: %s, was %s", after, before))
		return
	}
	r.Count("clones_compared_field_by_field", 1)
	r.Note(fmt.Sprintf("carries/%d/%d/%v/%d", kind, off, enc, thr), true)
}

func c05Case(r *obs.Run, i int) {
	rng := r.Rng
	if i%40 == 23 {
		c05CloneCarries(r)
		return
	}
	if i%40 == 7 {
		c05ZeroColumns(r)
		return
	}
	if i%40 == 13 {
		c05EmptyClones(r)
		return
	}
	if i%80 == 31 {
		c05ZeroRows(r)
		return
	}
	kind := c05Kinds[rng.Intn(len(c05Kinds))]
	h := newSeqHist(r, kind, 5, 40, true)
	defer func() {
		if e := recover(); e != nil {
			h.fail("panic", fmt.Sprintf("panic: %v", e))
		}
	}()
	if d := snapDiff(h.m.observe(h.x), h.m.snapshot()); d != "" {
		h.fail("initial-state", "freshly built container differs from the model: "+d)
		return
	}
	if h.m.colStored() && h.m.Off != 0 {
		r.Count("column_stored_alignments_at_an_offset", 1)
	}
	// direct involution checks on a separate copy
	{
		y := h.m.build()
		s0 := h.m.observe(y)
		y.(interface{ RevComp() }).RevComp()
		s1 := h.m.observe(y)
		y.(interface{ RevComp() }).RevComp()
		if d := snapDiff(h.m.observe(y), s0); d != "" {
			h.Ops = append(h.Ops, "RevComp; RevComp")
			h.fail("revcomp-involution", "RevComp twice does not restore the original: "+d)
			return
		}
		// single application: letters are the reversed complement, qualities travel
		mm := h.m.clone()
		mm.revAll(true)
		if d := snapDiff(s1, mm.snapshot()); d != "" {
			h.Ops = append(h.Ops, "RevComp")
			h.fail("revcomp", "after one RevComp: "+d)
			return
		}
		y.(interface{ Reverse() }).Reverse()
		y.(interface{ Reverse() }).Reverse()
		s2 := h.m.observe(y)
		for k := range s0.Rows {
			if s2.Rows[k].L != s0.Rows[k].L || s2.Rows[k].Q != s0.Rows[k].Q {
				h.Ops = append(h.Ops, "Reverse; Reverse")
				h.fail("reverse-involution", fmt.Sprintf("Reverse twice changed row %d: %q -> %q", k, s0.Rows[k].L, s2.Rows[k].L))
				return
			}
		}
		r.Count("involution_checks", 2)
	}
	ragged := false
	if h.m.isMulti() {
		for _, row := range h.m.Rows {
			if row.Start != h.m.Rows[0].Start || len(row.L) != len(h.m.Rows[0].L) {
				ragged = true
			}
		}
	}
	nops := 1 + rng.Intn(6)
	for k := 0; k < nops && !h.failed && !h.ended; k++ {
		before := len(h.Ops)
		switch rng.Intn(15) {
		case 14:
			h.opMultiSetOffset()
		case 12:
			h.opRowReverse()
		case 13:
			h.opRowClone()
		case 9:
			h.opSwap()
		case 10, 11:
			h.opAppend()
		case 0, 1, 2:
			if ragged {
				r.Count("multi_ragged_revcomp", 1)
			}
			h.opRevComp()
		case 3:
			h.opReverse()
		case 4, 5:
			h.opClone()
		case 6:
			h.opSet()
		case 7:
			h.opRowRevComp()
		default:
			h.opRowSetOffset()
		}
		if len(h.Ops) == before || h.failed || h.ended {
			continue
		}
		if !h.check("state-differs") {
			return
		}
		r.Count("frozen_copies_reobserved", int64(len(h.frozen)))
	}
	n := 0
	amb := false
	for _, row := range h.m.Rows {
		if len(row.L) > n {
			n = len(row.L)
		}
		for _, c := range row.L {
			switch c {
			case 'a', 'c', 'g', 't', 'u', 'A', 'C', 'G', 'T', 'U':
			default:
				amb = true
			}
		}
	}
	r.Note(fmt.Sprint(h.init, h.Ops), n >= 2 && (ragged || h.m.hasQ() || amb))
	if r.WantSample() && n < 12 && len(h.Ops) > 2 {
		r.Sample(map[string]interface{}{"initial": h.init, "ops": h.Ops, "final_model": h.m.brief()})
	}
}
