package main

import (
	"bytes"
	"fmt"
	"github.com/biogo/biogo/io/seqio"
	"io"
	"math/rand"
	"reflect"
	"strings"
	"sync/atomic"
	"time"

	"github.com/biogo/biogo/alphabet"
	"github.com/biogo/biogo/io/featio/bed"
	"github.com/biogo/biogo/io/featio/gff"
	"github.com/biogo/biogo/io/seqio/fasta"
	"github.com/biogo/biogo/io/seqio/fastq"
	"github.com/biogo/biogo/seq/linear"

	"verif/harness/internal/obs"
)

// C03 — readers are total: malformed input yields errors, never panics or hangs.

var c03Kinds = []string{"fasta", "fastq", "bed3", "bed4", "bed5", "bed6", "bed12", "gff"}

// progress markers for the in-process hang watchdog
var (
	c03Calls   int64 // total reader calls made so far
	c03Src     atomic.Value
	c03Current atomic.Value // description of the input being read
)

func init() {
	register(&obs.Monitor{
		ID:    "C03",
		Level: "exploration",
		Rule: "per case one input fed to readers (FASTA, FASTQ, BED3/4/5/6/12, GFF): (a) random bytes enriched with newline/tab/#/>/@/+; (b) valid files from the C01/C02 generators under 1..3 mutations " +
			"(delete/duplicate/empty/swap a column, numeric boundary tokens, strand/frame replacement, drop/duplicate a line, splice, byte flips, random truncation); (c) a catalogue of structurally invalid lines that must produce an error, embedded between valid lines; " +
			"(d) truncation of small valid files at every byte offset; one input in six is delivered by a source that fails with a non-EOF error at a random offset. Oracle: no panic (recover + child exit status), every call returns a record or an error, first error/EOF within lines+1 calls, further calls still safe (one reader in eight, and every catalogue reader, is called on past its errors until io.EOF, as a caller skipping bad records does: same demands on every call, none on where EOF comes), hang = call not returning while its source is at EOF or is not asked for anything. " +
			"Also: numeric tokens include large integers that parse (MaxInt64, 2^31, 2^32, 2^40, 255/256, 127/128) and lists of them in the BED12 colour/block columns; one random input in 80 has lines of several read buffers (4000..24000 bytes, a newline every ~3000), the catalogue has FASTQ length mismatches with 4090..70000 letters; " +
			"one case in 1000 runs 4..8 goroutines with 20..40 independent readers each (mostly of one package, the list gone through 8 times) at the same time, every run compared with the same run alone. " +
			"Non-trivial = at least one record or non-EOF error; distinct = (reader, outcome sequence, input hash)",
		Batches: func(t string) int {
			if t == "thorough" {
				return 16
			}
			return 4
		},
		Cases:       func(r *obs.Run) int { return r.Share(r.Pick(60000, 600000)) },
		Setup:       c03Setup,
		Case:        c03Case,
		MinDistinct: func(t string) int { return 10000 },
		Floors: func(string) map[string]int64 {
			return map[string]int64{"reader_runs": 50000, "read_calls": 200000, "records_returned": 20000, "errors_returned": 20000, "catalogue_lines_checked": 2000, "truncation_points": 20000, "random_byte_inputs": 3000, "mutated_inputs": 5000,
				"long_line_random_inputs": 300, "catalogue_lines_longer_than_the_read_buffer": 80, "large_parsable_integers_placed": 1000, "runs_continued_past_their_errors": 8000, "parallel_reader_sets": 30, "parallel_reader_runs": 40000}
		},
		ChildTimeout: func(string) time.Duration { return 15 * time.Minute },
		Assumptions: []string{
			"lines = number of newline bytes, plus one if the input does not end in a newline",
			"a hang is decided logically: the instrumented source has delivered io.EOF and the call has still not returned after 20 s (wall clock only as the trigger to look)",
			"the source never blocks, so a call that for 20 s neither returns nor asks its source for anything is computing without end; it is called a hang only if the process also used 10 s of processor time meanwhile (a process merely kept from running uses none)",
			"readers that share no source, template or input may be used from different goroutines at once and then behave as they do alone (as for the writers in C01)",
			"catalogue lines are those the statement lists: missing mandatory columns, non-numeric coordinates, GFF start of zero, bad strand, incomplete metadata lines, sequence/quality length mismatch",
		},
	})
}

func c03Setup(r *obs.Run) {
	go func() {
		last := int64(-1)
		stuck := 0
		var reads, quiet int64 // source reads seen at the last look; consecutive looks without a new one
		var cpu0 time.Duration // processor time used by this process when the source was last seen being read
		for {
			time.Sleep(time.Second)
			now := atomic.LoadInt64(&c03Calls)
			nowReads := atomic.LoadInt64(&c03SrcReads)
			if now != last {
				last, stuck = now, 0
				reads, quiet, cpu0 = nowReads, 0, c03CPU()
				continue
			}
			stuck++
			if nowReads != reads {
				reads, quiet, cpu0 = nowReads, 0, c03CPU()
			} else {
				quiet++
			}
			if stuck < 20 {
				continue
			}
			src, _ := c03Src.Load().(*chunkReader)
			cur, _ := c03Current.Load().(string)
			if src != nil && src.eofSeen() {
				r.Violate("hang", "reader call has not returned although its source delivered io.EOF", map[string]interface{}{"input": cur})
				r.FinishEarly(0)
			}
			// the source never blocks, so a call that neither returns nor asks its source for anything waits for nothing:
			// it is computing (the processor time it used meanwhile shows that the process was not merely kept from running)
			if used := c03CPU() - cpu0; quiet >= 20 && used >= 10*time.Second {
				r.Violate("hang", fmt.Sprintf("reader call has not returned and has not asked its source for anything for %d s, during which the process used %.0f s of processor time", quiet, used.Seconds()),
					map[string]interface{}{"input": cur, "seconds_without_a_source_read": quiet, "processor_seconds_used": used.Seconds(), "source_reads_so_far": nowReads})
				r.FinishEarly(0)
			}
			if stuck > 120 {
				r.Inconclusive("no reader progress for 120 s without EOF delivered: " + cur)
				r.FinishEarly(0)
			}
		}
	}()
}

func (c *chunkReader) eofSeen() bool { return atomic.LoadInt32(&c.eofFlag) == 1 }

func isNilRec(v interface{}) bool {
	if v == nil {
		return true
	}
	rv := reflect.ValueOf(v)
	switch rv.Kind() {
	case reflect.Ptr, reflect.Map, reflect.Slice, reflect.Interface, reflect.Func, reflect.Chan:
		return rv.IsNil()
	}
	return false
}

func countLines(data []byte) int {
	n := bytes.Count(data, []byte{'\n'})
	if len(data) > 0 && data[len(data)-1] != '\n' {
		n++
	}
	return n
}

type c03Outcome struct {
	seq      string // R record, E error, F EOF, per call
	nonEOF   int
	records  int
	calls    int
	beyond   int // calls made after the second call following the first error (readers whose caller skips bad records)
	violated bool
}

// c03Drive runs one reader over data: it draws the source and the reader settings, runs the calls (c03Core) and
// books what was seen.
func c03Drive(r *obs.Run, kind string, data []byte, origin string) c03Outcome {
	idPrefix := ""
	if kind == "fasta" && !strings.HasPrefix(origin, "catalogue") && r.Rng.Intn(8) == 0 {
		// a reader set up for another header mark (several bytes, blanks among them); the input's header lines are
		// rewritten to carry it, whatever else the input holds
		idPrefix = []string{"> ", ">>", ";", ">\t", "> >", "#id="}[r.Rng.Intn(6)]
		data = bytes.ReplaceAll(data, []byte("\n>"), []byte("\n"+idPrefix))
		if len(data) > 0 && data[0] == '>' {
			data = append([]byte(idPrefix), data[1:]...)
		}
		origin += fmt.Sprintf(" (header prefix %q)", idPrefix)
		r.Count("fasta_readers_with_another_header_prefix", 1)
	}
	src := newSrc(r.Rng, data)
	if len(data) > 0 && !strings.HasPrefix(origin, "catalogue") && r.Rng.Intn(6) == 0 { // the underlying reader fails part-way instead of reaching its end
		src.failing, src.failAt = true, r.Rng.Intn(len(data)+1)
		origin += fmt.Sprintf(" (source fails after %d bytes)", src.failAt)
		r.Count("failing_sources", 1)
	}
	p := c03DrawPick(r.Rng, kind, len(data) < 1<<20)
	p.idPrefix = idPrefix
	if strings.HasPrefix(origin, "catalogue") { // the bad lines may stand behind an earlier error: all of the input is read
		p.past = true
	}
	if p.noTime {
		r.Count("gff_readers_without_time_format", 1)
	}
	if p.picky {
		r.Count("readers_with_a_template_that_refuses_some_names", 1)
	}
	out, f := c03Core(kind, data, origin, src, p)
	c03Book(r, out, f)
	return out
}

// c03Book counts one finished reader run and records its finding, if any (main goroutine only).
func c03Book(r *obs.Run, out c03Outcome, f *c03Finding) {
	r.Count("reader_runs", 1)
	r.Count("read_calls", int64(out.calls))
	r.Count("errors_returned", int64(out.nonEOF))
	r.Count("records_returned", int64(out.records))
	if out.beyond > 0 {
		r.Count("runs_continued_past_their_errors", 1)
		r.Count("calls_beyond_the_second_after_the_first_error", int64(out.beyond))
	}
	if f != nil {
		r.Violate(f.class, f.brief, f.witness)
	}
}

// c03Pick is what is drawn for one reader besides its source.
type c03Pick struct {
	tmpl   int  // fasta: 1 = quality-carrying template; fastq: index of the quality encoding, 8 = plain template
	noTime bool // gff: date parsing switched off
	// fasta: the reader's IDPrefix, when not the default
	idPrefix string
	// fasta, fastq: a template that refuses some names and descriptions
	picky bool
	past  bool // the caller skips bad records: it goes on calling after the errors until io.EOF (or the call bound)
}

var c03Encodings = []alphabet.Encoding{alphabet.Sanger, alphabet.Sanger, alphabet.Solexa, alphabet.Illumina1_3, alphabet.Illumina1_5, alphabet.Illumina1_8, alphabet.Illumina1_9, alphabet.None}

func c03DrawPick(rng *rand.Rand, kind string, mayGoPast bool) c03Pick {
	var p c03Pick
	switch kind {
	case "fasta":
		if rng.Intn(3) == 0 {
			p.tmpl = 1
		}
	case "fastq":
		// every decoder sees arbitrary bytes, and so does the plain template
		p.tmpl = rng.Intn(len(c03Encodings))
		if rng.Intn(6) == 0 {
			p.tmpl = len(c03Encodings)
		}
	case "gff":
		p.noTime = rng.Intn(3) == 0 // date parsing switched off: an incomplete ##date line is still incomplete
	}
	p.past = mayGoPast && rng.Intn(8) == 0
	p.picky = (kind == "fasta" || kind == "fastq") && rng.Intn(8) == 0
	return p
}

// c03Finding is a violation seen by c03Core, to be recorded by the main goroutine.
type c03Finding struct {
	class, brief string
	witness      map[string]interface{}
}

// c03Core makes the calls of one reader run. It touches nothing of the run context (only the watchdog's atomic
// markers), so that several of them can run in different goroutines.
func c03Core(kind string, data []byte, origin string, src *chunkReader, p c03Pick) (out c03Outcome, finding *c03Finding) {
	c03Src.Store(src)
	in := c03Source{src}
	var read func() (interface{}, error)
	switch kind {
	case "fasta":
		var tmpl seqio.SequenceAppender = linear.NewSeq("", nil, alphabet.DNA)
		if p.tmpl == 1 {
			tmpl = linear.NewQSeq("", nil, alphabet.Protein, alphabet.Sanger)
		}
		if p.picky {
			tmpl = c03Picky{linear.NewQSeq("", nil, alphabet.DNA, alphabet.Sanger)}
		}
		rd := fasta.NewReader(in, tmpl)
		if p.idPrefix != "" {
			rd.IDPrefix = []byte(p.idPrefix)
		}
		read = func() (interface{}, error) { s, err := rd.Read(); return s, err }
	case "fastq":
		var tmpl seqio.SequenceAppender
		if p.tmpl < len(c03Encodings) {
			tmpl = linear.NewQSeq("", nil, alphabet.DNA, c03Encodings[p.tmpl])
		} else {
			tmpl = linear.NewSeq("", nil, alphabet.DNA)
		}
		if p.picky {
			tmpl = c03Picky{linear.NewQSeq("", nil, alphabet.DNA, alphabet.Sanger)}
		}
		rd := fastq.NewReader(in, tmpl)
		read = func() (interface{}, error) { s, err := rd.Read(); return s, err }
	case "gff":
		rd := gff.NewReader(in)
		if p.noTime {
			rd.TimeFormat = ""
		}
		read = func() (interface{}, error) { f, err := rd.Read(); return f, err }
	default:
		n := map[string]int{"bed3": 3, "bed4": 4, "bed5": 5, "bed6": 6, "bed12": 12}[kind]
		rd, err := bed.NewReader(in, n)
		if err != nil {
			return out, &c03Finding{"constructor", "bed.NewReader: " + err.Error(), nil}
		}
		read = func() (interface{}, error) { f, err := rd.Read(); return f, err }
	}
	var sb strings.Builder
	fail := func(mark, class, brief, what string) (c03Outcome, *c03Finding) {
		d := data
		if len(d) > 3000 {
			d = d[:3000]
		}
		out.seq = sb.String() + mark
		out.violated = true
		return out, &c03Finding{class, brief, map[string]interface{}{"reader": kind, "origin": origin, "input": string(d), "input_hex_head": fmt.Sprintf("%x", d[:minInt(len(d), 64)]), "input_len": len(data), "calls": out.seq, "what": what}}
	}
	bound := countLines(data) + 1
	first := 0
	for call := 1; call <= bound+2; call++ {
		var rec interface{}
		var err error
		panicked := func() (p interface{}) {
			defer func() { p = recover() }()
			rec, err = read()
			return nil
		}()
		atomic.AddInt64(&c03Calls, 1)
		out.calls++
		if panicked != nil {
			return fail("P", "panic", fmt.Sprintf("%s reader panicked on call %d: %v", kind, call, panicked), fmt.Sprint(panicked))
		}
		switch {
		case err == nil && isNilRec(rec):
			return fail("N", "nil-nil", fmt.Sprintf("%s reader returned neither a record nor an error on call %d", kind, call), "nil record and nil error")
		case err == io.EOF:
			sb.WriteByte('F')
		case err != nil:
			sb.WriteByte('E')
			out.nonEOF++
		default:
			sb.WriteByte('R')
			out.records++
		}
		if err != nil && first == 0 {
			first = call
		}
		if first == 0 && call >= bound {
			return fail("", "no-eof", fmt.Sprintf("%s reader returned %d records without io.EOF or an error for an input of %d lines", kind, call, bound-1), "no EOF within lines+1 calls")
		}
		if first != 0 && call >= first+2 {
			// nothing is demanded of the calls after the first error beyond what is demanded of every call (no panic, a
			// record or an error each time, no hang): a reader is free to repeat its error
			if !p.past || err == io.EOF {
				break
			}
			out.beyond++
		}
	}
	out.seq = sb.String()
	return out, nil
}

// ---- valid file generators (text) ----

func c03ValidFile(rng *rand.Rand, kind string) []byte {
	cw := &countingWriter{}
	switch kind {
	case "fasta", "fastq":
		al := ioAlphas[rng.Intn(len(ioAlphas))]
		n := 1 + rng.Intn(3)
		if kind == "fasta" {
			w := fasta.NewWriter(cw, 1+rng.Intn(70))
			for i := 0; i < n; i++ {
				rec := ioRec{Name: genName(rng), Desc: genDesc(rng), Letters: genLetters(rng, al.a, rng.Intn(90))}
				w.Write(rec.toSeq(al.a, alphabet.Sanger, false))
			}
		} else {
			w := fastq.NewWriter(cw)
			w.QID = rng.Intn(2) == 0
			for i := 0; i < n; i++ {
				l := rng.Intn(60)
				rec := ioRec{Name: genName(rng), Desc: genDesc(rng), Letters: genLetters(rng, al.a, l), Quals: genQuals(rng, alphabet.Sanger, l)}
				w.Write(rec.toSeq(al.a, alphabet.Sanger, true))
			}
		}
	case "gff":
		w := gff.NewWriter(cw, 1+rng.Intn(60), rng.Intn(2) == 0)
		n := 1 + rng.Intn(4)
		for i := 0; i < n; i++ {
			switch rng.Intn(8) {
			case 0:
				w.Write(&gff.Region{Sequence: gff.Sequence{SeqName: genNoSpace(rng)}, RegionStart: rng.Intn(100), RegionEnd: 100 + rng.Intn(100)})
			case 1:
				w.Write(linear.NewSeq(genNoSpace(rng), alphabet.BytesToLetters([]byte(genLetters(rng, alphabet.DNA, 1+rng.Intn(80)))), alphabet.DNA))
			case 2:
				w.WriteComment(genField(rng, true))
			default:
				w.Write(genGFF(rng))
			}
		}
	default:
		n := map[string]int{"bed3": 3, "bed4": 4, "bed5": 5, "bed6": 6, "bed12": 12}[kind]
		w, _ := bed.NewWriter(cw, n)
		k := 1 + rng.Intn(4)
		for i := 0; i < k; i++ {
			w.Write(genBed(rng, n))
		}
	}
	return append([]byte(nil), cw.buf.Bytes()...)
}

var c03NumTokens = []string{"0", "-0", "00", "1e3", "0x10", "9223372036854775808", "-9223372036854775809", "-", "", "+1", "1.5", " 1", "0b1", "1_0", "١", "NaN", "\x00",
	// integers that parse and are large, or sit at the edge of a narrower type: what lies behind the parse sees them
	"9223372036854775807", "-9223372036854775808", "2147483647", "2147483648", "4294967296", "1099511627776", "255", "256", "127", "128", "-129"}

const c03FirstLargeToken = 17

// c03Placed counts what c03Mutate placed (main goroutine only): large integers that parse; boundary tokens and lists
// of them in columns 7..12 of BED12 lines.
var c03Placed [2]int64

// c03NumList is a ','-separated list of 1..3 boundary tokens (the BED colour and block columns hold lists).
func c03NumList(rng *rand.Rand) string {
	t := make([]string, 1+rng.Intn(3))
	for i := range t {
		t[i] = c03NumTokens[rng.Intn(len(c03NumTokens))]
	}
	return strings.Join(t, ",")
}

func c03Mutate(rng *rand.Rand, data []byte) []byte {
	lines := strings.Split(string(data), "\n")
	pickLine := func() int { return rng.Intn(len(lines)) }
	switch rng.Intn(18) {
	case 16, 17: // stray bytes glued to the end (or start) of a field or of a ';'-separated item: bytes that are white space
		// only when read alone (0x85, 0xA0), control characters, NUL
		i := pickLine()
		f := strings.Split(lines[i], "\t")
		k := rng.Intn(len(f))
		if len(f) > 8 && rng.Intn(2) == 0 {
			k = 8 // the GFF attribute column
		}
		items := strings.Split(f[k], ";")
		j := rng.Intn(len(items))
		stray := string([]byte{[]byte{0x85, 0xa0, 0x85, 0xa0, 0x0b, 0x0c, 0x1c, 0x1f, 0x00, 0xc2}[rng.Intn(10)]})
		if rng.Intn(3) == 0 {
			stray = " " + stray
		}
		if rng.Intn(4) == 0 {
			items[j] = stray + items[j]
		} else {
			items[j] += stray
		}
		f[k] = strings.Join(items, ";")
		lines[i] = strings.Join(f, "\t")
	case 14, 15: // a field becomes one arbitrary byte (every value 1..255 except the separators), or a few of them
		i := pickLine()
		f := strings.Split(lines[i], "\t")
		nb := 1
		if rng.Intn(4) == 0 {
			nb = 2 + rng.Intn(3)
		}
		b := make([]byte, nb)
		for k := range b {
			for b[k] == 0 || b[k] == '\t' || b[k] == '\n' {
				b[k] = byte(rng.Intn(256))
				if rng.Intn(3) == 0 {
					b[k] = byte(128 + rng.Intn(128))
				}
			}
		}
		k := rng.Intn(len(f))
		if len(f) > 5 && rng.Intn(2) == 0 {
			k = 5 + rng.Intn(minInt(3, len(f)-5)) // the strand/frame region of BED and GFF lines
		}
		f[k] = string(b)
		lines[i] = strings.Join(f, "\t")
	case 0, 1: // delete a column
		i := pickLine()
		f := strings.Split(lines[i], "\t")
		if len(f) > 1 {
			k := rng.Intn(len(f))
			f = append(f[:k], f[k+1:]...)
			lines[i] = strings.Join(f, "\t")
		}
	case 2: // duplicate a column
		i := pickLine()
		f := strings.Split(lines[i], "\t")
		k := rng.Intn(len(f))
		f = append(f[:k+1], f[k:]...)
		lines[i] = strings.Join(f, "\t")
	case 3: // empty a field
		i := pickLine()
		f := strings.Split(lines[i], "\t")
		f[rng.Intn(len(f))] = ""
		lines[i] = strings.Join(f, "\t")
	case 4: // swap two fields
		i := pickLine()
		f := strings.Split(lines[i], "\t")
		a, b := rng.Intn(len(f)), rng.Intn(len(f))
		f[a], f[b] = f[b], f[a]
		lines[i] = strings.Join(f, "\t")
	case 5, 6: // numeric boundary token in a (probably numeric) field
		i := pickLine()
		sep := "\t"
		if strings.HasPrefix(lines[i], "##") && strings.Contains(lines[i], " ") { // the numbers of a metadata line stand between blanks
			sep = " "
		}
		f := strings.Split(lines[i], sep)
		k := rng.Intn(len(f))
		if len(f) > 4 && rng.Intn(2) == 0 {
			k = 1 + rng.Intn(4)
		}
		t := rng.Intn(len(c03NumTokens))
		f[k] = c03NumTokens[t]
		if t >= c03FirstLargeToken {
			c03Placed[0]++
		}
		if len(f) >= 12 && rng.Intn(2) == 0 { // thick start/end, colour, block count, block sizes, block starts of a BED12 line
			k = 6 + rng.Intn(6)
			f[k] = c03NumTokens[rng.Intn(len(c03NumTokens))]
			if k == 8 || k >= 10 {
				f[k] = c03NumList(rng)
			}
			c03Placed[1]++
		}
		lines[i] = strings.Join(f, sep)
	case 7: // strand/frame style replacement
		i := pickLine()
		f := strings.Split(lines[i], "\t")
		f[rng.Intn(len(f))] = []string{"+", "-", ".", "++", "x", "3", "-1", "", "?"}[rng.Intn(9)]
		lines[i] = strings.Join(f, "\t")
	case 8: // drop a line
		i := pickLine()
		lines = append(lines[:i], lines[i+1:]...)
	case 9: // duplicate a line
		i := pickLine()
		lines = append(lines[:i+1], lines[i:]...)
	case 10: // truncate
		s := strings.Join(lines, "\n")
		if len(s) > 0 {
			return []byte(s[:rng.Intn(len(s))])
		}
	case 11: // byte flips
		b := []byte(strings.Join(lines, "\n"))
		for k := 0; k < 1+rng.Intn(3) && len(b) > 0; k++ {
			const flips = "\n\t #>@+;\x00\xff0-."
			b[rng.Intn(len(b))] = flips[rng.Intn(len(flips))]
		}
		return b
	case 12: // insert a metadata-looking or blank line
		i := pickLine()
		ins := []string{"", "  ", "##", "#", "##gff-version", "##DNA x", "##end-DNA", "##sequence-region", ">", "@", "+", "\t\t\t\t\t\t\t\t", "##Type", "##date 2020", "##sequence-region q 0 0"}[rng.Intn(15)]
		lines = append(lines[:i], append([]string{ins}, lines[i:]...)...)
	default: // delete a random byte range
		b := []byte(strings.Join(lines, "\n"))
		if len(b) > 2 {
			a := rng.Intn(len(b))
			e := a + 1 + rng.Intn(minInt(8, len(b)-a))
			b = append(b[:a], b[e:]...)
		}
		return b
	}
	return []byte(strings.Join(lines, "\n"))
}

func c03RandomBytes(rng *rand.Rand) []byte {
	n := rng.Intn(4096)
	if rng.Intn(3) == 0 {
		n = rng.Intn(64)
	}
	b := make([]byte, n)
	mode := rng.Intn(3)
	for i := range b {
		switch {
		case rng.Intn(12) == 0:
			b[i] = '\n'
		case rng.Intn(10) == 0:
			b[i] = '\t'
		case rng.Intn(10) == 0:
			b[i] = "#>@+ \r;.-0123456789"[rng.Intn(19)]
		case mode == 0:
			b[i] = byte(rng.Intn(256))
		case mode == 1:
			b[i] = byte(32 + rng.Intn(95))
		default:
			b[i] = "acgtnACGTN0123456789"[rng.Intn(20)]
		}
	}
	return b
}

// ---- catalogue of lines that must be reported as errors ----

type c03Cat struct {
	kind string
	name string
	line func(rng *rand.Rand) string
}

// entries made of two bad records in a row: each of the two must be reported (the reader is called again after the
// first error, as a caller skipping bad records does)
var c03TwoErrors = map[string]bool{"fastq mismatching record followed by an empty-sequence record with a quality line": true}

// entries that are an error only as the first line of a file
var c03FirstOnly = map[string]bool{"fasta sequence line before any header": true}

// entries that are an error only as the last thing in the input (with or without a final newline)
var c03LastOnly = map[string]bool{"fastq record cut off before its quality line": true, "fastq length mismatch across a read-buffer boundary, last in the input": true}

func gffLine(rng *rand.Rand, mod func(f []string) []string) string {
	f := []string{"seq" + fmt.Sprint(rng.Intn(9)), "src", "feat", fmt.Sprint(1 + rng.Intn(100)), fmt.Sprint(200 + rng.Intn(100)), ".", "+", "."}
	if rng.Intn(2) == 0 {
		f[5] = fmt.Sprint(rng.Intn(50))
	}
	if rng.Intn(2) == 0 {
		f = append(f, "tag value")
		if rng.Intn(2) == 0 {
			f = append(f, "comment")
		}
	}
	return strings.Join(mod(f), "\t")
}

func bedLine(rng *rand.Rand, n int, mod func(f []string) []string) string {
	f := []string{"chr1", fmt.Sprint(rng.Intn(100)), fmt.Sprint(100 + rng.Intn(100)), "name", fmt.Sprint(rng.Intn(1000)), "+", "5", "9", "0", "2", "1,2", "0,5"}
	return strings.Join(mod(f[:n]), "\t")
}

var c03Catalogue = func() []c03Cat {
	var cat []c03Cat
	bads := []string{"abc", "", "1.5", "1e3", "x1", "9223372036854775808", "--1", "-", "+", "-+1", "1-"}
	for k := 1; k <= 7; k++ {
		k := k
		cat = append(cat, c03Cat{"gff", fmt.Sprintf("gff line with %d columns", k), func(rng *rand.Rand) string {
			return gffLine(rng, func(f []string) []string { return f[:k] })
		}})
	}
	for _, col := range []int{3, 4} {
		col := col
		cat = append(cat, c03Cat{"gff", fmt.Sprintf("gff non-numeric column %d", col+1), func(rng *rand.Rand) string {
			return gffLine(rng, func(f []string) []string { f[col] = bads[rng.Intn(len(bads))]; return f })
		}})
	}
	cat = append(cat, c03Cat{"gff", "gff start of zero", func(rng *rand.Rand) string {
		return gffLine(rng, func(f []string) []string {
			f[3] = []string{"0", "00", "-0", "+0", "0x0", "0b0", "0o0", "0_0", "0X0", "000000"}[rng.Intn(10)]
			return f
		})
	}})
	cat = append(cat, c03Cat{"gff", "gff bad strand", func(rng *rand.Rand) string {
		return gffLine(rng, func(f []string) []string {
			f[6] = []string{"x", "++", "", "+-", "1", "*", "\x80", "\xff", "\xc3\xa9", "\x7f", string([]byte{byte(128 + rng.Intn(128))})}[rng.Intn(11)]
			return f
		})
	}})
	cat = append(cat, c03Cat{"gff", "gff non-numeric score", func(rng *rand.Rand) string {
		return gffLine(rng, func(f []string) []string { f[5] = []string{"abc", "", "..", "1,5"}[rng.Intn(4)]; return f })
	}})
	for _, m := range []string{"##gff-version", "##gff-version x", "##date", "##Type", "##type", "##source-version", "##sequence-region", "##sequence-region a", "##sequence-region a 1",
		"##sequence-region a 0 5", "##sequence-region a 00 5", "##sequence-region a x 5", "##sequence-region a 1 y", "##sequence-region a 1 -", "##sequence-region a - 5", "##sequence-region a 1 +", "##gff-version -", "##gff-version +", "##DNA", "##RNA", "##Protein", "##dna", "##"} {
		m := m
		cat = append(cat, c03Cat{"gff", "gff metadata line " + m, func(*rand.Rand) string { return m }})
	}
	for _, n := range []int{3, 4, 5, 6, 12} {
		n := n
		kind := fmt.Sprint("bed", n)
		cat = append(cat, c03Cat{kind, kind + " with n-1 columns", func(rng *rand.Rand) string {
			return bedLine(rng, n, func(f []string) []string { return f[:n-1] })
		}})
		cat = append(cat, c03Cat{kind, kind + " with 2 columns", func(rng *rand.Rand) string {
			return bedLine(rng, n, func(f []string) []string { return f[:2] })
		}})
		for _, col := range []int{1, 2} {
			col := col
			cat = append(cat, c03Cat{kind, fmt.Sprintf("%s non-numeric column %d", kind, col+1), func(rng *rand.Rand) string {
				return bedLine(rng, n, func(f []string) []string { f[col] = bads[rng.Intn(len(bads))]; return f })
			}})
		}
		if n >= 5 {
			cat = append(cat, c03Cat{kind, kind + " non-numeric score", func(rng *rand.Rand) string {
				return bedLine(rng, n, func(f []string) []string { f[4] = bads[rng.Intn(len(bads))]; return f })
			}})
		}
		if n >= 6 {
			cat = append(cat, c03Cat{kind, kind + " bad strand", func(rng *rand.Rand) string {
				return bedLine(rng, n, func(f []string) []string {
					f[5] = []string{"x", "++", "", "0", "\x80", "\xff", "\xc3\xa9", "\x7f", string([]byte{byte(128 + rng.Intn(128))})}[rng.Intn(9)]
					return f
				})
			}})
		}
		if n == 12 {
			cat = append(cat, c03Cat{kind, "bed12 block count mismatch", func(rng *rand.Rand) string {
				return bedLine(rng, n, func(f []string) []string {
					switch rng.Intn(3) {
					case 0:
						f[9] = "3"
					case 1:
						f[10] = "1"
					default:
						f[11] = "0,5,9"
					}
					return f
				})
			}})
			cat = append(cat, c03Cat{kind, "bed12 non-numeric thick/blocks", func(rng *rand.Rand) string {
				return bedLine(rng, n, func(f []string) []string {
					f[[]int{6, 7, 9}[rng.Intn(3)]] = bads[rng.Intn(len(bads))]
					return f
				})
			}})
		}
	}
	cat = append(cat, c03Cat{"fastq", "fastq sequence/quality length mismatch", func(rng *rand.Rand) string {
		l := 2 + rng.Intn(20)
		q := l + 1 + rng.Intn(3)
		if rng.Intn(2) == 0 {
			q = l - 1 - rng.Intn(minInt(2, l-1))
		}
		return "@r1 d\n" + strings.Repeat("a", l) + "\n+\n" + strings.Repeat("I", q)
	}})
	cat = append(cat, c03Cat{"fastq", "fastq mismatching record followed by an empty-sequence record with a quality line", func(rng *rand.Rand) string {
		l := 2 + rng.Intn(20)
		q := l + 1 + rng.Intn(3)
		if rng.Intn(2) == 0 {
			q = l - 1 - rng.Intn(minInt(2, l-1))
		}
		// the second record has no letters but l quality bytes (as many as the rejected record had letters)
		return "@r1 d\n" + strings.Repeat("a", l) + "\n+\n" + strings.Repeat("I", q) + "\n@r2\n+\n" + strings.Repeat("I", l)
	}})
	cat = append(cat, c03Cat{"fastq", "fastq quality line longer than the sequence by stray high bytes", func(rng *rand.Rand) string {
		// surplus bytes that are not white space: lone 0x85 / 0xA0 (white space only as the second byte of C2 85 / C2 A0),
		// other bytes >= 0x80, DEL, NUL
		l := 2 + rng.Intn(20)
		extra := make([]byte, 1+rng.Intn(3))
		for i := range extra {
			extra[i] = []byte{0x85, 0xa0, 0x80, 0xff, 0x7f, 0x00, 0xc2, byte(0x80 + rng.Intn(128))}[rng.Intn(8)]
		}
		if extra[len(extra)-1] == 0xc2 {
			extra[len(extra)-1] = 0xa0
		}
		for i := 0; i+1 < len(extra); i++ {
			if extra[i] == 0xc2 && (extra[i+1] == 0x85 || extra[i+1] == 0xa0) {
				extra[i] = 0xa0 // C2 85 and C2 A0 are white space and would be stripped
			}
		}
		// ... and no three of them may spell a white-space rune either (E2 80 85 is U+2005): whatever the reader's
		// trimming would strip from either end of the surplus is replaced
		for len(bytes.TrimSpace(extra)) != len(extra) || len(bytes.TrimSpace(append([]byte("I"), extra...))) != len(extra)+1 || len(bytes.TrimSpace(append(append([]byte(nil), extra...), 'I'))) != len(extra)+1 {
			extra[rng.Intn(len(extra))] = 0xff
		}
		q := strings.Repeat("I", l)
		switch rng.Intn(3) {
		case 0:
			q += string(extra)
		case 1:
			q = string(extra) + q
		default:
			p := rng.Intn(l + 1)
			q = q[:p] + string(extra) + q[p:]
		}
		return "@r1 d\n" + strings.Repeat("a", l) + "\n+\n" + q
	}})
	cat = append(cat, c03Cat{"fastq", "fastq record cut off before its quality line", func(rng *rand.Rand) string {
		// the input ends after the + line (or inside it): letters without qualities are a length mismatch
		l := 1 + rng.Intn(20)
		return "@r1 d\n" + strings.Repeat("a", l) + []string{"\n+", "\n+r1 d", "\n+\n", "\n+r1 d\n"}[rng.Intn(4)]
	}})
	cat = append(cat, c03Cat{"bed12", "bed12 non-numeric block sizes or starts", func(rng *rand.Rand) string {
		return bedLine(rng, 12, func(f []string) []string {
			f[10+rng.Intn(2)] = []string{"1,x", "x,2", "1,,2", "1.5,2", ",", "1,2x", "1e1,2", "9223372036854775808,1"}[rng.Intn(8)]
			return f
		})
	}})
	cat = append(cat, c03Cat{"fastq", "fastq + line not repeating the header", func(rng *rand.Rand) string {
		return "@r1 d\nacgt\n+r2\nIIII"
	}})
	cat = append(cat, c03Cat{"fastq", "fastq + line naming another read of the same length", func(rng *rand.Rand) string {
		// same length as the @ line, sequence shorter or longer than it: whatever buffers the reader reuses, the two
		// identifiers differ
		n := 1 + rng.Intn(30)
		id := make([]byte, n)
		for i := range id {
			id[i] = byte('a' + rng.Intn(26))
		}
		other := append([]byte(nil), id...)
		p := rng.Intn(n)
		other[p] = byte('a' + (int(other[p]-'a')+1+rng.Intn(25))%26)
		l := 1 + rng.Intn(2*n+8)
		return "@" + string(id) + "\n" + strings.Repeat("a", l) + "\n+" + string(other) + "\n" + strings.Repeat("I", l)
	}})
	cat = append(cat, c03Cat{"fasta", "fasta sequence line before any header", func(rng *rand.Rand) string {
		return "acgtacgt"
	}})
	// lines that come to the reader in pieces (longer than its 4096-byte buffer)
	cat = append(cat, c03Cat{"fastq", "fastq length mismatch across a read-buffer boundary", c03LongMismatch})
	cat = append(cat, c03Cat{"fastq", "fastq length mismatch across a read-buffer boundary, last in the input", c03LongMismatch})
	return cat
}()

func c03Case(r *obs.Run, i int) {
	rng := r.Rng
	mode := i % 8
	note := func(kind string, data []byte, o c03Outcome) {
		r.Note(fmt.Sprintf("%s/%s/%x", kind, o.seq, hashBytes(data)), o.records > 0 || o.nonEOF > 0)
	}
	placed := c03Placed
	defer func() {
		r.Count("large_parsable_integers_placed", c03Placed[0]-placed[0])
		r.Count("bed12_thick_colour_block_columns_replaced", c03Placed[1]-placed[1])
	}()
	switch {
	case i == 5 && (r.Batch < 2 || r.Thorough()): // a very tall input: one short line repeated a million and a half times
		lines := []string{"##Type DNA", "", "# c", "##gff-version 2", "##source-version x", "##date 2020-1-01", ">", "@", "+", "x", "##type RNA r"}
		line := lines[0]
		if r.Batch > 0 {
			line = lines[1+rng.Intn(len(lines)-1)]
		}
		n := 1500000
		data := bytes.Repeat([]byte(line+"\n"), n)
		c03Current.Store(fmt.Sprintf("%d lines %q", n, line))
		r.Crumb(fmt.Sprintf("tall input: %d lines %q to every reader (a fatal stack overflow cannot be recovered: it shows as this child's crash)", n, line))
		r.Count("tall_inputs", 1)
		for _, k := range c03Kinds {
			o := c03Drive(r, k, data, fmt.Sprintf("%d lines %q", n, line))
			r.Note(fmt.Sprintf("tall/%s/%s/%s", k, line, o.seq), true)
		}
	case i%1000 == 77: // independent readers used from several goroutines at once
		c03ParallelReaders(r)
	case mode == 0: // random bytes to every reader
		data := c03RandomBytes(rng)
		if i%80 == 0 { // few, very long lines
			data = c03LongRandomBytes(rng)
			if rng.Intn(3) == 0 {
				data = c03FramedLong(rng)
			}
			r.Count("long_line_random_inputs", 1)
		}
		c03Current.Store(fmt.Sprintf("random bytes %q", truncBytes(data, 200)))
		r.Crumb(fmt.Sprintf("random bytes %x", truncBytes(data, 2000)))
		r.Count("random_byte_inputs", 1)
		for _, k := range c03Kinds {
			note(k, data, c03Drive(r, k, data, "random bytes"))
		}
	case mode == 1: // catalogue
		c := c03Catalogue[rng.Intn(len(c03Catalogue))]
		var parts []string
		pre, post := rng.Intn(3), rng.Intn(3)
		if c03FirstOnly[c.name] {
			pre = 0
		}
		valid := func() string {
			// only the final terminator goes (the parts are joined by one): a FASTQ file ending in a record without letters ends
			// in an empty quality line, which belongs to that record
			s := strings.TrimSuffix(string(c03ValidFile(rng, c.kind)), "\n")
			return s
		}
		for k := 0; k < pre; k++ {
			parts = append(parts, valid())
		}
		bad := c.line(rng)
		parts = append(parts, bad)
		for k := 0; k < post; k++ {
			parts = append(parts, valid())
		}
		data := []byte(strings.Join(parts, "\n") + "\n")
		if c03LastOnly[c.name] {
			parts = parts[:pre+1]
			data = []byte(strings.Join(parts, "\n"))
			if rng.Intn(2) == 0 {
				data = append(data, '\n')
			}
		}
		c03Current.Store(fmt.Sprintf("catalogue %s: %q", c.name, truncBytes(data, 300)))
		r.Crumb(fmt.Sprintf("catalogue %s: %q", c.name, truncBytes(data, 2000)))
		o := c03Drive(r, c.kind, data, "catalogue: "+c.name)
		r.Count("catalogue_lines_checked", 1)
		if len(bad) > 4096 {
			r.Count("catalogue_lines_longer_than_the_read_buffer", 1)
		}
		if !o.violated && c03TwoErrors[c.name] && o.nonEOF == 1 {
			r.Violate("invalid-line-accepted", fmt.Sprintf("%s reader reported only the first of two bad records: %s (%q), calls %s", c.kind, c.name, c03Short(bad), o.seq),
				map[string]interface{}{"reader": c.kind, "catalogue_entry": c.name, "bad_line": bad, "input": string(data), "calls": o.seq})
		}
		if !o.violated && o.nonEOF == 0 {
			r.Violate("invalid-line-accepted", fmt.Sprintf("%s reader reported no error for: %s (%q)", c.kind, c.name, c03Short(bad)),
				map[string]interface{}{"reader": c.kind, "catalogue_entry": c.name, "bad_line": bad, "input": string(data), "calls": o.seq})
		}
		note(c.kind, data, o)
		if r.WantSample() && i < 200 {
			r.Sample(map[string]interface{}{"mode": "catalogue", "entry": c.name, "bad_line": bad, "reader": c.kind, "calls": o.seq})
		}
	case mode == 2 && i%64 == 2: // exhaustive truncation of a small valid file
		k := c03Kinds[rng.Intn(len(c03Kinds))]
		data := c03ValidFile(rng, k)
		if len(data) > 700 {
			data = data[:700]
		}
		for cut := 0; cut <= len(data); cut++ {
			d := data[:cut]
			c03Current.Store(fmt.Sprintf("truncation of %s file at %d: %q", k, cut, truncBytes(d, 300)))
			if cut%16 == 0 {
				r.Crumb(fmt.Sprintf("truncation of %s file at >=%d: %q", k, cut, truncBytes(data, 2000)))
			}
			o := c03Drive(r, k, d, fmt.Sprintf("valid %s file truncated at byte %d of %d", k, cut, len(data)))
			r.Count("truncation_points", 1)
			note(k, d, o)
			if o.violated {
				break
			}
		}
	default: // mutated valid file, own reader plus a foreign one
		k := c03Kinds[rng.Intn(len(c03Kinds))]
		data := c03ValidFile(rng, k)
		if rng.Intn(8) == 0 { // splice two files
			other := c03ValidFile(rng, c03Kinds[rng.Intn(len(c03Kinds))])
			cut := rng.Intn(len(data) + 1)
			data = append(append([]byte(nil), data[:cut]...), other[rng.Intn(len(other)+1):]...)
		}
		nm := 1 + rng.Intn(3)
		for m := 0; m < nm; m++ {
			data = c03Mutate(rng, data)
		}
		if rng.Intn(4) == 0 {
			data = bytes.ReplaceAll(data, []byte("\n"), []byte("\r\n"))
		}
		c03Current.Store(fmt.Sprintf("mutated %s file: %q", k, truncBytes(data, 300)))
		r.Crumb(fmt.Sprintf("mutated %s file: %q", k, truncBytes(data, 3000)))
		r.Count("mutated_inputs", 1)
		o := c03Drive(r, k, data, "mutated valid "+k+" file")
		note(k, data, o)
		k2 := c03Kinds[rng.Intn(len(c03Kinds))]
		note(k2, data, c03Drive(r, k2, data, "mutated valid "+k+" file fed to the "+k2+" reader"))
		if r.WantSample() && i < 100 && len(data) < 200 {
			r.Sample(map[string]interface{}{"mode": "mutated " + k, "input": string(data), "calls": o.seq})
		}
	}
}

func truncBytes(b []byte, n int) []byte {
	if len(b) > n {
		return b[:n]
	}
	return b
}

func hashBytes(b []byte) uint64 {
	var h uint64 = 14695981039346656037
	for _, c := range b {
		h ^= uint64(c)
		h *= 1099511628211
	}
	return h
}
