package main

// Clean-room reference dynamic programs for the alignment monitors (C08, C09).
// Sequences are given as letter indexes into the scoring matrix (index 0 = gap).
//
// Scoring: a column (r,q) scores M[r][q]; a reference letter r against a gap scores M[r][0];
// a query letter q against a gap scores M[0][q]. Under the affine model every maximal run of
// gap columns in the same sequence additionally costs the gap-open penalty once.

const refNeg = -(1 << 50)

func refMax(a ...int) int {
	m := a[0]
	for _, v := range a[1:] {
		if v > m {
			m = v
		}
	}
	return m
}

func refAdd(a, b int) int {
	if a <= refNeg/2 {
		return refNeg
	}
	return a + b
}

// refLinear returns the global optimum, the local optimum and, for every reference end position e,
// the best score of an alignment that consumes the whole query, starts anywhere and ends at e.
func refLinear(r, q []int, M [][]int) (global, local int, fitted []int) {
	n, m := len(r), len(q)
	// global
	T := make([][]int, n+1)
	for i := range T {
		T[i] = make([]int, m+1)
	}
	for j := 1; j <= m; j++ {
		T[0][j] = T[0][j-1] + M[0][q[j-1]]
	}
	for i := 1; i <= n; i++ {
		T[i][0] = T[i-1][0] + M[r[i-1]][0]
		for j := 1; j <= m; j++ {
			T[i][j] = refMax(T[i-1][j-1]+M[r[i-1]][q[j-1]], T[i-1][j]+M[r[i-1]][0], T[i][j-1]+M[0][q[j-1]])
		}
	}
	global = T[n][m]
	// local
	L := make([][]int, n+1)
	for i := range L {
		L[i] = make([]int, m+1)
	}
	for i := 1; i <= n; i++ {
		for j := 1; j <= m; j++ {
			v := refMax(0, L[i-1][j-1]+M[r[i-1]][q[j-1]], L[i-1][j]+M[r[i-1]][0], L[i][j-1]+M[0][q[j-1]])
			L[i][j] = v
			if v > local {
				local = v
			}
		}
	}
	// fitted: free reference prefix
	F := make([][]int, n+1)
	for i := range F {
		F[i] = make([]int, m+1)
	}
	for j := 1; j <= m; j++ {
		F[0][j] = F[0][j-1] + M[0][q[j-1]]
	}
	fitted = make([]int, n+1)
	fitted[0] = F[0][m]
	for i := 1; i <= n; i++ {
		F[i][0] = 0
		for j := 1; j <= m; j++ {
			F[i][j] = refMax(F[i-1][j-1]+M[r[i-1]][q[j-1]], F[i-1][j]+M[r[i-1]][0], F[i][j-1]+M[0][q[j-1]])
		}
		fitted[i] = F[i][m]
	}
	return
}

type refAffineOut struct {
	global, local int
	fitted        []int
}

// refAffine computes the affine optima. adj allows a gap run in one sequence to be followed
// directly by a gap run in the other (each pays its own open).
func refAffine(r, q []int, M [][]int, open int, adj bool) refAffineOut {
	n, m := len(r), len(q)
	mk := func() [][]int {
		t := make([][]int, n+1)
		for i := range t {
			t[i] = make([]int, m+1)
			for j := range t[i] {
				t[i][j] = refNeg
			}
		}
		return t
	}
	var out refAffineOut
	// ---- global ----
	{
		D, X, Y := mk(), mk(), mk()
		D[0][0] = 0
		for j := 1; j <= m; j++ {
			if j == 1 {
				Y[0][j] = open + M[0][q[0]]
			} else {
				Y[0][j] = Y[0][j-1] + M[0][q[j-1]]
			}
		}
		for i := 1; i <= n; i++ {
			if i == 1 {
				X[i][0] = open + M[r[0]][0]
			} else {
				X[i][0] = X[i-1][0] + M[r[i-1]][0]
			}
			for j := 1; j <= m; j++ {
				g, h, s := M[r[i-1]][0], M[0][q[j-1]], M[r[i-1]][q[j-1]]
				D[i][j] = refAdd(refMax(D[i-1][j-1], X[i-1][j-1], Y[i-1][j-1]), s)
				X[i][j] = refMax(refAdd(D[i-1][j], open+g), refAdd(X[i-1][j], g))
				Y[i][j] = refMax(refAdd(D[i][j-1], open+h), refAdd(Y[i][j-1], h))
				if adj {
					X[i][j] = refMax(X[i][j], refAdd(Y[i-1][j], open+g))
					Y[i][j] = refMax(Y[i][j], refAdd(X[i][j-1], open+h))
				}
			}
		}
		if adj {
			// boundary cells can also be reached by an opposite gap run: X[i][0] after Y is impossible (j=0), fine.
		}
		out.global = refMax(D[n][m], X[n][m], Y[n][m])
	}
	// ---- local ----
	{
		D, X, Y := mk(), mk(), mk()
		for i := 1; i <= n; i++ {
			for j := 1; j <= m; j++ {
				g, h, s := M[r[i-1]][0], M[0][q[j-1]], M[r[i-1]][q[j-1]]
				D[i][j] = refMax(0, D[i-1][j-1], X[i-1][j-1], Y[i-1][j-1]) + s
				X[i][j] = refMax(refAdd(D[i-1][j], open+g), refAdd(X[i-1][j], g))
				Y[i][j] = refMax(refAdd(D[i][j-1], open+h), refAdd(Y[i][j-1], h))
				if adj {
					X[i][j] = refMax(X[i][j], refAdd(Y[i-1][j], open+g))
					Y[i][j] = refMax(Y[i][j], refAdd(X[i][j-1], open+h))
				}
				if D[i][j] > out.local {
					out.local = D[i][j]
				}
			}
		}
	}
	// ---- fitted (whole query, free reference prefix), by end position ----
	{
		D, X, Y := mk(), mk(), mk()
		for i := 0; i <= n; i++ {
			D[i][0] = 0 // start state
		}
		out.fitted = make([]int, n+1)
		for i := 0; i <= n; i++ {
			for j := 1; j <= m; j++ {
				h := M[0][q[j-1]]
				Y[i][j] = refMax(refAdd(D[i][j-1], open+h), refAdd(Y[i][j-1], h))
				if adj {
					Y[i][j] = refMax(Y[i][j], refAdd(X[i][j-1], open+h))
				}
				if i > 0 {
					g, s := M[r[i-1]][0], M[r[i-1]][q[j-1]]
					D[i][j] = refAdd(refMax(D[i-1][j-1], X[i-1][j-1], Y[i-1][j-1]), s)
					X[i][j] = refMax(refAdd(D[i-1][j], open+g), refAdd(X[i-1][j], g))
					if adj {
						X[i][j] = refMax(X[i][j], refAdd(Y[i-1][j], open+g))
					}
					// order matters when adj: Y[i][j] may come from X[i][j-1] (already final), X[i][j] from Y[i-1][j] (final)
				}
			}
			out.fitted[i] = refMax(D[i][m], X[i][m], Y[i][m])
			if m == 0 {
				out.fitted[i] = 0
			}
		}
	}
	return out
}

// ---- alignment path handling ----

type alnPair struct {
	AS, AE, BS, BE int
	Score          int
}

type alnFacts struct {
	wellFormed   bool
	why          string
	cols         []byte // 'D' match column, 'X' reference letter against gap, 'Y' query letter against gap
	recomputed   int    // total score recomputed from the columns
	reported     int    // sum of the reported pair scores
	pairMismatch int    // index of the first pair whose reported score differs from its recomputed score, or -1
	pairWant     int
	oppositeAbut bool // a gap in one sequence directly followed by a gap in the other
	aStart, aEnd int
	bStart, bEnd int
}

// analyse checks the shape of the pair list and recomputes scores. n, m are the sequence lengths.
func analyse(pairs []alnPair, r, q []int, M [][]int, open int, affine bool) alnFacts {
	n, m := len(r), len(q)
	f := alnFacts{wellFormed: true, pairMismatch: -1}
	if len(pairs) == 0 {
		f.wellFormed, f.why = false, "no pairs returned"
		return f
	}
	f.aStart, f.bStart = pairs[0].AS, pairs[0].BS
	f.aEnd, f.bEnd = pairs[len(pairs)-1].AE, pairs[len(pairs)-1].BE
	last := byte(0)
	for k, p := range pairs {
		f.reported += p.Score
		la, lb := p.AE-p.AS, p.BE-p.BS
		switch {
		case p.AS < 0 || p.BS < 0 || p.AE > n || p.BE > m || la < 0 || lb < 0:
			f.wellFormed, f.why = false, pairWhy(k, p, "lies outside the sequences or has negative length")
			return f
		case k > 0 && (p.AS != pairs[k-1].AE || p.BS != pairs[k-1].BE):
			f.wellFormed, f.why = false, pairWhy(k, p, "does not abut the previous pair")
			return f
		case la > 0 && lb > 0 && la != lb:
			f.wellFormed, f.why = false, pairWhy(k, p, "is neither an equal-length block nor a one-sided gap")
			return f
		}
		want := 0
		switch {
		case la == 0 && lb == 0:
			// empty pair
		case la == lb:
			for t := 0; t < la; t++ {
				want += M[r[p.AS+t]][q[p.BS+t]]
				f.cols = append(f.cols, 'D')
			}
			last = 'D'
		case lb == 0:
			if affine {
				want += open
			}
			for t := 0; t < la; t++ {
				want += M[r[p.AS+t]][0]
				f.cols = append(f.cols, 'X')
			}
			if last == 'Y' {
				f.oppositeAbut = true
			}
			last = 'X'
		default:
			if affine {
				want += open
			}
			for t := 0; t < lb; t++ {
				want += M[0][q[p.BS+t]]
				f.cols = append(f.cols, 'Y')
			}
			if last == 'X' {
				f.oppositeAbut = true
			}
			last = 'Y'
		}
		if want != p.Score && f.pairMismatch < 0 {
			f.pairMismatch, f.pairWant = k, want
		}
	}
	// total recomputed from the column sequence (runs, not pairs, pay the open)
	ai, bi := f.aStart, f.bStart
	prev := byte(0)
	for _, c := range f.cols {
		switch c {
		case 'D':
			f.recomputed += M[r[ai]][q[bi]]
			ai++
			bi++
		case 'X':
			if affine && prev != 'X' {
				f.recomputed += open
			}
			f.recomputed += M[r[ai]][0]
			ai++
		case 'Y':
			if affine && prev != 'Y' {
				f.recomputed += open
			}
			f.recomputed += M[0][q[bi]]
			bi++
		}
		prev = c
	}
	return f
}

func pairWhy(k int, p alnPair, what string) string {
	return "pair " + itoa(k) + " [" + itoa(p.AS) + "," + itoa(p.AE) + ")/[" + itoa(p.BS) + "," + itoa(p.BE) + ") " + what
}

func itoa(v int) string {
	if v == 0 {
		return "0"
	}
	neg := v < 0
	if neg {
		v = -v
	}
	var b []byte
	for v > 0 {
		b = append([]byte{byte('0' + v%10)}, b...)
		v /= 10
	}
	if neg {
		b = append([]byte{'-'}, b...)
	}
	return string(b)
}
