package main

import (
	"fmt"
	"math/rand"
	"reflect"
	"sort"
	"strings"
	"sync"

	"github.com/biogo/biogo/alphabet"
	"github.com/biogo/biogo/index/kmerindex"
	"github.com/biogo/biogo/seq/linear"

	"verif/harness/internal/obs"
)

// C10 — further dimensions: two indexes alive at once, walks that are re-entered or interrupted, second sequences of
// exactly k letters and much longer than the indexed one, helpers at every supported k.

// c10ctx is what one case knows about its index: the letters, the reference windows and the way to report.
type c10ctx struct {
	r      *obs.Run
	a      c10alpha
	k      int
	s      []byte
	sq     *linear.Seq
	ki     *kmerindex.Index
	valid  []bool
	word   []int
	refPos map[int][]int
	nvalid int
	fail   func(class, what string, got, want interface{})
}

// c10Fresh draws n letters (either case where the alphabet folds case) with short runs of non-alphabet bytes.
func c10Fresh(rng *rand.Rand, a c10alpha, n int, junkOneIn int) []byte {
	letters := a.letters
	if !a.cased {
		letters += strings.ToUpper(a.letters)
	}
	const junk = "nNxX-*0 .RYK\x00\xff\x80"
	o := make([]byte, n)
	for p := 0; p < n; {
		if junkOneIn > 0 && rng.Intn(junkOneIn) == 0 {
			for run := 1 + rng.Intn(4); run > 0 && p < n; run, p = run-1, p+1 {
				o[p] = junk[rng.Intn(len(junk))]
			}
			continue
		}
		o[p] = letters[rng.Intn(len(letters))]
		p++
	}
	return o
}

// c10Near copies up to max letters of s from a random place and changes a few of them: a sequence that shares many
// words with s without being s.
func c10Near(rng *rand.Rand, a c10alpha, s []byte, k, max int) []byte {
	m := len(s)
	if m > max {
		m = k + 1 + rng.Intn(max-k)
	}
	from := rng.Intn(len(s) - m + 1)
	o := append([]byte(nil), s[from:from+m]...)
	for j := 0; j < 1+m/40; j++ {
		o[rng.Intn(m)] = a.letters[rng.Intn(4)]
	}
	return o
}

func c10RefPos(valid []bool, word []int) (map[int][]int, int) {
	ref, n := map[int][]int{}, 0
	for p, ok := range valid {
		if ok {
			ref[word[p]] = append(ref[word[p]], p)
			n++
		}
	}
	return ref, n
}

func c10SameInts(got, want []int) bool {
	g := append([]int(nil), got...)
	sort.Ints(g)
	return len(g) == len(want) && (len(want) == 0 || reflect.DeepEqual(g, want))
}

// walk runs ForEachKmerOf of ki over [start,end) of osq and judges the visits against the reference windows; inner, if
// given, is called from inside the callback after the visit was recorded.
func (c *c10ctx) walk(ki *kmerindex.Index, what string, osq *linear.Seq, valid []bool, word []int, start, end int, inner func(ix *kmerindex.Index, p, km int)) {
	k := c.k
	var pos, kms []int
	err := ki.ForEachKmerOf(osq, start, end, func(ix *kmerindex.Index, p, km int) {
		pos = append(pos, p)
		kms = append(kms, km)
		if inner != nil {
			inner(ix, p, km)
		}
	})
	c.r.Count("subranges_iterated", 1)
	c.r.Count("windows_visited", int64(len(pos)))
	if end-start < k {
		if len(pos) != 0 {
			c.fail("iterate", fmt.Sprintf("ForEachKmerOf%s[%d,%d) shorter than k visited windows", what, start, end), pos, nil)
		}
		return
	}
	if err != nil {
		c.fail("iterate", fmt.Sprintf("ForEachKmerOf%s[%d,%d) error %v", what, start, end, err), nil, nil)
		return
	}
	var wp, wk []int
	for p := start; p+k <= end; p++ {
		if valid[p] {
			wp = append(wp, p)
			wk = append(wk, word[p])
		}
	}
	if !reflect.DeepEqual(pos, wp) || !reflect.DeepEqual(kms, wk) {
		c.fail("iterate", fmt.Sprintf("ForEachKmerOf%s[%d,%d) visits", what, start, end), map[string]interface{}{"pos": pos, "kmer": kms}, map[string]interface{}{"pos": wp, "kmer": wk})
	}
}

// declared is the alphabet a walked sequence (not the indexed one) says it is over: the index's own, or - every second
// time - none or another one (a read kept as redundant DNA, an RNA query, ...). Which windows are valid and what their
// words are is the index's business: it was built over its own alphabet.
func (c *c10ctx) declared() alphabet.Alphabet {
	if c.r.Rng.Intn(2) == 0 {
		return c.a.a
	}
	c.r.Count("other_sequences_declaring_no_or_another_alphabet", 1)
	return []alphabet.Alphabet{nil, alphabet.DNAredundant, alphabet.RNA, alphabet.RNAredundant, alphabet.Protein, alphabet.DNA}[c.r.Rng.Intn(6)]
}

// otherLengths: the index walks fresh sequences of exactly k letters (one window), k+1, several times the indexed
// length (whole and a tail ending at the last letter), and shorter than k (error or nothing); state says whether
// the index has been built yet - a walk does not depend on that.
func (c *c10ctx) otherLengths(state string) {
	rng, k, n := c.r.Rng, c.k, len(c.s)
	long := 10 * n
	if long > 20000 {
		long = 2*n + rng.Intn(n)
	}
	lens := []int{k, k, k + 1, k - 1, 1, 0}
	if rng.Intn(2) == 0 {
		lens = append(lens, long)
	}
	for _, m := range lens {
		junk := 40
		if m <= k+1 && rng.Intn(4) != 0 {
			junk = 0 // mostly a clean word, so that the one window is there
		}
		o := c10Fresh(rng, c.a, m, junk)
		osq := linear.NewSeq("other", alphabet.BytesToLetters(append([]byte(nil), o...)), c.declared())
		ov, ow := c10Ref(c.a, o, k)
		what := fmt.Sprintf(" (%s) over another sequence of %d letters %.40q", state, m, o)
		c.walk(c.ki, what, osq, ov, ow, 0, m, nil)
		switch {
		case m == k:
			c.r.Count("other_sequences_of_exactly_k_letters", 1)
		case m < k:
			c.r.Count("other_sequences_shorter_than_k", 1)
		case m > 2*n:
			c.r.Count("other_sequences_longer_than_twice_the_indexed_one", 1)
			st := m - k - rng.Intn(40)
			c.walk(c.ki, what, osq, ov, ow, st, m, nil) // a tail ending at the last letter, far beyond the indexed length
			st = n + rng.Intn(m-n-k)
			c.walk(c.ki, what, osq, ov, ow, st, st+k+rng.Intn(m-st-k+1), nil)
		}
	}
}

// reentrant: the PALS filter's pattern. While the built index walks another sequence, the callback reads the bucket
// of the word it was handed through the index it was handed (FingerAt/PosAt, KmerPositions), asks the index by text,
// and now and then starts a second walk over a piece of the indexed sequence; all answers are the usual ones and the
// outer walk still visits exactly its windows.
func (c *c10ctx) reentrant() {
	rng, k := c.r.Rng, c.k
	o := c10Near(rng, c.a, c.s, k, 400)
	osq := linear.NewSeq("query", alphabet.BytesToLetters(append([]byte(nil), o...)), c.declared())
	ov, ow := c10Ref(c.a, o, k)
	what := fmt.Sprintf(" (callback queries the index) over another sequence %.40q", o)
	calls, nested, quiet := 0, 0, false
	bad := func(class, w string, got, want interface{}) {
		if !quiet {
			c.fail(class, w, got, want)
		}
		quiet = true
	}
	every := 5 + rng.Intn(20)
	c.walk(c.ki, what, osq, ov, ow, 0, len(o), func(ix *kmerindex.Index, p, km int) {
		calls++
		want := c.refPos[km]
		if ix == nil {
			bad("iterate", "callback of ForEachKmerOf was handed a nil index", nil, nil)
			return
		}
		lo := 0
		if km > 0 {
			lo = ix.FingerAt(km - 1)
		}
		hi := ix.FingerAt(km)
		if hi-lo != len(want) {
			bad("positions", fmt.Sprintf("inside a walk's callback (window %d): bucket FingerAt(%d-1)..FingerAt(%d) of %s", p, km, km, c10Text(c.a, km, k)), []int{lo, hi}, want)
		} else {
			g := make([]int, 0, hi-lo)
			for j := lo; j < hi; j++ {
				g = append(g, ix.PosAt(j))
			}
			if !c10SameInts(g, want) {
				bad("positions", fmt.Sprintf("inside a walk's callback (window %d): PosAt over the bucket of %s", p, c10Text(c.a, km, k)), g, want)
			}
		}
		if got, err := ix.KmerPositions(kmerindex.Kmer(km)); err != nil || !c10SameInts(got, want) {
			bad("positions", fmt.Sprintf("inside a walk's callback (window %d): KmerPositions(%s) err=%v", p, c10Text(c.a, km, k), err), got, want)
		}
		if calls%5 == 0 {
			text := c10Text(c.a, km, k)
			if !c.a.cased && calls%2 == 0 {
				text = strings.ToUpper(text)
			}
			if got, err := c.ki.KmerPositionsString(text); err != nil || !c10SameInts(got, want) {
				bad("positions", fmt.Sprintf("inside a walk's callback (window %d): KmerPositionsString(%s) err=%v", p, text, err), got, want)
			}
		}
		c.r.Count("words_queried", 2)
		if calls%every == 3 { // a second walk, started before the first one is over
			n := len(c.s)
			st := rng.Intn(n - k + 1)
			en := st + k + rng.Intn(minInt(n-st-k+1, 150))
			c.walk(c.ki, fmt.Sprintf(" (started inside the callback of another walk, at its window %d)", p), c.sq, c.valid, c.word, st, en, nil)
			nested++
		}
	})
	c.r.Count("walks_whose_callback_queries_the_index", 1)
	c.r.Count("callbacks_that_queried_the_index", int64(calls))
	c.r.Count("walks_started_inside_a_callback", int64(nested))

	// a callback that gives up (panics) at its j-th window: the windows up to there were the right ones, and the walks
	// that follow are judged as always
	var exp []int
	for p := range ov {
		if ov[p] {
			exp = append(exp, p)
		}
	}
	if len(exp) == 0 {
		return
	}
	j := 1 + rng.Intn(len(exp))
	var seen []int
	gaveUp, escaped := false, false
	var err error
	func() {
		defer func() {
			if recover() != nil {
				escaped = true
			}
		}()
		err = c.ki.ForEachKmerOf(osq, 0, len(o), func(_ *kmerindex.Index, p, km int) {
			if gaveUp {
				return
			}
			seen = append(seen, p)
			if len(seen) == j {
				gaveUp = true
				if j%2 == 0 {
					panic(fmt.Errorf("c10: the caller's callback gives up at window %d", p))
				}
				panic("c10: the caller's callback gives up")
			}
		})
	}()
	if !reflect.DeepEqual(seen, exp[:j]) {
		c.fail("iterate", fmt.Sprintf("ForEachKmerOf%s[0,%d) with a callback that panics at its visit number %d: windows seen until then", what, len(o), j), seen, exp[:j])
	}
	c.r.Count("walks_interrupted_by_a_panicking_callback", 1)
	if err != nil && !escaped {
		c.r.Count("callback_panics_returned_as_error", 1)
	}
	after := " (right after a walk whose callback panicked)"
	c.walk(c.ki, after, c.sq, c.valid, c.word, 0, len(c.s), nil)
	c.walk(c.ki, after+what, osq, ov, ow, 0, len(o), nil)
}

// c10two is a second index of the same k over other letters, made while the case's own index is still unbuilt.
type c10two struct {
	b      []byte
	sq     *linear.Seq
	ki     *kmerindex.Index
	refPos map[int][]int
	nvalid int
}

// secondIndex makes index B right after the case's index A: everything the case asks A afterwards (frequencies, Build,
// positions) is asked with B alive.
func (c *c10ctx) secondIndex() *c10two {
	rng, k := c.r.Rng, c.k
	var b []byte
	if rng.Intn(2) == 0 {
		b = c10Near(rng, c.a, c.s, k, 300)
		b = append(b, c10Fresh(rng, c.a, 1+rng.Intn(20), 30)...) // never the same letters as A
	} else {
		b = c10Fresh(rng, c.a, k+1+rng.Intn(300), 30)
	}
	t := &c10two{b: b, sq: linear.NewSeq("b", alphabet.BytesToLetters(append([]byte(nil), b...)), c.a.a)}
	ki, err := kmerindex.New(k, t.sq)
	if err != nil {
		c.fail("new-error", fmt.Sprintf("New for a second sequence %.40q while another index exists returned %v", b, err), nil, nil)
		return nil
	}
	t.ki = ki
	t.refPos, t.nvalid = c10RefPos(c10Ref(c.a, b, k))
	return t
}

// askAll asks a built index for every word its sequence holds, some other words, and Check.
func (c *c10ctx) askAll(ki *kmerindex.Index, whose, when string, s []byte, refPos map[int][]int, nvalid int) bool {
	k := c.k
	for wd, want := range refPos {
		got, err := ki.KmerPositions(kmerindex.Kmer(wd))
		if err != nil || !c10SameInts(got, want) {
			c.fail("two-indexes", fmt.Sprintf("index of %s %.40q, %s: KmerPositions(%s) err=%v", whose, s, when, c10Text(c.a, wd, k), err), got, want)
			return false
		}
	}
	c.r.Count("words_queried", int64(len(refPos)))
	for j := 0; j < 20; j++ {
		wd := c.r.Rng.Intn(1 << (2 * uint(k)))
		got, err := ki.KmerPositions(kmerindex.Kmer(wd))
		if err != nil || !c10SameInts(got, refPos[wd]) {
			c.fail("two-indexes", fmt.Sprintf("index of %s %.40q, %s: KmerPositions(%s) err=%v", whose, s, when, c10Text(c.a, wd, k), err), got, refPos[wd])
			return false
		}
	}
	if ok, found := ki.Check(); !ok || found != nvalid {
		c.fail("two-indexes", fmt.Sprintf("index of %s %.40q, %s: Check()", whose, s, when), []interface{}{ok, found}, []interface{}{true, nvalid})
		return false
	}
	return true
}

func (c *c10ctx) askFreq(ki *kmerindex.Index, whose, when string, s []byte, refPos map[int][]int) bool {
	f, ok := ki.KmerFrequencies()
	if !ok || len(f) != len(refPos) {
		c.fail("two-indexes", fmt.Sprintf("unbuilt index of %s %.40q, %s: number of words with non-zero frequency", whose, s, when), []interface{}{ok, len(f)}, []interface{}{true, len(refPos)})
		return false
	}
	for wd, ps := range refPos {
		if f[kmerindex.Kmer(wd)] != len(ps) {
			c.fail("two-indexes", fmt.Sprintf("unbuilt index of %s %.40q, %s: frequency of %s", whose, s, when, c10Text(c.a, wd, c.k)), f[kmerindex.Kmer(wd)], len(ps))
			return false
		}
	}
	return true
}

// secondIndexFinish: A has been built and questioned with B alive and unbuilt; now B's table, B's Build, a third index.
func (c *c10ctx) secondIndexFinish(t *c10two) {
	if t == nil {
		return
	}
	c.r.Count("cases_with_two_indexes_alive", 1)
	if !c.askFreq(t.ki, "a second sequence", "after the first index was built and questioned", t.b, t.refPos) {
		return
	}
	t.ki.Build()
	if !c.askAll(c.ki, "the first sequence", "after a second index of the same k was built", c.s, c.refPos, c.nvalid) ||
		!c.askAll(t.ki, "a second sequence", "built after the first index", t.b, t.refPos, t.nvalid) {
		return
	}
	d := c10Fresh(c.r.Rng, c.a, c.k+1+c.r.Rng.Intn(200), 30)
	dsq := linear.NewSeq("d", alphabet.BytesToLetters(append([]byte(nil), d...)), c.a.a)
	dki, err := kmerindex.New(c.k, dsq)
	if err != nil {
		c.fail("new-error", fmt.Sprintf("New for a third sequence %.40q while two indexes exist returned %v", d, err), nil, nil)
		return
	}
	dref, _ := c10RefPos(c10Ref(c.a, d, c.k))
	_ = c.askAll(c.ki, "the first sequence", "after a third index of the same k was made (not built)", c.s, c.refPos, c.nvalid) &&
		c.askAll(t.ki, "the second sequence", "after a third index of the same k was made (not built)", t.b, t.refPos, t.nvalid) &&
		c.askFreq(dki, "a third sequence", "with two built indexes alive", d, dref)
}

// builders: several goroutines each make, build and question an index of their own (same k, letters of their own) at
// the same time, three times over. Indexes that share nothing give every builder the single-threaded answers.
func (c *c10ctx) builders() {
	const builders, rounds = 6, 3
	rng, k := c.r.Rng, c.k
	type job struct {
		s      []byte
		refPos map[int][]int
		words  []int
		nvalid int
	}
	// every second builder works over another alphabet than the case's (another spelling of the four letters)
	alphas := make([]c10alpha, builders)
	for g := range alphas {
		alphas[g] = c.a
		if g%2 == 1 {
			alphas[g] = c10Alphas[rng.Intn(len(c10Alphas))]
		}
	}
	jobs := make([][]job, builders)
	for g := range jobs {
		for j := 0; j < rounds; j++ {
			var s []byte
			if rng.Intn(2) == 0 && alphas[g].name == c.a.name {
				s = c10Near(rng, c.a, c.s, k, 250)
				s = append(s, c10Fresh(rng, c.a, 1+rng.Intn(10), 30)...)
			} else {
				s = c10Fresh(rng, alphas[g], k+1+rng.Intn(250), 30)
			}
			jb := job{s: s}
			jb.refPos, jb.nvalid = c10RefPos(c10Ref(alphas[g], s, k))
			for wd := range jb.refPos {
				jb.words = append(jb.words, wd)
			}
			sort.Ints(jb.words)
			jobs[g] = append(jobs[g], jb)
		}
	}
	type bad struct {
		what      string
		got, want interface{}
	}
	bads := make([]*bad, builders)
	var wg sync.WaitGroup
	start := make(chan struct{})
	for g := 0; g < builders; g++ {
		g := g
		wg.Add(1)
		go func() {
			defer wg.Done()
			var at string
			defer func() {
				if p := recover(); p != nil && bads[g] == nil {
					bads[g] = &bad{at + ": panic", fmt.Sprint(p), "an answer"}
				}
			}()
			<-start
			for j, jb := range jobs[g] {
				at = fmt.Sprintf("round %d, sequence %.40q", j, jb.s)
				al := alphas[g]
				sq := linear.NewSeq("own", alphabet.BytesToLetters(append([]byte(nil), jb.s...)), al.a)
				ki, err := kmerindex.New(k, sq)
				if err != nil {
					bads[g] = &bad{at + ": New", err.Error(), nil}
					return
				}
				f, ok := ki.KmerFrequencies()
				if !ok || len(f) != len(jb.refPos) {
					bads[g] = &bad{at + ": words with non-zero frequency", len(f), len(jb.refPos)}
					return
				}
				for _, wd := range jb.words {
					if f[kmerindex.Kmer(wd)] != len(jb.refPos[wd]) {
						bads[g] = &bad{at + ": frequency of " + c10Text(al, wd, k), f[kmerindex.Kmer(wd)], len(jb.refPos[wd])}
						return
					}
					// the words spelt out, by the index and by the package-level helper
					text := c10Text(al, wd, k)
					if got := ki.Format(kmerindex.Kmer(wd)); got != text {
						bads[g] = &bad{at + ": Format over " + al.name, got, text}
						return
					}
					if got, err := kmerindex.Format(kmerindex.Kmer(wd), k, al.a); err != nil || got != text {
						bads[g] = &bad{at + ": package Format over " + al.name, fmt.Sprint(got, err), text}
						return
					}
				}
				ki.Build()
				for pass := 0; pass < 2; pass++ {
					for _, wd := range jb.words {
						got, err := ki.KmerPositions(kmerindex.Kmer(wd))
						if err != nil || !c10SameInts(got, jb.refPos[wd]) {
							bads[g] = &bad{at + ": KmerPositions(" + c10Text(al, wd, k) + ")", fmt.Sprint(got, err), jb.refPos[wd]}
							return
						}
					}
				}
				if ok, found := ki.Check(); !ok || found != jb.nvalid {
					bads[g] = &bad{at + ": Check()", []interface{}{ok, found}, []interface{}{true, jb.nvalid}}
					return
				}
			}
		}()
	}
	close(start)
	wg.Wait()
	c.r.Count("rounds_of_several_goroutines_building_indexes_of_their_own", 1)
	for g, b := range bads {
		if b != nil {
			c.fail("concurrent-builders", fmt.Sprintf("with %d goroutines each making, building and asking an index of its own (k=%d), builder %d, %s", builders, k, g, b.what), b.got, b.want)
			break
		}
	}
}

// c10Helpers: the package-level helpers need no index, so they are tried at one k directly: Format, KmerOf (either
// case), GCof and ComplementOf against the string operations, for all 4^k words up to k=8 and for the first, last and
// middle words and 20000 random ones above that.
func c10Helpers(r *obs.Run, a c10alpha, k int) {
	cmp, _ := a.a.(alphabet.Complementor)
	lookUp := a.a.LetterIndex()
	nwords := int64(1) << (2 * uint(k))
	quiet := map[string]bool{}
	fail := func(class, what string, got, want interface{}) {
		if quiet[class] {
			return
		}
		quiet[class] = true
		r.Violate(class, fmt.Sprintf("%s k=%d: %s", a.name, k, what), c10w{Alpha: a.name, K: k, What: what, Got: got, Want: want})
	}
	one := func(w int64) {
		wd := int(w)
		text := c10Text(a, wd, k)
		if got, err := kmerindex.Format(kmerindex.Kmer(wd), k, a.a); err != nil || got != text {
			fail("format", fmt.Sprintf("package Format(%d) err=%v", wd, err), got, text)
		}
		ask := text
		if !a.cased && wd%3 != 0 {
			ask = strings.ToUpper(text)
		}
		if got, err := kmerindex.KmerOf(k, lookUp, ask); err != nil || int64(got) != w {
			fail("kmerof", fmt.Sprintf("package KmerOf(%s) err=%v", ask, err), got, wd)
		}
		gc := 0
		for _, ch := range strings.ToLower(text) {
			if ch == 'g' || ch == 'c' {
				gc++
			}
		}
		if got := kmerindex.GCof(k, kmerindex.Kmer(wd)); got != float64(gc)/float64(k) {
			fail("gc", "package GCof("+text+")", got, float64(gc)/float64(k))
		}
		if cmp != nil {
			rc := make([]byte, k)
			for x := 0; x < k; x++ {
				l, _ := cmp.Complement(alphabet.Letter(text[k-1-x]))
				rc[x] = byte(l)
			}
			if got, _ := kmerindex.Format(kmerindex.ComplementOf(k, kmerindex.Kmer(wd)), k, a.a); got != string(rc) {
				fail("revcomp", "package ComplementOf("+text+"), formatted", got, string(rc))
			}
		}
		r.Count("helper_words_tried_without_an_index", 1)
	}
	if k <= 8 {
		for w := int64(0); w < nwords; w++ {
			one(w)
		}
	} else {
		for _, w := range []int64{0, 1, nwords - 1, nwords - 2, nwords / 2, nwords/2 - 1} {
			one(w)
		}
		for j := 0; j < 20000; j++ {
			one(r.Rng.Int63n(nwords))
		}
	}
	if k > 10 {
		r.Count("helper_word_lengths_above_10", 1)
	}
}

func c10OtherCase(s string) string {
	if u := strings.ToUpper(s); u != s {
		return u
	}
	return strings.ToLower(s)
}
