package main

import (
	"errors"
	"fmt"
	"math/rand"
	"runtime"
	"strings"
	"sync"
	"sync/atomic"
	"syscall"
	"time"

	"github.com/biogo/biogo/seq"
	"github.com/biogo/biogo/seq/linear"
	"verif/harness/internal/obs"
)

// C03, additions: a source that counts how often it is asked (for the hang rule), lines longer than the readers'
// buffer, independent readers in parallel goroutines.

// c03SrcReads counts the Read calls the readers under test made on their sources (all sources together).
var c03SrcReads int64

// c03Source is the reader's view of a chunkReader: it notes every request.
type c03Source struct{ *chunkReader }

func (s c03Source) Read(p []byte) (int, error) {
	atomic.AddInt64(&c03SrcReads, 1)
	return s.chunkReader.Read(p)
}

// c03CPU is the processor time (user + system) this process has used so far.
func c03CPU() time.Duration {
	var ru syscall.Rusage
	if syscall.Getrusage(syscall.RUSAGE_SELF, &ru) != nil {
		return 0
	}
	return time.Duration(ru.Utime.Nano() + ru.Stime.Nano())
}

// ---- lines longer than the readers' 4096-byte buffer ----

// c03LongMismatch is a FASTQ record whose letters line and quality line differ in length, with at least one of the two
// reaching across a 4096-byte buffer boundary (lengths at and next to the multiples of 4096, and far beyond).
func c03LongMismatch(rng *rand.Rand) string {
	var l int
	switch rng.Intn(4) {
	case 0:
		l = 4096 * (1 + rng.Intn(3))
	case 1:
		l = 4090 + rng.Intn(11)
	case 2:
		l = []int{8191, 8192, 8193, 10000, 12287, 12289, 70000}[rng.Intn(7)]
	default:
		l = 4096*(1+rng.Intn(3)) + []int{-1, 1}[rng.Intn(2)]
	}
	d := []int{-4096, -5, -1, 1, 2, 3, 4, 4096}[rng.Intn(8)]
	if l+d < 1 {
		d = -d
	}
	return "@r1 d\n" + strings.Repeat("a", l) + "\n+\n" + strings.Repeat("I", l+d)
}

// c03LongRandomBytes: 4000..24000 bytes with a newline about every 3000 bytes, so that most lines are longer than the
// buffer and the input has only a few of them.
func c03LongRandomBytes(rng *rand.Rand) []byte {
	b := make([]byte, 4000+rng.Intn(20001))
	mode := rng.Intn(3)
	for i := range b {
		switch {
		case rng.Intn(3000) == 0:
			b[i] = '\n'
		case rng.Intn(40) == 0:
			b[i] = "\t#>@+ \r;.-0123456789"[rng.Intn(20)]
		case mode == 0:
			b[i] = byte(rng.Intn(256))
			if b[i] == '\n' {
				b[i] = 'n'
			}
		case mode == 1:
			b[i] = byte(32 + rng.Intn(95))
		default:
			b[i] = "acgtnACGTN0123456789"[rng.Intn(20)]
		}
	}
	// the first line looks like the start of a record for one of the formats
	if rng.Intn(2) == 0 && len(b) > 0 {
		b[0] = ">@+#c"[rng.Intn(5)]
	}
	return b
}

// c03FramedLong puts long random lines where a FASTQ or FASTA record has its letters and qualities, so that the
// readers are in those states when a line comes in pieces.
func c03FramedLong(rng *rand.Rand) []byte {
	strip := func(b []byte) []byte {
		for i := range b {
			if b[i] == '\n' {
				b[i] = ' '
			}
		}
		return b
	}
	a := strip(c03LongRandomBytes(rng))
	q := strip(c03LongRandomBytes(rng))
	if rng.Intn(2) == 0 && len(q) >= len(a) { // same length: a record, if the bytes allow it
		q = q[:len(a)]
	}
	head := []string{"@r1", ">r1", "@", "@r1 " + string(a[:minInt(len(a), 5000)])}[rng.Intn(4)]
	plus := []string{"+", "+r1", "+" + head[1:]}[rng.Intn(3)]
	s := head + "\n" + string(a) + "\n" + plus + "\n" + string(q)
	if rng.Intn(2) == 0 {
		s += "\n"
	}
	return []byte(s)
}

// ---- independent readers in parallel goroutines ----

// c03ParallelPasses is how often every goroutine goes through its list of readers.
const c03ParallelPasses = 8

type c03Job struct {
	kind       string
	data       []byte
	origin     string
	pick       c03Pick
	chunk      int // the source's largest chunk (0: as much as asked for)
	failAt     int // -1: the source does not fail
	want, got  c03Outcome
	gotFinding *c03Finding
}

// source makes the job's source; the chunk lengths come from rng (one generator per goroutine, seeded alike for the
// runs alone and the runs in parallel, so that the two are the same runs).
func (j *c03Job) source(rng *rand.Rand) *chunkReader {
	src := &chunkReader{data: j.data, rng: rng, maxLen: j.chunk}
	if j.failAt >= 0 {
		src.failing, src.failAt = true, j.failAt
	}
	return src
}

// c03ParallelReaders: readers that share nothing (each has its own source and its own input) are used from different
// goroutines at the same time. Every run must be what the same reader gives for the same input when it runs alone:
// the same calls, no panic, a record or an error each time. Most readers of one set are of the same package.
func c03ParallelReaders(r *obs.Run) {
	rng := r.Rng
	ng := 4 + rng.Intn(5)
	perG := 20 + rng.Intn(21)
	focus := []string{"fasta", "fastq", "bed", "gff"}[rng.Intn(4)] // readers of one package, if any, are the ones that could share something
	c03Current.Store(fmt.Sprintf("%d goroutines with %d independent readers each, mostly %s", ng, perG, focus))
	r.Crumb(fmt.Sprintf("parallel readers: %d goroutines with %d independent readers each, mostly %s", ng, perG, focus))
	jobs := make([][]*c03Job, ng)
	seeds := make([]int64, ng)
	for g := range jobs {
		seeds[g] = rng.Int63()
		chunks := rand.New(rand.NewSource(seeds[g]))
		for n := 0; n < perG; n++ {
			j := &c03Job{kind: focus, chunk: []int{7, 700, 0}[rng.Intn(3)], failAt: -1}
			if focus == "bed" {
				j.kind = c03Kinds[2+rng.Intn(5)]
			}
			if rng.Intn(4) == 0 {
				j.kind = c03Kinds[rng.Intn(len(c03Kinds))]
			}
			switch rng.Intn(5) {
			case 0:
				j.data, j.origin = c03RandomBytes(rng), "random bytes"
			case 1:
				j.data, j.origin = c03ValidFile(rng, j.kind), "valid "+j.kind+" file"
			default:
				j.data, j.origin = c03Mutate(rng, c03ValidFile(rng, j.kind)), "mutated valid "+j.kind+" file"
			}
			if len(j.data) > 0 && rng.Intn(6) == 0 {
				j.failAt = rng.Intn(len(j.data) + 1)
				j.origin += fmt.Sprintf(" (source fails after %d bytes)", j.failAt)
			}
			j.pick = c03DrawPick(rng, j.kind, true)
			var f *c03Finding
			j.want, f = c03Core(j.kind, j.data, j.origin, j.source(chunks), j.pick)
			c03Book(r, j.want, f)
			if f != nil {
				return
			}
			jobs[g] = append(jobs[g], j)
		}
	}
	var wg sync.WaitGroup
	start := make(chan struct{})
	var arrived int32
	for g := range jobs {
		wg.Add(1)
		go func(mine []*c03Job, chunks *rand.Rand, seed int64) {
			defer wg.Done()
			<-start
			// wait (a bounded number of turns) until all goroutines have come to life, so that they work at the same time
			atomic.AddInt32(&arrived, 1)
			for turn := 0; turn < 50000 && atomic.LoadInt32(&arrived) < int32(ng); turn++ {
				runtime.Gosched()
			}
			// the list is gone through several times (the goroutines are then at work side by side for longer); the first
			// pass that differs from the run alone is kept
			for pass := 0; pass < c03ParallelPasses; pass++ {
				chunks.Seed(seed)
				for _, j := range mine {
					if j.gotFinding != nil || pass > 0 && j.got.seq != j.want.seq {
						continue
					}
					j.got, j.gotFinding = c03Core(j.kind, j.data, j.origin, j.source(chunks), j.pick)
				}
			}
		}(jobs[g], rand.New(rand.NewSource(seeds[g])), seeds[g])
	}
	close(start)
	wg.Wait()
	for g := range jobs {
		for n, j := range jobs[g] {
			r.Count("parallel_reader_runs", c03ParallelPasses)
			if j.gotFinding == nil && j.got.seq == j.want.seq {
				continue
			}
			w := map[string]interface{}{"goroutines": ng, "goroutine": g, "run": n, "reader": j.kind, "origin": j.origin, "input": string(truncBytes(j.data, 3000)), "calls_alone": j.want.seq, "calls_in_parallel": j.got.seq}
			if f := j.gotFinding; f != nil {
				w["in_parallel"] = f.witness
				r.Violate(f.class, fmt.Sprintf("with %d goroutines using independent readers at the same time (alone the same run gives %s): %s", ng, j.want.seq, f.brief), w)
				return
			}
			r.Violate("parallel-readers-interfere", fmt.Sprintf("%d goroutines using independent readers at the same time: a %s reader's calls went %s, the same reader on the same input alone %s", ng, j.kind, j.got.seq, j.want.seq), w)
			return
		}
	}
	r.Count("parallel_reader_sets", 1)
	r.Note(fmt.Sprintf("parallel/%s/%d/%d/%x", focus, ng, perG, hashBytes(jobs[0][0].data)), true)
}

// c03Short shortens a long catalogue line for the one-line summary of a violation (the witness keeps all of it).
func c03Short(s string) string {
	if len(s) <= 300 {
		return s
	}
	return fmt.Sprintf("%s ... [%d bytes] ... %s", s[:120], len(s), s[len(s)-60:])
}

// c03Picky is a reader template whose SetName and SetDescription refuse some values (an empty name, a name holding '|'
// or '#', a description holding two blanks in a row): what the reader does with such a refusal is up to it, but it must
// not panic and must go on returning a record or an error.
type c03Picky struct{ *linear.QSeq }

func (p c03Picky) SetName(n string) error {
	if n == "" || strings.ContainsAny(n, "|#") {
		return errors.New("harness: the template refuses this name")
	}
	return p.QSeq.SetName(n)
}

func (p c03Picky) SetDescription(d string) error {
	if strings.Contains(d, "  ") {
		return errors.New("harness: the template refuses this description")
	}
	return p.QSeq.SetDescription(d)
}

func (p c03Picky) Clone() seq.Sequence { return c03Picky{p.QSeq.Clone().(*linear.QSeq)} }
