//go:build verif

package main

import (
	"errors"
	"fmt"
	"hash/fnv"
	"math"
	"runtime"
	"sort"
	"strings"
	"sync"
	"sync/atomic"
	"time"

	"github.com/anishathalye/porcupine"
	"github.com/biogo/biogo/concurrent"

	"verif/harness/internal/obs"
)

// C19 — workers deliver each result once and stop cleanly; promises settle once.

// ---- Processor ----

type c19Op struct {
	id     int
	fail   bool
	panics bool
	pkind  int  // what the panicking operation panics with: a string, an error, a runtime error, a struct
	nilres bool // returns (nil, nil): no value, no error - still one result
}

func (o c19Op) Operation() (interface{}, error) {
	if o.panics {
		switch o.pkind {
		case 1:
			panic(fmt.Errorf("op %d blew up", o.id))
		case 2:
			var m map[int]int
			m[o.id] = 1 // assignment to entry in nil map: a runtime.Error
		case 3:
			panic(struct{ ID int }{o.id})
		}
		panic(fmt.Sprintf("op %d blew up", o.id))
	}
	if o.nilres {
		return nil, nil
	}
	if o.fail {
		return nil, fmt.Errorf("op %d failed", o.id)
	}
	return o.id, nil
}

type c19ProcPlan struct {
	Threads   int   `json:"threads"`
	Buffer    int   `json:"buffer"`
	Ops       int   `json:"operations"`
	QueueCap  int   `json:"queue_capacity"`
	Procs     int   `json:"gomaxprocs"`
	Barrier   bool  `json:"park_exiting_workers_until_all_have_returned_their_token"`
	PanicAt   int   `json:"operation_that_panics,omitempty"` // its worker turns the panic into that operation's error result and exits
	PanicKind int   `json:"panic_value_kind,omitempty"`      // 0 string, 1 error, 2 runtime error, 3 struct
	NilOps    []int `json:"operations_returning_nil_nil,omitempty"`
	Batches   []int `json:"process_call_sizes,omitempty"` // how many operators each Process call submits (0 = an empty call)
}

type c19Events struct {
	mu     sync.Mutex
	events []string
}

func (e *c19Events) add(s string) {
	e.mu.Lock()
	e.events = append(e.events, s)
	e.mu.Unlock()
}

func (e *c19Events) hash() (uint64, int) {
	e.mu.Lock()
	defer e.mu.Unlock()
	h := fnv.New64a()
	for _, s := range e.events {
		h.Write([]byte(s))
		h.Write([]byte{0})
	}
	return h.Sum64(), len(e.events)
}

func c19Processor(r *obs.Run, p c19ProcPlan) {
	old := runtime.GOMAXPROCS(p.Procs)
	defer runtime.GOMAXPROCS(old)
	threads := p.Threads
	if threads > p.Procs {
		threads = p.Procs // NewProcessor clamps to GOMAXPROCS
	}
	ev := &c19Events{}
	var arrived int32
	release := make(chan struct{})
	var once sync.Once
	concurrent.VerifSetStep(func(step string) {
		if step != "proc.exit.token" {
			return
		}
		n := atomic.AddInt32(&arrived, 1)
		ev.add(fmt.Sprintf("exit.token#%d", n))
		if !p.Barrier {
			return
		}
		if int(n) == threads {
			once.Do(func() { close(release) })
			return
		}
		select {
		case <-release:
		case <-time.After(15 * time.Millisecond):
			ev.add("barrier.bounded-wait")
		}
	})
	defer concurrent.VerifSetStep(nil)
	r.Crumb(fmt.Sprintf("processor %+v", p))
	w := map[string]interface{}{"plan": p}
	queue := make(chan concurrent.Operator, p.QueueCap)
	proc := concurrent.NewProcessor(queue, p.Buffer, p.Threads)
	isNil := map[int]bool{}
	for _, id := range p.NilOps {
		isNil[id] = true
	}
	allIn := make(chan struct{}) // closed by the consumer once every result is in (only waited for when NilOps is set)
	go func() {
		next := 0
		submit := func(n int) {
			var batch []concurrent.Operator
			for ; n > 0 && next < p.Ops; n-- {
				i := next
				next++
				batch = append(batch, c19Op{id: i + 1, fail: i%5 == 3 && !isNil[i+1], panics: i+1 == p.PanicAt, pkind: p.PanicKind, nilres: isNil[i+1]})
			}
			proc.Process(batch...)
		}
		for _, n := range p.Batches {
			submit(n)
		}
		for next < p.Ops {
			submit(1)
		}
		if len(p.NilOps) > 0 {
			<-allIn // while the queue is open the results channel cannot be closed: an empty receive is a real result
		}
		proc.Close()
	}()
	seen := map[int]int{}
	bad := ""
	nilSeen := 0
	for i := 0; i < p.Ops; i++ {
		v, err := proc.Result()
		switch {
		case err != nil:
			var id int
			if p.PanicKind >= 2 && strings.HasPrefix(err.Error(), "concurrent: processor panic:") {
				seen[p.PanicAt]++ // a runtime error or a struct value: the text does not carry the id; at most one operation panics
			} else if _, e := fmt.Sscanf(err.Error(), "concurrent: processor panic: op %d blew up", &id); e == nil {
				if id != p.PanicAt {
					bad = fmt.Sprintf("operation %d does not panic, yet its result carries a panic error", id)
				}
				seen[id]++
			} else if _, e := fmt.Sscanf(err.Error(), "op %d failed", &id); e != nil {
				bad = fmt.Sprintf("result %d carries an unexpected error: %v", i, err)
			} else {
				if (id-1)%5 != 3 || id == p.PanicAt {
					bad = fmt.Sprintf("operation %d does not fail, yet its result carries an error", id)
				}
				seen[id]++
			}
		case v == nil && len(p.NilOps) > 0:
			nilSeen++ // the queue is still open, so this is the result of an operation that returned (nil, nil)
		case v == nil:
			bad = fmt.Sprintf("result %d of %d is empty (nil value, nil error): the results channel was closed early or a result was lost", i, p.Ops)
		default:
			id := v.(int)
			if (id-1)%5 == 3 || id == p.PanicAt {
				bad = fmt.Sprintf("operation %d fails, yet its result carries a value", id)
			}
			seen[id]++
		}
		if bad != "" {
			break
		}
	}
	close(allIn)
	if bad == "" && nilSeen != len(p.NilOps) {
		bad = fmt.Sprintf("%d empty results for %d operations returning (nil, nil)", nilSeen, len(p.NilOps))
	}
	if bad == "" {
		for id := 1; id <= p.Ops; id++ {
			if isNil[id] {
				continue
			}
			if seen[id] != 1 {
				bad = fmt.Sprintf("operation %d produced %d results", id, seen[id])
				break
			}
		}
	}
	if bad != "" {
		w["results_seen"] = seen
		r.Violate("processor-results", fmt.Sprintf("threads=%d buffer=%d ops=%d: %s", p.Threads, p.Buffer, p.Ops, bad), w)
		return
	}
	// all workers exit, Wait returns (a worker stuck forever is caught by the runtime's deadlock detector)
	proc.Wait()
	// the results channel is closed: one more receive returns at once with the zero result
	v, err := proc.Result()
	if v != nil || err != nil {
		r.Violate("processor-results", fmt.Sprintf("threads=%d ops=%d: an extra result (%v, %v) arrived after all operations were accounted for", p.Threads, p.Ops, v, err), w)
		return
	}
	r.Count("processor_runs", 1)
	r.Count("processor_results", int64(p.Ops))
	if p.Barrier {
		r.Count("processor_barrier_runs", 1)
	}
	if p.Ops == 0 {
		r.Count("processor_zero_operation_runs", 1)
	}
	if p.PanicAt > 0 {
		r.Count("processor_runs_with_a_panicking_operation", 1)
	}
	if len(p.NilOps) > 0 {
		r.Count("processor_runs_with_nil_nil_results", 1)
	}
	if len(p.Batches) > 0 {
		r.Count("processor_runs_with_batched_process_calls", 1)
	}
	h, n := ev.hash()
	r.Count("hook_events", int64(n))
	r.Note(fmt.Sprintf("proc/%+v/%x", p, h), true)
	if r.WantSample() && p.Ops < 6 {
		r.Sample(map[string]interface{}{"processor": p, "results": seen})
	}
}

// ---- Map ----

type c19Mapper struct {
	lo, hi int
	rec    *c19Rec
}

type c19Rec struct {
	mu     sync.Mutex
	slices [][2]int
	failAt int  // the chunk holding this position fails (-1: none)
	panics bool // ... by panicking rather than by returning an error
}

func (m c19Mapper) Len() int { return m.hi - m.lo }
func (m c19Mapper) Slice(i, j int) concurrent.Mapper {
	m.rec.mu.Lock()
	m.rec.slices = append(m.rec.slices, [2]int{m.lo + i, m.lo + j})
	m.rec.mu.Unlock()
	return c19Mapper{m.lo + i, m.lo + j, m.rec}
}
func (m c19Mapper) Operation() (interface{}, error) {
	if m.hi == m.lo { // no chunk of a non-empty input is empty; saying so ends a Map that would go on handing out empty chunks
		return nil, fmt.Errorf("empty chunk [%d,%d)", m.lo, m.hi)
	}
	if f := m.rec.failAt; f >= m.lo && f < m.hi {
		if m.rec.panics {
			panic(fmt.Sprintf("chunk [%d,%d) blew up", m.lo, m.hi))
		}
		return nil, fmt.Errorf("chunk [%d,%d) failed", m.lo, m.hi)
	}
	return [2]int{m.lo, m.hi}, nil
}

func c19Map(r *obs.Run) {
	rng := r.Rng
	n := []int{0, 1, 2, 7, 16, 100, 1000, rng.Intn(1001)}[rng.Intn(8)]
	threads := 1 + rng.Intn(16)
	if rng.Intn(10) == 0 { // "as many as you can": far more threads than there is work or processors
		threads = []int{math.MaxInt, math.MaxInt - 1, math.MaxInt - 1000, 1 << 40, 1 << 31, 100000}[rng.Intn(6)]
		r.Count("map_runs_with_a_huge_thread_count", 1)
	}
	maxChunk := []int{1, 2, 3, 10, 1000, 1 + rng.Intn(50)}[rng.Intn(6)]
	rec := &c19Rec{failAt: -1}
	if n > 0 && rng.Intn(4) == 0 { // one chunk fails (or panics): Map reports an error, and nothing panics outside the workers
		rec.failAt, rec.panics = rng.Intn(minInt(n, 1+rng.Intn(n))), rng.Intn(2) == 0
	}
	r.Crumb(fmt.Sprintf("map n=%d threads=%d maxChunk=%d failAt=%d panics=%v", n, threads, maxChunk, rec.failAt, rec.panics))
	res, err := concurrent.Map(c19Mapper{0, n, rec}, threads, maxChunk)
	rec.mu.Lock() // after a failure the goroutine feeding chunks may still be slicing
	slices := append([][2]int(nil), rec.slices...)
	rec.mu.Unlock()
	w := map[string]interface{}{"len": n, "threads": threads, "max_chunk": maxChunk, "slices": slices, "results": fmt.Sprint(res), "failing_position": rec.failAt, "fails_by_panicking": rec.panics}
	if rec.failAt >= 0 {
		if err == nil {
			r.Violate("map-error", fmt.Sprintf("the chunk holding position %d failed and Map returned no error", rec.failAt), w)
			return
		}
		r.Count("map_runs_with_a_failing_chunk", 1)
		r.Note(fmt.Sprintf("mapfail/%d/%d/%d/%d/%v", n, threads, maxChunk, rec.failAt, rec.panics), true)
		return
	}
	if err != nil {
		r.Violate("map-error", "Map returned "+err.Error(), w)
		return
	}
	sl := append([][2]int(nil), slices...)
	sort.Slice(sl, func(a, b int) bool { return sl[a][0] < sl[b][0] })
	pos := 0
	for _, s := range sl {
		if s[0] != pos || s[1] <= s[0] || s[1]-s[0] > maxChunk {
			r.Violate("map-partition", fmt.Sprintf("chunks %v do not partition [0,%d) into pieces of at most %d", sl, n, maxChunk), w)
			return
		}
		pos = s[1]
	}
	if pos != n {
		r.Violate("map-partition", fmt.Sprintf("chunks %v cover [0,%d) of [0,%d)", sl, pos, n), w)
		return
	}
	if len(res) != len(sl) {
		r.Violate("map-results", fmt.Sprintf("%d results for %d chunks", len(res), len(sl)), w)
		return
	}
	got := map[[2]int]int{}
	for _, v := range res {
		iv, ok := v.([2]int)
		if !ok {
			r.Violate("map-results", fmt.Sprintf("unexpected result %v", v), w)
			return
		}
		got[iv]++
	}
	for _, s := range sl {
		if got[s] != 1 {
			r.Violate("map-results", fmt.Sprintf("chunk %v produced %d results", s, got[s]), w)
			return
		}
	}
	r.Count("map_runs", 1)
	r.Count("map_chunks", int64(len(sl)))
	r.Note(fmt.Sprintf("map/%d/%d/%d", n, threads, maxChunk), len(sl) >= 2)
}

// ---- Promise: sequential laws ----

type c19PState struct {
	set bool
	val int
	err string
}

// c19Val maps the harness's value numbers to what is handed to the promise: 0 stands for the untyped nil value.
func c19Val(v int) interface{} {
	if v == 0 {
		return nil
	}
	return v
}

func c19PromiseSeq(r *obs.Run) {
	rng := r.Rng
	flags := rng.Intn(8)
	mutable, recoverable, relay := flags&1 != 0, flags&2 != 0, flags&4 != 0
	p := concurrent.NewPromise(mutable, recoverable, relay)
	var st c19PState
	var ops []string
	w := map[string]interface{}{"mutable": mutable, "recoverable": recoverable, "relay": relay}
	fail := func(what string) {
		w["ops"] = ops
		r.Violate("promise-sequential", fmt.Sprintf("flags mutable=%v recoverable=%v relay=%v after %v: %s", mutable, recoverable, relay, ops, what), w)
	}
	nops := 2 + rng.Intn(6)
	for k := 0; k < nops; k++ {
		switch c := rng.Intn(4); {
		case c == 0 || (c == 3 && !st.set):
			v := 100 + k
			if rng.Intn(5) == 0 {
				v = 0 // Fulfill(nil): the promise is set all the same
				r.Count("promise_nil_values", 1)
			}
			ops = append(ops, fmt.Sprintf("Fulfill(%v)", c19Val(v)))
			err := p.Fulfill(c19Val(v))
			switch {
			case st.err != "":
				if err == nil {
					fail("Fulfill of a failed promise returned nil")
					return
				}
			case !st.set || mutable:
				if err != nil {
					fail("Fulfill of an unset (or mutable) promise returned " + err.Error())
					return
				}
				st.set, st.val = true, v
			default:
				if err == nil {
					fail("second Fulfill of an immutable promise returned nil")
					return
				}
				if relay {
					st.err = "relayed"
				}
			}
		case c == 1:
			v := 200 + k
			ops = append(ops, fmt.Sprintf("Fail(%d,e%d)", v, k))
			ok := p.Fail(v, fmt.Errorf("e%d", k))
			want := !st.set && st.err == ""
			if ok != want {
				fail(fmt.Sprintf("Fail returned %v, want %v", ok, want))
				return
			}
			if ok {
				st.set, st.val, st.err = true, v, fmt.Sprintf("e%d", k)
			}
		default:
			if !st.set {
				continue // Wait is enabled only once the promise is settled
			}
			ops = append(ops, "Wait")
			res := <-p.Wait()
			gv, _ := res.Value.(int)
			if gv != st.val {
				fail(fmt.Sprintf("Wait returned value %v, want %d", res.Value, st.val))
				return
			}
			switch {
			case st.err == "" && res.Err != nil:
				fail("Wait returned error " + res.Err.Error() + " for a fulfilled promise")
				return
			case st.err != "" && res.Err == nil:
				fail("Wait returned no error for a failed promise")
				return
			case st.err != "" && st.err != "relayed" && res.Err.Error() != st.err:
				fail("Wait returned error " + res.Err.Error() + ", want " + st.err)
				return
			}
		}
	}
	r.Count("promise_sequential_histories", 1)
	r.Note(fmt.Sprint("pseq/", flags, ops), true)
}

// ---- Promise: concurrent histories checked with porcupine ----

type c19In struct {
	Kind string // fulfill, fail, wait
	Val  int
}
type c19Out struct {
	OK  bool
	Val int
	Err bool
}

var c19Model = porcupine.Model{
	Init: func() interface{} { return c19PState{} },
	Step: func(state, input, output interface{}) (bool, interface{}) {
		st, in, out := state.(c19PState), input.(c19In), output.(c19Out)
		switch in.Kind {
		case "fulfill":
			if !st.set {
				return out.OK, c19PState{true, in.Val, ""}
			}
			return !out.OK, st
		case "fail":
			if !st.set {
				return out.OK, c19PState{true, in.Val, "failed"}
			}
			return !out.OK, st
		default: // wait: enabled only when set
			if !st.set {
				return false, st
			}
			return out.Val == st.val && out.Err == (st.err != ""), st
		}
	},
	DescribeOperation: func(in, out interface{}) string { return fmt.Sprintf("%+v -> %+v", in, out) },
}

func c19PromiseConc(r *obs.Run, hook bool) {
	rng := r.Rng
	ng := 2 + rng.Intn(3)
	procs := []int{1, 2, 4, 16}[rng.Intn(4)]
	old := runtime.GOMAXPROCS(procs)
	defer runtime.GOMAXPROCS(old)
	p := concurrent.NewPromise(false, false, false)
	var clock int64
	type rec struct {
		g        int
		in       c19In
		out      c19Out
		call, rt int64
	}
	var mu sync.Mutex
	var hist []rec
	ev := &c19Events{}
	if hook {
		delay := time.Duration(200+rng.Intn(1500)) * time.Microsecond
		concurrent.VerifSetStep(func(step string) {
			if step == "promise.wait.taken" {
				ev.add("wait.taken")
				time.Sleep(delay)
			}
		})
		defer concurrent.VerifSetStep(nil)
	}
	// plan: every goroutine runs 1..3 operations; at least one Fulfill or Fail overall so that Waits can return
	plans := make([][]c19In, ng)
	settles := 0
	for g := range plans {
		n := 1 + rng.Intn(3)
		for k := 0; k < n; k++ {
			var in c19In
			switch rng.Intn(5) {
			case 0, 1:
				in = c19In{"fulfill", 10*(g+1) + k}
				if rng.Intn(5) == 0 {
					in.Val = 0
				}
				settles++
			case 2:
				in = c19In{"fail", 10*(g+1) + k}
				settles++
			default:
				in = c19In{Kind: "wait"}
			}
			plans[g] = append(plans[g], in)
		}
	}
	// goroutine 0 settles the promise before anything else it does, so every Wait of a correct
	// implementation can return and the harness itself never creates a history that must block
	plans[0] = append([]c19In{{[]string{"fulfill", "fail"}[rng.Intn(2)], []int{7, 7, 0}[rng.Intn(3)]}}, plans[0]...)
	for _, pl := range plans {
		for _, in := range pl {
			if in.Kind == "fulfill" && in.Val == 0 {
				r.Count("promise_nil_values", 1)
			}
		}
	}
	_ = settles
	// "late settle" histories: every other goroutine starts with a Wait and goroutine 0 settles only after a
	// short pause, so that several waiters are already parked when the value arrives
	late := time.Duration(0)
	if rng.Intn(3) == 0 {
		late = time.Duration(500+rng.Intn(2500)) * time.Microsecond
		for g := 1; g < ng; g++ {
			plans[g] = append([]c19In{{Kind: "wait"}}, plans[g]...)
		}
	}
	r.Crumb(fmt.Sprintf("promise history gomaxprocs=%d hook=%v plans=%v", procs, hook, plans))
	var wg sync.WaitGroup
	start := make(chan struct{})
	for g := range plans {
		wg.Add(1)
		go func(g int) {
			defer wg.Done()
			<-start
			if g == 0 && late > 0 {
				time.Sleep(late)
			}
			for _, in := range plans[g] {
				call := atomic.AddInt64(&clock, 1)
				var out c19Out
				switch in.Kind {
				case "fulfill":
					out.OK = p.Fulfill(c19Val(in.Val)) == nil
				case "fail":
					out.OK = p.Fail(c19Val(in.Val), errors.New("failed"))
				default:
					res := <-p.Wait()
					out.Val, _ = res.Value.(int)
					out.Err = res.Err != nil
				}
				ret := atomic.AddInt64(&clock, 1)
				mu.Lock()
				hist = append(hist, rec{g, in, out, call, ret})
				mu.Unlock()
			}
		}(g)
	}
	close(start)
	wg.Wait() // a goroutine blocked forever leaves every goroutine parked: the deadlock watcher reports it
	ops := make([]porcupine.Operation, len(hist))
	var desc []string
	succ := 0
	for i, h := range hist {
		ops[i] = porcupine.Operation{ClientId: h.g, Input: h.in, Call: h.call, Output: h.out, Return: h.rt}
		desc = append(desc, fmt.Sprintf("g%d [%d,%d] %+v -> %+v", h.g, h.call, h.rt, h.in, h.out))
		if h.in.Kind != "wait" && h.out.OK {
			succ++
		}
	}
	sort.Strings(desc)
	res, _ := porcupine.CheckOperationsVerbose(c19Model, ops, 60*time.Second)
	w := map[string]interface{}{"gomaxprocs": procs, "hook_delay_in_wait": hook, "history": desc}
	switch res {
	case porcupine.Illegal:
		r.Violate("promise-not-linearizable", fmt.Sprintf("history of %d operations by %d goroutines is not linearizable against the write-once model (%d successful settles)", len(hist), ng, succ), w)
	case porcupine.Unknown:
		r.Inconclusive("porcupine timed out on a promise history")
	}
	if succ != 1 {
		r.Violate("promise-settled-not-once", fmt.Sprintf("%d Fulfill/Fail calls succeeded on one immutable promise", succ), w)
	}
	r.Count("promise_histories_checked", 1)
	if late > 0 {
		r.Count("promise_late_settle_histories", 1)
	}
	r.Count("promise_operations", int64(len(hist)))
	if hook {
		_, n := ev.hash()
		r.Count("promise_wait_hook_delays", int64(n))
	}
	// distinct interleaving = order of calls and returns
	sort.Slice(hist, func(a, b int) bool { return hist[a].call < hist[b].call })
	sig := ""
	for _, h := range hist {
		sig += fmt.Sprintf("%d:%s:%d:%d;", h.g, h.in.Kind, h.call, h.rt)
	}
	r.Note("pconc/"+sig, len(hist) >= 3)
	if r.WantSample() && len(hist) <= 5 {
		r.Sample(w)
	}
}

func init() {
	register(&obs.Monitor{
		ID:    "C19",
		Level: "exploration",
		Rule: "per case one of: (a) a Processor run - threads 1..16 x result buffer {0,1,n} x operations {0, <threads, =threads, >>threads} x queue capacity x GOMAXPROCS {1,2,4,16}, unique operation ids, every fifth operation failing, in a quarter of the runs one operation panicking (its result must carry the panic as an error), results consumed and counted (exactly-once), then Wait and one more receive that must find the channel closed; " +
			"half of the runs park every exiting worker after it returned its token until all have (bounded); (b) concurrent.Map with a recording Mapper (Len 0..1000, threads 1..16, chunk caps) - recorded slices must partition the input, one result per chunk; (c) sequential Fulfill/Fail/Wait laws (values include nil) for the 8 flag combinations against a model; " +
			"(d) concurrent histories of 2..4 goroutines issuing Fulfill/Fail/Wait on one immutable promise, timestamps from one atomic counter, checked with porcupine against a write-once register (Wait enabled only when set), half of them with a delay injected inside Wait between take and put-back. " +
			"Race detector on; panics/double close and all-goroutines-asleep deadlocks are reported from the child's exit. Non-trivial = >=1 operation/chunk/3 history operations; distinct = plan + hook event order / call-return order",
		Batches: func(t string) int {
			if t == "thorough" {
				return 64 // concurrent.Map leaks its workers: keep each child well below the race detector's goroutine limit
			}
			return 8
		},
		MaxPar:      8,
		Cases:       func(r *obs.Run) int { return r.Share(r.Pick(4000, 64000)) },
		Setup:       func(r *obs.Run) { r.WatchDeadlock(5*time.Second, 2*time.Minute) },
		Case:        c19Case,
		MinDistinct: func(t string) int { return 1200 },
		Floors: func(string) map[string]int64 {
			return map[string]int64{"processor_runs": 500, "processor_barrier_runs": 200, "processor_zero_operation_runs": 80, "processor_results": 5000, "map_runs": 300, "map_chunks": 1500,
				"promise_sequential_histories": 300, "promise_histories_checked": 500, "promise_wait_hook_delays": 100, "promise_operations": 2000, "promise_late_settle_histories": 100}
		},
		Assumptions: []string{"Processor operations do not panic; Map is given mappers that do not fail", "promise histories use Fulfill, Fail and Wait only (Recover/Break are outside the statement) and contain at least one settling call",
			"a blocked-forever goroutine is decided logically by the harness watcher: two identical goroutine dumps one second apart in which every goroutine is parked in a channel/mutex/condition/wait-group operation and none is runnable, sleeping or in a system call (the runtime's own detector is disabled in race builds)"},
		ChildTimeout: func(string) time.Duration { return 10 * time.Minute },
	})
}

func c19Case(r *obs.Run, i int) {
	rng := r.Rng
	switch i % 6 {
	case 0, 1:
		procs := []int{1, 2, 4, 16}[rng.Intn(4)]
		threads := 1 + rng.Intn(16)
		eff := threads
		if eff > procs {
			eff = procs
		}
		ops := []int{0, 0, maxInt(eff-1, 0), eff, 3*eff + rng.Intn(40), 1 + rng.Intn(200)}[rng.Intn(6)]
		buf := []int{0, 1, ops}[rng.Intn(3)]
		plan := c19ProcPlan{Threads: threads, Buffer: buf, Ops: ops, QueueCap: []int{0, 1, 8}[rng.Intn(3)], Procs: procs, Barrier: i%2 == 0}
		if ops > 0 && rng.Intn(4) == 0 { // one operation panics: its worker reports that as the operation's error and exits
			plan.PanicAt = ops // with a single worker nobody would be left for later operations
			if eff >= 2 {
				plan.PanicAt = 1 + rng.Intn(ops)
			}
		}
		plan.PanicKind = rng.Intn(4)
		if ops > 0 && plan.PanicAt == 0 && rng.Intn(4) == 0 { // one or two operations that yield neither a value nor an error
			for k := 0; k < 1+rng.Intn(2); k++ {
				id := 1 + rng.Intn(ops)
				if len(plan.NilOps) == 0 || plan.NilOps[0] != id {
					plan.NilOps = append(plan.NilOps, id)
				}
			}
		}
		for left := ops; left > 0 && rng.Intn(2) == 0; { // Process is variadic: calls with none, one, two, many operators
			n := []int{0, 1, 2, eff + 1, left}[rng.Intn(5)]
			if n > left {
				n = left
			}
			plan.Batches = append(plan.Batches, n)
			left -= n
		}
		c19Processor(r, plan)
	case 2:
		c19Map(r)
	case 3:
		c19PromiseSeq(r)
	case 4:
		c19PromiseConc(r, false)
	default:
		c19PromiseConc(r, true)
	}
}
