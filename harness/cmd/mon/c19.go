//go:build verif

package main

import (
	"errors"
	"fmt"
	"hash/fnv"
	"math"
	"runtime"
	"sort"
	"strings"
	"sync"
	"sync/atomic"
	"time"

	"github.com/anishathalye/porcupine"
	"github.com/biogo/biogo/concurrent"

	"verif/harness/internal/obs"
)

// C19 — workers deliver each result once and stop cleanly; promises settle once.

// ---- Processor ----

type c19Op struct {
	id     int
	fail   bool
	panics bool
	pkind  int    // what the panicking operation panics with: a string, an error, a runtime error, a struct
	nilres bool   // returns (nil, nil): no value, no error - still one result
	execs  *int32 // how often Operation has run (nil: not counted); every submitted operation runs once
	sent   error  // when set, the failing operation returns this very error value rather than a fresh one
}

// c19OpErr is the error value of the failing operations whose result must carry "that operation's error":
// the value handed back by Operation (or one that wraps it), not a copy of its text.
type c19OpErr struct{ id int }

func (e *c19OpErr) Error() string { return fmt.Sprintf("op %d failed", e.id) }

func (o c19Op) Operation() (interface{}, error) {
	if o.execs != nil {
		atomic.AddInt32(o.execs, 1)
	}
	if o.panics {
		switch o.pkind {
		case 1:
			panic(fmt.Errorf("op %d blew up", o.id))
		case 2:
			var m map[int]int
			m[o.id] = 1 // assignment to entry in nil map: a runtime.Error
		case 3:
			panic(struct{ ID int }{o.id})
		}
		panic(fmt.Sprintf("op %d blew up", o.id))
	}
	if o.nilres {
		return nil, nil
	}
	if o.fail {
		if o.sent != nil {
			return nil, o.sent
		}
		return nil, fmt.Errorf("op %d failed", o.id)
	}
	return o.id, nil
}

type c19ProcPlan struct {
	Threads   int   `json:"threads"`
	Buffer    int   `json:"buffer"`
	Ops       int   `json:"operations"`
	QueueCap  int   `json:"queue_capacity"`
	Procs     int   `json:"gomaxprocs"`
	Barrier   bool  `json:"park_exiting_workers_until_all_have_returned_their_token"`
	PanicAt   int   `json:"operation_that_panics,omitempty"` // its worker turns the panic into that operation's error result and exits
	PanicKind int   `json:"panic_value_kind,omitempty"`      // 0 string, 1 error, 2 runtime error, 3 struct
	NilOps    []int `json:"operations_returning_nil_nil,omitempty"`
	Batches   []int `json:"process_call_sizes,omitempty"` // how many operators each Process call submits (0 = an empty call)
	// who talks to the Processor, and how the run is wound up
	Direct     bool `json:"operators_sent_on_the_queue_itself_and_queue_closed_by_the_caller,omitempty"` // queue <- op ... close(queue): the queue is the caller's channel (Map feeds it that way)
	Submitters int  `json:"submitting_goroutines,omitempty"`                                             // 0 = 1
	Consumers  int  `json:"consuming_goroutines,omitempty"`                                              // 0 = 1
	EarlyWaits bool `json:"two_goroutines_in_wait_before_anything_is_submitted,omitempty"`
	ProbeFirst bool `json:"closed_channel_probed_before_the_final_waits,omitempty"`
	CloseFirst bool `json:"close_then_wait_twice_then_read_the_results,omitempty"` // only with a result buffer that holds every result
}

// c19WaitRet is what a goroutine saw at the moment its Wait returned.
type c19WaitRet struct {
	arrived int32 // workers that had returned their token (exit hook events)
	working int   // Processor.Working()
}

type c19Events struct {
	mu     sync.Mutex
	events []string
}

func (e *c19Events) add(s string) {
	e.mu.Lock()
	e.events = append(e.events, s)
	e.mu.Unlock()
}

func (e *c19Events) hash() (uint64, int) {
	e.mu.Lock()
	defer e.mu.Unlock()
	h := fnv.New64a()
	for _, s := range e.events {
		h.Write([]byte(s))
		h.Write([]byte{0})
	}
	return h.Sum64(), len(e.events)
}

func c19Processor(r *obs.Run, p c19ProcPlan) {
	old := runtime.GOMAXPROCS(p.Procs)
	defer runtime.GOMAXPROCS(old)
	threads := p.Threads
	if threads > p.Procs || threads < 1 {
		threads = p.Procs // NewProcessor: "if threads is greater GOMAXPROCS or less than 1 then threads is set to GOMAXPROCS"
	}
	ev := &c19Events{}
	var arrived int32
	release := make(chan struct{})
	var once sync.Once
	concurrent.VerifSetStep(func(step string) {
		if step != "proc.exit.token" {
			return
		}
		n := atomic.AddInt32(&arrived, 1)
		ev.add(fmt.Sprintf("exit.token#%d", n))
		if !p.Barrier {
			return
		}
		if int(n) == threads {
			once.Do(func() { close(release) })
			return
		}
		select {
		case <-release:
		case <-time.After(15 * time.Millisecond):
			ev.add("barrier.bounded-wait")
		}
	})
	defer concurrent.VerifSetStep(nil)
	r.Crumb(fmt.Sprintf("processor %+v", p))
	w := map[string]interface{}{"plan": p}
	queue := make(chan concurrent.Operator, p.QueueCap)
	proc := concurrent.NewProcessor(queue, p.Buffer, p.Threads)
	waitRet := func() c19WaitRet { return c19WaitRet{atomic.LoadInt32(&arrived), proc.Working()} }
	// Wait may be called by several goroutines, and at any time: two of them wait from the very start
	nEarly := 0
	earlyDone := make(chan c19WaitRet, 2)
	if p.EarlyWaits {
		nEarly = 2
		for k := 0; k < nEarly; k++ {
			go func() {
				proc.Wait()
				earlyDone <- waitRet()
			}()
		}
	}
	isNil := map[int]bool{}
	for _, id := range p.NilOps {
		isNil[id] = true
	}
	execs := make([]int32, p.Ops+1)     // executions per operation id
	sentinels := make([]error, p.Ops+1) // the error value an operation fails with, where identity is compared
	mkOp := func(i int) c19Op {
		o := c19Op{id: i + 1, fail: i%5 == 3 && !isNil[i+1], panics: i+1 == p.PanicAt, pkind: p.PanicKind, nilres: isNil[i+1], execs: &execs[i+1]}
		if o.fail && !o.panics && i%10 == 3 {
			o.sent = &c19OpErr{i + 1}
			sentinels[i+1] = o.sent
		}
		return o
	}
	ops := make([]c19Op, p.Ops)
	for i := range ops {
		ops[i] = mkOp(i)
	}
	nsub, ncons := maxInt(p.Submitters, 1), maxInt(p.Consumers, 1)
	if threads == 1 && p.PanicAt > 0 {
		nsub = 1 // see c19Case: with one worker the panicking operation has to be submitted last
	}
	closeFirst := p.CloseFirst && p.Buffer >= p.Ops && len(p.NilOps) == 0
	allIn := make(chan struct{}) // closed by the consumer once every result is in (only waited for when NilOps is set)
	// the submitters share the operations (and the planned Process call sizes) among themselves
	var smu sync.Mutex
	next, bi := 0, 0
	nextBatch := func() (lo, hi int, ok bool) {
		smu.Lock()
		defer smu.Unlock()
		n := 1
		if bi < len(p.Batches) {
			n = p.Batches[bi]
			bi++
		} else if next >= p.Ops {
			return 0, 0, false
		}
		lo, hi = next, minInt(next+n, p.Ops)
		next = hi
		return lo, hi, true
	}
	var subWG sync.WaitGroup
	for s := 0; s < nsub; s++ {
		subWG.Add(1)
		go func() {
			defer subWG.Done()
			for {
				lo, hi, ok := nextBatch()
				if !ok {
					return
				}
				if p.Direct {
					for i := lo; i < hi; i++ {
						queue <- ops[i]
					}
					continue
				}
				var batch []concurrent.Operator
				for i := lo; i < hi; i++ {
					batch = append(batch, ops[i])
				}
				proc.Process(batch...)
			}
		}()
	}
	closed := make(chan struct{})
	go func() {
		subWG.Wait()
		if len(p.NilOps) > 0 {
			<-allIn // while the queue is open the results channel cannot be closed: an empty receive is a real result
		}
		if p.Direct {
			close(queue) // "after the queue is closed": the statement does not name Processor.Close
		} else {
			proc.Close()
		}
		close(closed)
	}()
	violate := func(what string) {
		r.Violate("processor-results", fmt.Sprintf("threads=%d buffer=%d ops=%d: %s", p.Threads, p.Buffer, p.Ops, what), w)
	}
	// what Wait's return promises: every worker has exited (returned its token; none is counted as working)
	earlyReturn := func(who string, wr c19WaitRet) bool {
		if int(wr.arrived) >= threads && wr.working == 0 {
			return false
		}
		violate(fmt.Sprintf("%s returned when %d of %d workers had returned their token and Working() said %d", who, wr.arrived, threads, wr.working))
		return true
	}
	waits := 0
	if closeFirst { // everything fits into the result buffer: close, wait (twice), and only then read the results
		<-closed
		for k := 0; k < 2; k++ {
			proc.Wait()
			waits++
			if earlyReturn("Wait (before any result was read)", waitRet()) {
				return
			}
		}
	}
	var mu sync.Mutex // guards seen, bad, nilSeen, identities: the consumers share the receives
	seen := map[int]int{}
	bad := ""
	nilSeen, identities := 0, 0
	judge := func(i int, v interface{}, err error) {
		var ce *c19OpErr
		switch {
		case err != nil && errors.As(err, &ce):
			// the error value itself (or a wrapper around it) came back: it must be the one this operation returned
			if ce.id < 1 || ce.id > p.Ops || sentinels[ce.id] != error(ce) {
				bad = fmt.Sprintf("result %d carries an error value that no operation of this run returned: %v", i, err)
			} else {
				seen[ce.id]++
				identities++
			}
		case err != nil:
			var id int
			if p.PanicKind >= 2 && strings.HasPrefix(err.Error(), "concurrent: processor panic:") {
				seen[p.PanicAt]++ // a runtime error or a struct value: the text does not carry the id; at most one operation panics
			} else if _, e := fmt.Sscanf(err.Error(), "concurrent: processor panic: op %d blew up", &id); e == nil {
				if id != p.PanicAt {
					bad = fmt.Sprintf("operation %d does not panic, yet its result carries a panic error", id)
				}
				seen[id]++
			} else if _, e := fmt.Sscanf(err.Error(), "op %d failed", &id); e != nil {
				bad = fmt.Sprintf("result %d carries an unexpected error: %v", i, err)
			} else {
				if (id-1)%5 != 3 || id == p.PanicAt {
					bad = fmt.Sprintf("operation %d does not fail, yet its result carries an error", id)
				} else if id >= 1 && id <= p.Ops && sentinels[id] != nil {
					bad = fmt.Sprintf("operation %d failed with a particular error value; its result carries another error with the same text (%T), so the caller cannot recognise it", id, err)
				}
				seen[id]++
			}
		case v == nil && len(p.NilOps) > 0:
			nilSeen++ // the queue is still open, so this is the result of an operation that returned (nil, nil)
		case v == nil:
			bad = fmt.Sprintf("result %d of %d is empty (nil value, nil error): the results channel was closed early or a result was lost", i, p.Ops)
		default:
			id, ok := v.(int)
			if !ok {
				bad = fmt.Sprintf("result %d carries the value %v, which no operation returned", i, v)
			} else if (id-1)%5 == 3 || id == p.PanicAt {
				bad = fmt.Sprintf("operation %d fails, yet its result carries a value", id)
			}
			seen[id]++
		}
	}
	var claimed int32
	consume := func() {
		for {
			i := int(atomic.AddInt32(&claimed, 1)) - 1
			if i >= p.Ops {
				return
			}
			v, err := proc.Result()
			mu.Lock()
			if bad == "" {
				judge(i, v, err)
			}
			stop := bad != ""
			mu.Unlock()
			if stop {
				return
			}
		}
	}
	consDone := make(chan struct{}, ncons)
	for c := 1; c < ncons; c++ {
		go func() {
			consume()
			consDone <- struct{}{}
		}()
	}
	consume()
	for c := 1; c < ncons; c++ {
		mu.Lock()
		stop := bad != ""
		mu.Unlock()
		if stop {
			break // the others may be waiting for results that never come
		}
		<-consDone
	}
	mu.Lock()
	defer mu.Unlock() // from here on only this goroutine judges
	close(allIn)
	if bad == "" && nilSeen != len(p.NilOps) {
		bad = fmt.Sprintf("%d empty results for %d operations returning (nil, nil)", nilSeen, len(p.NilOps))
	}
	if bad == "" {
		for id := 1; id <= p.Ops; id++ {
			if isNil[id] {
				continue
			}
			if seen[id] != 1 {
				bad = fmt.Sprintf("operation %d produced %d results", id, seen[id])
				break
			}
		}
	}
	if bad != "" {
		w["results_seen"] = seen
		violate(bad)
		return
	}
	// the results channel is closed: one more receive returns at once with the zero result
	probe := func(when string) bool {
		v, err := proc.Result()
		if v != nil || err != nil {
			violate(fmt.Sprintf("an extra result (%v, %v) arrived %s, after all operations were accounted for", v, err, when))
			return false
		}
		return true
	}
	if p.ProbeFirst && !closeFirst {
		// the last worker closes the channel; no Wait is needed for that (the early waiters, if any, may or may not have returned)
		if !probe("before the final Wait calls") {
			return
		}
	}
	// all workers exit, Wait returns - for every caller of Wait, however many there are, and again afterwards
	// (a worker or waiter stuck forever is caught by the deadlock watcher)
	lateDone := make(chan c19WaitRet, 2)
	for k := 0; k < 2; k++ {
		go func() {
			proc.Wait()
			lateDone <- waitRet()
		}()
	}
	rets := []c19WaitRet{<-lateDone, <-lateDone}
	for k := 0; k < nEarly; k++ {
		rets = append(rets, <-earlyDone)
	}
	proc.Wait()
	rets = append(rets, waitRet())
	waits += len(rets)
	for _, wr := range rets {
		if earlyReturn("Wait", wr) {
			return
		}
	}
	if !probe("after Wait") {
		return
	}
	// every submitted operation ran once: its one result is the outcome of its one execution
	for id := 1; id <= p.Ops; id++ {
		if n := atomic.LoadInt32(&execs[id]); n != 1 {
			violate(fmt.Sprintf("operation %d was submitted once and produced one result, but was executed %d times", id, n))
			return
		}
	}
	r.Count("processor_runs", 1)
	r.Count("processor_results", int64(p.Ops))
	r.Count("processor_wait_calls_returned_with_all_workers_gone", int64(waits))
	r.Count("processor_operations_executed_exactly_once", int64(p.Ops))
	r.Count("processor_error_values_compared_by_identity", int64(identities))
	if p.Barrier {
		r.Count("processor_barrier_runs", 1)
	}
	if p.Ops == 0 {
		r.Count("processor_zero_operation_runs", 1)
	}
	if p.PanicAt > 0 {
		r.Count("processor_runs_with_a_panicking_operation", 1)
	}
	if len(p.NilOps) > 0 {
		r.Count("processor_runs_with_nil_nil_results", 1)
	}
	if len(p.Batches) > 0 {
		r.Count("processor_runs_with_batched_process_calls", 1)
	}
	if p.Direct {
		r.Count("processor_runs_fed_and_closed_on_the_queue_directly", 1)
	}
	if nsub > 1 {
		r.Count("processor_runs_with_several_submitters", 1)
	}
	if ncons > 1 {
		r.Count("processor_runs_with_several_consumers", 1)
	}
	if p.EarlyWaits {
		r.Count("processor_runs_with_waiters_from_the_start", 1)
	}
	if p.ProbeFirst && !closeFirst {
		r.Count("processor_runs_probing_the_closed_channel_before_wait", 1)
	}
	if closeFirst {
		r.Count("processor_runs_close_wait_wait_then_read", 1)
	}
	h, n := ev.hash()
	r.Count("hook_events", int64(n))
	r.Note(fmt.Sprintf("proc/%+v/%x", p, h), true)
	if r.WantSample() && p.Ops < 6 {
		r.Sample(map[string]interface{}{"processor": p, "results": seen})
	}
}

// ---- Map ----

type c19Mapper struct {
	lo, hi int
	rec    *c19Rec
}

type c19Rec struct {
	mu     sync.Mutex
	slices [][2]int
	failAt int            // the chunk holding this position fails (-1: none)
	panics bool           // ... by panicking rather than by returning an error
	nilAt  int            // the chunk holding this position returns (nil, nil): still one result (-1: none)
	execs  map[[2]int]int // executions per chunk
}

func (m c19Mapper) Len() int { return m.hi - m.lo }
func (m c19Mapper) Slice(i, j int) concurrent.Mapper {
	m.rec.mu.Lock()
	m.rec.slices = append(m.rec.slices, [2]int{m.lo + i, m.lo + j})
	m.rec.mu.Unlock()
	return c19Mapper{m.lo + i, m.lo + j, m.rec}
}
func (m c19Mapper) Operation() (interface{}, error) {
	if m.hi == m.lo { // no chunk of a non-empty input is empty; saying so ends a Map that would go on handing out empty chunks
		return nil, fmt.Errorf("empty chunk [%d,%d)", m.lo, m.hi)
	}
	m.rec.mu.Lock()
	m.rec.execs[[2]int{m.lo, m.hi}]++
	m.rec.mu.Unlock()
	if f := m.rec.nilAt; f >= m.lo && f < m.hi {
		return nil, nil
	}
	if f := m.rec.failAt; f >= m.lo && f < m.hi {
		if m.rec.panics {
			panic(fmt.Sprintf("chunk [%d,%d) blew up", m.lo, m.hi))
		}
		return nil, fmt.Errorf("chunk [%d,%d) failed", m.lo, m.hi)
	}
	return [2]int{m.lo, m.hi}, nil
}

func c19Map(r *obs.Run) {
	rng := r.Rng
	n := []int{0, 1, 2, 7, 16, 100, 1000, rng.Intn(1001)}[rng.Intn(8)]
	threads := 1 + rng.Intn(16)
	if rng.Intn(10) == 0 { // "as many as you can": far more threads than there is work or processors
		threads = []int{math.MaxInt, math.MaxInt - 1, math.MaxInt - 1000, 1 << 40, 1 << 31, 100000}[rng.Intn(6)]
		r.Count("map_runs_with_a_huge_thread_count", 1)
	}
	maxChunk := []int{1, 2, 3, 10, 1000, 1 + rng.Intn(50)}[rng.Intn(6)]
	rec := &c19Rec{failAt: -1, nilAt: -1, execs: map[[2]int]int{}}
	if n > 0 && rng.Intn(4) == 0 { // one chunk fails (or panics): Map reports an error, and nothing panics outside the workers
		rec.failAt, rec.panics = rng.Intn(minInt(n, 1+rng.Intn(n))), rng.Intn(2) == 0
	}
	if n > 0 && rec.failAt < 0 && rng.Intn(3) == 0 { // one chunk has nothing to report: (nil, nil) is its result all the same
		rec.nilAt = rng.Intn(n)
	}
	viaPromise := rng.Intn(4) == 0 // the same Map behind PromiseMap: its promise takes Map's results, or Map's error
	r.Crumb(fmt.Sprintf("map n=%d threads=%d maxChunk=%d failAt=%d panics=%v nilAt=%d viaPromise=%v", n, threads, maxChunk, rec.failAt, rec.panics, rec.nilAt, viaPromise))
	var res []interface{}
	var err error
	if viaPromise {
		pm := concurrent.PromiseMap(c19Mapper{0, n, rec}, threads, maxChunk)
		w1, w2 := <-pm.Wait(), <-pm.Wait() // a Wait that never returns is reported by the deadlock watcher
		l1, ok1 := w1.Value.([]interface{})
		l2, ok2 := w2.Value.([]interface{})
		if (w1.Err == nil) != (w2.Err == nil) || (w1.Err == nil && (!ok1 || !ok2 || len(l1) != len(l2))) {
			r.Violate("map-results", fmt.Sprintf("two Waits on the promise of one PromiseMap disagree: (%v, %v) and (%v, %v)", w1.Value, w1.Err, w2.Value, w2.Err), map[string]interface{}{"len": n, "threads": threads, "max_chunk": maxChunk})
			return
		}
		res, err = l1, w1.Err
	} else {
		res, err = concurrent.Map(c19Mapper{0, n, rec}, threads, maxChunk)
	}
	rec.mu.Lock() // after a failure the goroutine feeding chunks may still be slicing
	slices := append([][2]int(nil), rec.slices...)
	execs := map[[2]int]int{}
	for k, v := range rec.execs {
		execs[k] = v
	}
	rec.mu.Unlock()
	w := map[string]interface{}{"len": n, "threads": threads, "max_chunk": maxChunk, "slices": slices, "results": fmt.Sprint(res), "failing_position": rec.failAt, "fails_by_panicking": rec.panics,
		"position_of_the_chunk_returning_nil_nil": rec.nilAt, "through_promisemap": viaPromise}
	if rec.failAt >= 0 {
		if err == nil {
			r.Violate("map-error", fmt.Sprintf("the chunk holding position %d failed and Map returned no error", rec.failAt), w)
			return
		}
		r.Count("map_runs_with_a_failing_chunk", 1)
		if viaPromise {
			r.Count("promisemap_runs_with_a_failing_chunk", 1)
		}
		r.Note(fmt.Sprintf("mapfail/%d/%d/%d/%d/%v", n, threads, maxChunk, rec.failAt, rec.panics), true)
		return
	}
	if err != nil {
		r.Violate("map-error", "Map returned "+err.Error(), w)
		return
	}
	sl := append([][2]int(nil), slices...)
	sort.Slice(sl, func(a, b int) bool { return sl[a][0] < sl[b][0] })
	pos := 0
	for _, s := range sl {
		if s[0] != pos || s[1] <= s[0] || s[1]-s[0] > maxChunk {
			r.Violate("map-partition", fmt.Sprintf("chunks %v do not partition [0,%d) into pieces of at most %d", sl, n, maxChunk), w)
			return
		}
		pos = s[1]
	}
	if pos != n {
		r.Violate("map-partition", fmt.Sprintf("chunks %v cover [0,%d) of [0,%d)", sl, pos, n), w)
		return
	}
	if len(res) != len(sl) {
		r.Violate("map-results", fmt.Sprintf("%d results for %d chunks", len(res), len(sl)), w)
		return
	}
	got := map[[2]int]int{}
	nils := 0
	for _, v := range res {
		if v == nil && rec.nilAt >= 0 {
			nils++ // the result of the chunk that returned (nil, nil)
			continue
		}
		iv, ok := v.([2]int)
		if !ok {
			r.Violate("map-results", fmt.Sprintf("unexpected result %v", v), w)
			return
		}
		got[iv]++
	}
	for _, s := range sl {
		want := 1
		if rec.nilAt >= s[0] && rec.nilAt < s[1] {
			want = 0
			if nils != 1 {
				r.Violate("map-results", fmt.Sprintf("chunk %v returned (nil, nil): %d empty results among the %d returned", s, nils, len(res)), w)
				return
			}
		}
		if got[s] != want {
			r.Violate("map-results", fmt.Sprintf("chunk %v produced %d results", s, got[s]), w)
			return
		}
		if execs[s] != 1 {
			r.Violate("map-results", fmt.Sprintf("chunk %v was handed out once and was executed %d times", s, execs[s]), w)
			return
		}
	}
	r.Count("map_runs", 1)
	r.Count("map_chunks_executed_exactly_once", int64(len(sl)))
	if rec.nilAt >= 0 {
		r.Count("map_runs_with_a_chunk_returning_nil_nil", 1)
	}
	if viaPromise {
		r.Count("promisemap_runs", 1)
	}
	r.Count("map_chunks", int64(len(sl)))
	r.Note(fmt.Sprintf("map/%d/%d/%d", n, threads, maxChunk), len(sl) >= 2)
}

// ---- Promise: sequential laws ----

type c19PState struct {
	set bool
	val int
	err string
}

// c19Val maps the harness's value numbers to what is handed to the promise: 0 stands for the untyped nil value.
func c19Val(v int) interface{} {
	if v == 0 {
		return nil
	}
	return v
}

func c19PromiseSeq(r *obs.Run) {
	rng := r.Rng
	flags := rng.Intn(8)
	mutable, recoverable, relay := flags&1 != 0, flags&2 != 0, flags&4 != 0
	p := concurrent.NewPromise(mutable, recoverable, relay)
	var st c19PState
	var ops []string
	w := map[string]interface{}{"mutable": mutable, "recoverable": recoverable, "relay": relay}
	fail := func(what string) {
		w["ops"] = ops
		r.Violate("promise-sequential", fmt.Sprintf("flags mutable=%v recoverable=%v relay=%v after %v: %s", mutable, recoverable, relay, ops, what), w)
	}
	nops := 2 + rng.Intn(6)
	for k := 0; k < nops; k++ {
		switch c := rng.Intn(4); {
		case c == 0 || (c == 3 && !st.set):
			v := 100 + k
			if rng.Intn(5) == 0 {
				v = 0 // Fulfill(nil): the promise is set all the same
				r.Count("promise_nil_values", 1)
			}
			ops = append(ops, fmt.Sprintf("Fulfill(%v)", c19Val(v)))
			err := p.Fulfill(c19Val(v))
			switch {
			case st.err != "":
				if err == nil {
					fail("Fulfill of a failed promise returned nil")
					return
				}
			case !st.set || mutable:
				if err != nil {
					fail("Fulfill of an unset (or mutable) promise returned " + err.Error())
					return
				}
				st.set, st.val = true, v
			default:
				if err == nil {
					fail("second Fulfill of an immutable promise returned nil")
					return
				}
				if relay {
					st.err = "relayed"
				}
			}
		case c == 1:
			v := 200 + k
			ops = append(ops, fmt.Sprintf("Fail(%d,e%d)", v, k))
			ok := p.Fail(v, fmt.Errorf("e%d", k))
			want := !st.set && st.err == ""
			if ok != want {
				fail(fmt.Sprintf("Fail returned %v, want %v", ok, want))
				return
			}
			if ok {
				st.set, st.val, st.err = true, v, fmt.Sprintf("e%d", k)
			}
		default:
			if !st.set {
				continue // Wait is enabled only once the promise is settled
			}
			ops = append(ops, "Wait")
			res := <-p.Wait()
			gv, _ := res.Value.(int)
			if gv != st.val {
				fail(fmt.Sprintf("Wait returned value %v, want %d", res.Value, st.val))
				return
			}
			switch {
			case st.err == "" && res.Err != nil:
				fail("Wait returned error " + res.Err.Error() + " for a fulfilled promise")
				return
			case st.err != "" && res.Err == nil:
				fail("Wait returned no error for a failed promise")
				return
			case st.err != "" && st.err != "relayed" && res.Err.Error() != st.err:
				fail("Wait returned error " + res.Err.Error() + ", want " + st.err)
				return
			}
		}
	}
	r.Count("promise_sequential_histories", 1)
	r.Note(fmt.Sprint("pseq/", flags, ops), true)
}

// ---- Promise: concurrent histories checked with porcupine ----

type c19In struct {
	Kind string // fulfill, fail, wait
	Val  int
}
type c19Out struct {
	OK  bool
	Val int
	Err bool
}

var c19Model = porcupine.Model{
	Init: func() interface{} { return c19PState{} },
	Step: func(state, input, output interface{}) (bool, interface{}) {
		st, in, out := state.(c19PState), input.(c19In), output.(c19Out)
		switch in.Kind {
		case "fulfill":
			if !st.set {
				return out.OK, c19PState{true, in.Val, ""}
			}
			return !out.OK, st
		case "fail":
			if !st.set {
				return out.OK, c19PState{true, in.Val, "failed"}
			}
			return !out.OK, st
		default: // wait: enabled only when set
			if !st.set {
				return false, st
			}
			return out.Val == st.val && out.Err == (st.err != ""), st
		}
	},
	DescribeOperation: func(in, out interface{}) string { return fmt.Sprintf("%+v -> %+v", in, out) },
}

func c19PromiseConc(r *obs.Run, hook bool) {
	rng := r.Rng
	ng := 2 + rng.Intn(3)
	procs := []int{1, 2, 4, 16}[rng.Intn(4)]
	old := runtime.GOMAXPROCS(procs)
	defer runtime.GOMAXPROCS(old)
	p := concurrent.NewPromise(false, false, false)
	var clock int64
	type rec struct {
		g        int
		in       c19In
		out      c19Out
		call, rt int64
	}
	var mu sync.Mutex
	var hist []rec
	ev := &c19Events{}
	if hook {
		delay := time.Duration(200+rng.Intn(1500)) * time.Microsecond
		concurrent.VerifSetStep(func(step string) {
			if step == "promise.wait.taken" {
				ev.add("wait.taken")
				time.Sleep(delay)
			}
		})
		defer concurrent.VerifSetStep(nil)
	}
	// plan: every goroutine runs 1..3 operations; at least one Fulfill or Fail overall so that Waits can return
	plans := make([][]c19In, ng)
	settles := 0
	for g := range plans {
		n := 1 + rng.Intn(3)
		for k := 0; k < n; k++ {
			var in c19In
			switch rng.Intn(5) {
			case 0, 1:
				in = c19In{"fulfill", 10*(g+1) + k}
				if rng.Intn(5) == 0 {
					in.Val = 0
				}
				settles++
			case 2:
				in = c19In{"fail", 10*(g+1) + k}
				settles++
			default:
				in = c19In{Kind: "wait"}
			}
			plans[g] = append(plans[g], in)
		}
	}
	// goroutine 0 settles the promise before anything else it does, so every Wait of a correct
	// implementation can return and the harness itself never creates a history that must block
	plans[0] = append([]c19In{{[]string{"fulfill", "fail"}[rng.Intn(2)], []int{7, 7, 0}[rng.Intn(3)]}}, plans[0]...)
	for _, pl := range plans {
		for _, in := range pl {
			if in.Kind == "fulfill" && in.Val == 0 {
				r.Count("promise_nil_values", 1)
			}
		}
	}
	_ = settles
	// "late settle" histories: every other goroutine starts with a Wait and goroutine 0 settles only after a
	// short pause, so that several waiters are already parked when the value arrives
	late := time.Duration(0)
	if rng.Intn(3) == 0 {
		late = time.Duration(500+rng.Intn(2500)) * time.Microsecond
		for g := 1; g < ng; g++ {
			plans[g] = append([]c19In{{Kind: "wait"}}, plans[g]...)
		}
	}
	r.Crumb(fmt.Sprintf("promise history gomaxprocs=%d hook=%v plans=%v", procs, hook, plans))
	var wg sync.WaitGroup
	start := make(chan struct{})
	for g := range plans {
		wg.Add(1)
		go func(g int) {
			defer wg.Done()
			<-start
			if g == 0 && late > 0 {
				time.Sleep(late)
			}
			for _, in := range plans[g] {
				call := atomic.AddInt64(&clock, 1)
				var out c19Out
				switch in.Kind {
				case "fulfill":
					out.OK = p.Fulfill(c19Val(in.Val)) == nil
				case "fail":
					out.OK = p.Fail(c19Val(in.Val), errors.New("failed"))
				default:
					res := <-p.Wait()
					out.Val, _ = res.Value.(int)
					out.Err = res.Err != nil
				}
				ret := atomic.AddInt64(&clock, 1)
				mu.Lock()
				hist = append(hist, rec{g, in, out, call, ret})
				mu.Unlock()
			}
		}(g)
	}
	close(start)
	wg.Wait() // a goroutine blocked forever leaves every goroutine parked: the deadlock watcher reports it
	ops := make([]porcupine.Operation, len(hist))
	var desc []string
	succ := 0
	for i, h := range hist {
		ops[i] = porcupine.Operation{ClientId: h.g, Input: h.in, Call: h.call, Output: h.out, Return: h.rt}
		desc = append(desc, fmt.Sprintf("g%d [%d,%d] %+v -> %+v", h.g, h.call, h.rt, h.in, h.out))
		if h.in.Kind != "wait" && h.out.OK {
			succ++
		}
	}
	sort.Strings(desc)
	res, _ := porcupine.CheckOperationsVerbose(c19Model, ops, 60*time.Second)
	w := map[string]interface{}{"gomaxprocs": procs, "hook_delay_in_wait": hook, "history": desc}
	switch res {
	case porcupine.Illegal:
		r.Violate("promise-not-linearizable", fmt.Sprintf("history of %d operations by %d goroutines is not linearizable against the write-once model (%d successful settles)", len(hist), ng, succ), w)
	case porcupine.Unknown:
		r.Inconclusive("porcupine timed out on a promise history")
	}
	if succ != 1 {
		r.Violate("promise-settled-not-once", fmt.Sprintf("%d Fulfill/Fail calls succeeded on one immutable promise", succ), w)
	}
	if succ == 1 && res != porcupine.Illegal && rng.Intn(3) == 0 {
		concurrent.VerifSetStep(nil) // no injected delay: contention is the point here
		c19HammerSettled(r, p, ng, w)
	}
	r.Count("promise_histories_checked", 1)
	if late > 0 {
		r.Count("promise_late_settle_histories", 1)
	}
	r.Count("promise_operations", int64(len(hist)))
	if hook {
		_, n := ev.hash()
		r.Count("promise_wait_hook_delays", int64(n))
	}
	// distinct interleaving = order of calls and returns
	sort.Slice(hist, func(a, b int) bool { return hist[a].call < hist[b].call })
	sig := ""
	for _, h := range hist {
		sig += fmt.Sprintf("%d:%s:%d:%d;", h.g, h.in.Kind, h.call, h.rt)
	}
	r.Note("pconc/"+sig, len(hist) >= 3)
	if r.WantSample() && len(hist) <= 5 {
		r.Sample(w)
	}
}

// c19HammerSettled: the promise has been settled (once) and every call of the history has returned. Now ng goroutines
// ask it at the same time, 150 calls each: Waits, and every tenth call a Fulfill or Fail that must be refused. Every
// Wait must come back with the one value the promise has (a goroutine that never returns is the watcher's business).
func c19HammerSettled(r *obs.Run, p *concurrent.Promise, ng int, w map[string]interface{}) {
	first := <-p.Wait()
	var wg sync.WaitGroup
	var odd, accepted, waits int64
	start := make(chan struct{})
	for g := 0; g < ng; g++ {
		wg.Add(1)
		go func(g int) {
			defer wg.Done()
			<-start
			for k := 0; k < 150; k++ {
				switch {
				case k%10 == 3+g:
					if p.Fulfill(1000+k) == nil {
						atomic.AddInt64(&accepted, 1)
					}
				case k%10 == 8-g:
					if p.Fail(2000+k, errors.New("late failure")) {
						atomic.AddInt64(&accepted, 1)
					}
				default:
					got := <-p.Wait()
					atomic.AddInt64(&waits, 1)
					if got.Value != first.Value || (got.Err == nil) != (first.Err == nil) {
						atomic.AddInt64(&odd, 1)
					}
				}
			}
		}(g)
	}
	close(start)
	wg.Wait()
	if accepted > 0 {
		r.Violate("promise-settled-not-once", fmt.Sprintf("%d Fulfill/Fail calls were accepted by an immutable promise that had been settled before, while %d goroutines were asking it", accepted, ng), w)
	}
	if odd > 0 {
		r.Violate("promise-wait-value", fmt.Sprintf("%d of %d Waits on a settled immutable promise returned something else than its value (%v, failed=%v)", odd, waits, first.Value, first.Err != nil), w)
	}
	r.Count("settled_promises_asked_by_several_goroutines_at_once", 1)
	r.Count("waits_on_settled_promises_under_contention", waits)
}

func init() {
	register(&obs.Monitor{
		ID:    "C19",
		Level: "exploration",
		Rule: "per case one of: (a) a Processor run - threads 1..16 (one run in twelve 0, -1, -1000 or the least int, which NewProcessor documents as GOMAXPROCS) x result buffer {0,1,n} x operations {0, <threads, =threads, >>threads} x queue capacity x GOMAXPROCS {1,2,4,16}, unique operation ids, every fifth operation failing, in a quarter of the runs one operation panicking (its result must carry the panic as an error), results consumed and counted (exactly-once; half of the failing operations return a particular error value that must come back itself or wrapped; every operation executed once), then Wait and one more receive that must find the channel closed; " +
			"the Processor is used by several callers at once and in every order the statement allows: operators through Process/Close or, in half of the runs, sent on the caller's queue and the queue closed directly; 1..3 submitting and 1..3 consuming goroutines; in half of the runs two goroutines in Wait from the start; always two goroutines in Wait at the end and one more Wait after them, each of which must return with every worker past its exit hook and Working()==0; " +
			"in half of the runs the closed-channel receive also before any final Wait; with a result buffer that holds everything also Close, Wait, Wait and only then the results; " +
			"half of the runs park every exiting worker after it returned its token until all have (bounded); (b) concurrent.Map with a recording Mapper (Len 0..1000, threads 1..16, chunk caps) - recorded slices must partition the input, one result per chunk (one chunk in a third of the runs returns (nil, nil)), every chunk executed once; one call in four goes through PromiseMap and two Waits on its promise; (c) sequential Fulfill/Fail/Wait laws (values include nil) for the 8 flag combinations against a model; " +
			"(d) concurrent histories of 2..4 goroutines issuing Fulfill/Fail/Wait on one immutable promise, timestamps from one atomic counter, checked with porcupine against a write-once register (Wait enabled only when set), half of them with a delay injected inside Wait between take and put-back; a third of the settled promises are then asked by all goroutines at once, 150 calls each (Waits that must return the one value, and late Fulfill/Fail calls that must be refused). " +
			"Race detector on; panics/double close and all-goroutines-asleep deadlocks are reported from the child's exit. Non-trivial = >=1 operation/chunk/3 history operations; distinct = plan + hook event order / call-return order",
		Batches: func(t string) int {
			if t == "thorough" {
				return 64 // concurrent.Map leaks its workers: keep each child well below the race detector's goroutine limit
			}
			return 8
		},
		MaxPar:      8,
		Cases:       func(r *obs.Run) int { return r.Share(r.Pick(4000, 150000)) },
		Setup:       func(r *obs.Run) { r.WatchDeadlock(5*time.Second, 2*time.Minute) },
		Case:        c19Case,
		MinDistinct: func(t string) int { return 1200 },
		Floors: func(string) map[string]int64 {
			return map[string]int64{"processor_runs": 500, "processor_barrier_runs": 200, "processor_zero_operation_runs": 80, "processor_results": 5000, "map_runs": 300, "map_chunks": 1500,
				"promise_sequential_histories": 300, "promise_histories_checked": 500, "promise_wait_hook_delays": 100, "promise_operations": 2000, "promise_late_settle_histories": 100,
				"processor_runs_fed_and_closed_on_the_queue_directly": 200, "processor_runs_with_several_submitters": 200, "processor_runs_with_several_consumers": 200, "processor_runs_with_waiters_from_the_start": 200,
				"processor_runs_probing_the_closed_channel_before_wait": 150, "processor_runs_close_wait_wait_then_read": 100, "processor_error_values_compared_by_identity": 500,
				"map_runs_with_a_chunk_returning_nil_nil": 40, "promisemap_runs": 40}
		},
		Assumptions: []string{"Processor operations do not panic; Map is given mappers that do not fail", "promise histories use Fulfill, Fail and Wait only (Recover/Break are outside the statement) and contain at least one settling call",
			"a blocked-forever goroutine is decided logically by the harness watcher: two identical goroutine dumps one second apart in which every goroutine is parked in a channel/mutex/condition/wait-group operation and none is runnable, sleeping or in a system call (the runtime's own detector is disabled in race builds)"},
		ChildTimeout: func(string) time.Duration { return 10 * time.Minute },
	})
}

func c19Case(r *obs.Run, i int) {
	rng := r.Rng
	switch i % 6 {
	case 0, 1:
		procs := []int{1, 2, 4, 16}[rng.Intn(4)]
		threads := 1 + rng.Intn(16)
		if rng.Intn(12) == 0 { // "any number of worker threads": a caller passing none, or a computed count that went negative
			threads = []int{0, 0, -1, -1000, math.MinInt}[rng.Intn(5)]
			r.Count("processor_runs_with_a_thread_count_below_one", 1)
		}
		eff := threads
		if eff > procs || eff < 1 {
			eff = procs
		}
		ops := []int{0, 0, maxInt(eff-1, 0), eff, 3*eff + rng.Intn(40), 1 + rng.Intn(200)}[rng.Intn(6)]
		buf := []int{0, 1, ops}[rng.Intn(3)]
		plan := c19ProcPlan{Threads: threads, Buffer: buf, Ops: ops, QueueCap: []int{0, 1, 8}[rng.Intn(3)], Procs: procs, Barrier: i%2 == 0}
		if ops > 0 && rng.Intn(4) == 0 { // one operation panics: its worker reports that as the operation's error and exits
			plan.PanicAt = ops // with a single worker nobody would be left for later operations
			if eff >= 2 {
				plan.PanicAt = 1 + rng.Intn(ops)
			}
		}
		plan.PanicKind = rng.Intn(4)
		if ops > 0 && plan.PanicAt == 0 && rng.Intn(4) == 0 { // one or two operations that yield neither a value nor an error
			for k := 0; k < 1+rng.Intn(2); k++ {
				id := 1 + rng.Intn(ops)
				if len(plan.NilOps) == 0 || plan.NilOps[0] != id {
					plan.NilOps = append(plan.NilOps, id)
				}
			}
		}
		for left := ops; left > 0 && rng.Intn(2) == 0; { // Process is variadic: calls with none, one, two, many operators
			n := []int{0, 1, 2, eff + 1, left}[rng.Intn(5)]
			if n > left {
				n = left
			}
			plan.Batches = append(plan.Batches, n)
			left -= n
		}
		// callers: the queue is the caller's own channel, and a pool is fed, drained and awaited by whoever likes
		plan.Direct = rng.Intn(2) == 0
		plan.Submitters = []int{1, 1, 2, 3}[rng.Intn(4)]
		if eff == 1 && plan.PanicAt > 0 {
			plan.Submitters = 1 // the panicking operation must stay the last one the only worker receives
		}
		plan.Consumers = []int{1, 1, 2, 3}[rng.Intn(4)]
		plan.EarlyWaits = rng.Intn(2) == 0
		plan.ProbeFirst = rng.Intn(2) == 0
		plan.CloseFirst = buf >= ops && len(plan.NilOps) == 0 && rng.Intn(2) == 0
		c19Processor(r, plan)
	case 2:
		c19Map(r)
	case 3:
		c19PromiseSeq(r)
	case 4:
		c19PromiseConc(r, false)
	default:
		c19PromiseConc(r, true)
	}
}
