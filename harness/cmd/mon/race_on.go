//go:build race

package main

func init() { raceBuilt = true }
