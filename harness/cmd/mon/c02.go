package main

import (
	"bytes"
	"fmt"
	"io"
	"reflect"
	"strconv"
	"strings"
	"time"

	"github.com/biogo/biogo/alphabet"
	"github.com/biogo/biogo/feat"
	"github.com/biogo/biogo/io/featio"
	"github.com/biogo/biogo/io/featio/bed"
	"github.com/biogo/biogo/io/featio/gff"
	"github.com/biogo/biogo/seq"
	"github.com/biogo/biogo/seq/linear"

	"verif/harness/internal/obs"
)

// C02 — BED and GFF features survive write-then-read with coordinate conventions.

// c02Plain is a feature that is neither a *gff.Feature nor a region nor a sequence: the writer renders it as a
// ##sequence-region line.
type c02Plain struct {
	name string
	s, e int
}

func (p c02Plain) Start() int             { return p.s }
func (p c02Plain) End() int               { return p.e }
func (p c02Plain) Len() int               { return p.e - p.s }
func (p c02Plain) Name() string           { return p.name }
func (p c02Plain) Description() string    { return "" }
func (p c02Plain) Location() feat.Feature { return nil }

func init() {
	register(&obs.Monitor{
		ID:    "C02",
		Level: "exploration",
		Rule: "even cases: a list of 1..5 BED-N records (N in 3,4,5,6,12; coordinates/scores from 0, +-small, +-large, MinInt64.., ..MaxInt64; all strands; 1..5 blocks; colour zero/opaque) written at every width m<=N and read with an m-reader; " +
			"odd cases: a GFF file of 1..6 items from {feature (nil/finite/+-Inf/-0 scores, all strands/frames, 0..4 attributes, optional comment, negative and extreme coordinates), region with or without a preceding ##Type line, inline DNA/RNA/protein sequence, comment line}, header on/off, width 1..80. " +
			"Oracle: DeepEqual with the original (nil == empty attribute list), text columns 4/5 = Start+1/End, byte counts. Non-trivial = has an optional column/attribute/score/region/sequence; distinct = emitted bytes",
		Batches: func(t string) int {
			if t == "thorough" {
				return 16
			}
			return 4
		},
		Cases:       func(r *obs.Run) int { return r.Share(r.Pick(10000, 100000)) },
		Case:        c02Case,
		MinDistinct: func(t string) int { return 2000 },
		Floors: func(string) map[string]int64 {
			return map[string]int64{"bed_records_compared": 10000, "bed_narrower_widths": 3000, "gff_features_compared": 2000, "gff_regions_compared": 300, "gff_sequences_compared": 300,
				"gff_coordinate_columns_checked": 2000, "write_calls_counted": 8000, "gff_negative_or_extreme_coords": 300, "scanner_passes": 3000}
		},
		Assumptions: []string{"text fields are non-empty, tab-free, trimmed, not starting with '#'; attribute tags match [A-Za-z_]+; region and inline sequence names are whitespace-free; NaN scores are not generated"},
	})
}

func c02Case(r *obs.Run, i int) {
	rng := r.Rng
	w := map[string]interface{}{}
	fail := func(class, what string) {
		w["what"] = what
		r.Violate(class, what, w)
	}
	defer func() {
		if e := recover(); e != nil {
			fail("panic", fmt.Sprintf("panic: %v", e))
		}
	}()
	if i%50 == 49 {
		c02Parallel(r)
		return
	}
	if i%2 == 0 {
		// ---- BED ----
		n := []int{3, 4, 5, 6, 12}[rng.Intn(5)]
		nrec := 1 + rng.Intn(5)
		var recs []feat.Feature
		for k := 0; k < nrec; k++ {
			if n <= 6 && rng.Intn(6) == 0 { // a feature that is not a bed record: the writer renders it from its accessors
				recs = append(recs, c02GenForeign(rng))
				r.Count("bed_features_of_other_types", 1)
			} else {
				recs = append(recs, genBed(rng, n))
			}
		}
		// the records as they are before any writer has seen them: what is read back is compared with these, and no
		// writer may change the caller's record
		orig := make([]feat.Feature, nrec)
		for k, f := range recs {
			orig[k] = c02CopyBed(f)
		}
		unchanged := func(when string) bool {
			for k, f := range recs {
				if !reflect.DeepEqual(f, orig[k]) {
					fail("caller-record-modified", fmt.Sprintf("%s the caller's record %d is %s, it was %s", when, k, c02Brief(f), c02Brief(orig[k])))
					return false
				}
			}
			return true
		}
		w["format"] = fmt.Sprint("bed", n)
		var rb []string
		for _, f := range recs {
			rb = append(rb, fmt.Sprintf("%+v", f))
		}
		w["records"] = rb
		for _, m := range []int{3, 4, 5, 6, 12} {
			if m > n {
				continue
			}
			w["write_width"] = m
			cw := &countingWriter{}
			bw, err := bed.NewWriter(cw, m)
			if err != nil {
				fail("write-error", "NewWriter: "+err.Error())
				return
			}
			ends := make([]int, len(recs)) // where each record's bytes end in the output
			for k, f := range recs {
				before := cw.buf.Len()
				nn, err := bw.Write(f)
				if err != nil {
					fail("write-error", fmt.Sprintf("Write of record %d at width %d: %v", k, m, err))
					return
				}
				if nn != cw.buf.Len()-before {
					fail("byte-count", fmt.Sprintf("bed Write returned n=%d but emitted %d bytes", nn, cw.buf.Len()-before))
					return
				}
				ends[k] = cw.buf.Len()
				r.Count("write_calls_counted", 1)
				if !reflect.DeepEqual(f, orig[k]) {
					fail("caller-record-modified", fmt.Sprintf("after bed Write at width %d the caller's record %d is %s, it was %s", m, k, c02Brief(f), c02Brief(orig[k])))
					return
				}
				r.Count("records_unchanged_after_write", 1)
			}
			data := append([]byte(nil), cw.buf.Bytes()...)
			w["emitted"] = string(data)
			// one record is refused outright by the underlying writer (every call made while it is being written returns
			// 0 and an error), the writer is used on: the output is the other records, nothing of the refused one
			{
				k := rng.Intn(len(recs))
				gw := &gateWriter{}
				gbw, _ := bed.NewWriter(gw, m)
				for j, f := range recs {
					gw.closed = j == k
					nn, err := gbw.Write(f)
					if j == k && (err == nil || nn != 0) {
						fail("write-error-hidden", fmt.Sprintf("the underlying writer refused every byte of record %d and bed Write returned n=%d, err=%v", j, nn, err))
						return
					}
					if j != k && err != nil {
						fail("write-error", fmt.Sprintf("Write of record %d after record %d had been refused by the underlying writer: %v", j, k, err))
						return
					}
				}
				start := 0
				if k > 0 {
					start = ends[k-1]
				}
				want := append(append([]byte(nil), data[:start]...), data[ends[k]:]...)
				if !bytes.Equal(gw.buf.Bytes(), want) {
					w["refused_record"] = k
					w["emitted_with_refusal"] = gw.buf.String()
					fail("record-differs", fmt.Sprintf("record %d of %d was refused by the underlying writer (Write returned its error), the others were accepted: the output is %q, want %q", k, len(recs), truncBytes(gw.buf.Bytes(), 300), truncBytes(want, 300)))
					return
				}
				r.Count("writers_used_on_after_a_refused_record", 1)
			}
			for b := 0; b < len(data); b++ { // every byte offset as the point where the underlying writer starts failing
				if len(data) > 200 && b > 2 && b < len(data)-1 && rng.Intn(len(data)/40) != 0 {
					continue
				}
				lw := &limitWriter{budget: b, eager: rng.Intn(2) == 0}
				fbw, _ := bed.NewWriter(lw, m)
				sawErr := false
				for k, f := range recs {
					before := lw.got
					nn, err := fbw.Write(f)
					if nn != lw.got-before {
						w["write_fault_after_bytes"] = b
						fail("byte-count", fmt.Sprintf("underlying writer fails after %d bytes: bed Write of record %d returned n=%d, err=%v, but %d of its bytes were accepted", b, k, nn, err, lw.got-before))
						return
					}
					if err != nil {
						sawErr = true
						break
					}
				}
				if !sawErr {
					w["write_fault_after_bytes"] = b
					fail("write-error-hidden", fmt.Sprintf("underlying writer failed after %d of %d bytes and no bed Write returned an error", b, len(data)))
					return
				}
				r.Count("write_fault_points", 1)
			}
			delete(w, "write_fault_after_bytes")
			br, err := bed.NewReader(newSrc(rng, data), m)
			if err != nil {
				fail("read-error", "NewReader: "+err.Error())
				return
			}
			var got []feat.Feature
			for {
				f, err := br.Read()
				if err != nil {
					if err != io.EOF {
						fail("read-error", fmt.Sprintf("bed%d reader: %v after %d records", m, err, len(got)))
						return
					}
					break
				}
				got = append(got, f)
				if len(got) > nrec+2 {
					break
				}
			}
			if len(got) != nrec {
				fail("record-count", fmt.Sprintf("wrote %d bed records at width %d, read %d", nrec, m, len(got)))
				return
			}
			for k := range recs {
				want := c02BedWant(orig[k], m, got[k])
				if !reflect.DeepEqual(got[k], want) {
					fail("record-differs", fmt.Sprintf("bed%d written at %d: record %d reads back as %+v, want %+v", n, m, k, got[k], want))
					return
				}
				if got[k].Start() != orig[k].Start() || got[k].End() != orig[k].End() || got[k].Len() != orig[k].Len() {
					fail("record-differs", fmt.Sprintf("bed%d record %d Start/End/Len not preserved", n, k))
					return
				}
				// the record is the caller's: appending to one of its lists must not reach into another
				if b12, ok := got[k].(*bed.Bed12); ok {
					_ = append(b12.BlockSizes, -7, -7)
					_ = append(b12.BlockStarts, -9, -9)
					if !reflect.DeepEqual(got[k], want) {
						fail("record-differs", fmt.Sprintf("bed%d written at %d: after the caller appended to the block lists of record %d it reads %+v, want %+v", n, m, k, got[k], want))
						return
					}
					r.Count("bed12_block_lists_appended_to", 1)
				}
				r.Count("bed_records_compared", 1)
				if m < n {
					r.Count("bed_narrower_widths", 1)
				}
				if c02IsForeign(orig[k]) {
					r.Count("bed_features_of_other_types_compared", 1)
				}
			}
			// the same bytes through every narrower reader: a reader for fewer columns either takes the leading columns of
			// a wider line or refuses wider lines with an error (all lines of the file are equally wide, so it then
			// refuses the first); what it returns without an error is the record's first m2 columns
			for _, m2 := range []int{3, 4, 5, 6} {
				if m2 >= m {
					break
				}
				nr, err := bed.NewReader(newSrc(rng, data), m2)
				if err != nil {
					fail("read-error", "NewReader: "+err.Error())
					return
				}
				for k := 0; k <= nrec; k++ {
					f, err := nr.Read()
					if err != nil && err != io.EOF && k == 0 {
						r.Count("bed_wider_lines_refused_by_narrower_reader", 1)
						break
					}
					if err != nil && err != io.EOF {
						w["read_width"] = m2
						fail("read-error", fmt.Sprintf("bed%d written at %d: the bed%d reader took the first %d records and then returned %v", n, m, m2, k, err))
						return
					}
					if (err == io.EOF) != (k == nrec) {
						fail("record-count", fmt.Sprintf("wrote %d bed records at width %d, the bed%d reader returned (%v,%v) at call %d", nrec, m, m2, f, err, k))
						return
					}
					if err == io.EOF {
						break
					}
					if want := c02BedWant(orig[k], m2, f); !reflect.DeepEqual(f, want) {
						w["read_width"] = m2
						fail("record-differs", fmt.Sprintf("bed%d written at %d and read with the bed%d reader: record %d reads back as %s, want %s", n, m, m2, k, c02Brief(f), c02Brief(want)))
						return
					}
					r.Count("bed_records_read_with_narrower_reader", 1)
				}
			}
			// the same bytes from a source that fails with an error of its own part-way: whatever the reader hands out
			// without an error before that is still a record that was written, never a shortened one
			if len(data) > 0 {
				fsrc := newSrc(rng, data)
				fsrc.failing, fsrc.failAt = true, rng.Intn(len(data)+1)
				if fr, err := bed.NewReader(fsrc, m); err == nil {
					for k := 0; k <= nrec+1; k++ {
						f, err := fr.Read()
						if err != nil {
							break
						}
						if k >= nrec || !reflect.DeepEqual(f, c02BedWant(orig[k], m, f)) {
							w["source_fails_after_bytes"] = fsrc.failAt
							fail("record-differs", fmt.Sprintf("bed%d written at %d, read from a source that fails after %d of %d bytes: record %d comes back without an error as %+v", n, m, fsrc.failAt, len(data), k, f))
							return
						}
					}
					r.Count("bed_files_read_from_a_failing_source", 1)
				}
			}
			// the same bytes through featio.Scanner
			if br2, err := bed.NewReader(newSrc(rng, data), m); err == nil {
				sc := featio.NewScanner(br2)
				k := 0
				for sc.Next() {
					if k >= nrec || !reflect.DeepEqual(sc.Feat(), c02BedWant(orig[k], m, sc.Feat())) {
						fail("scanner", fmt.Sprintf("featio.Scanner bed%d record %d differs", m, k))
						return
					}
					k++
				}
				if sc.Error() != nil || k != nrec {
					fail("scanner", fmt.Sprintf("featio.Scanner stopped after %d of %d bed records, Error()=%v", k, nrec, sc.Error()))
					return
				}
				r.Count("scanner_passes", 1)
			}
			r.Note("bed/"+fmt.Sprint(n, m)+string(data), m > 3)
		}
		if !unchanged("after all writers (also the failing and the refused ones) and readers were done") {
			return
		}
		if r.WantSample() && i < 40 && nrec <= 2 {
			delete(w, "write_width")
			r.Sample(w)
		}
		return
	}

	// ---- GFF ----
	header := rng.Intn(2) == 0
	width := 1 + rng.Intn(80)
	if rng.Intn(15) == 0 { // inline sequence lines longer than a 4096-byte read buffer
		width = 4000 + rng.Intn(5000)
	}
	nitems := 1 + rng.Intn(6)
	cw := &countingWriter{}
	gw := gff.NewWriter(cw, width, header)
	type item struct {
		kind string
		f    *gff.Feature
		reg  *gff.Region
		sq   *linear.Seq
		f0   *gff.Feature // the feature as it was before any writer saw it
		reg0 gff.Region
		sq0  c02SeqSnap
	}
	var items []item
	var desc []string
	curType := feat.Undefined
	var ops []func(*gff.Writer) (int, error)
	var opNames []string
	var opStarts []int // where each call's bytes start in the output
	write := func(what string, f func(*gff.Writer) (int, error)) bool {
		ops, opNames = append(ops, f), append(opNames, what)
		before := cw.buf.Len()
		opStarts = append(opStarts, before)
		nn, err := f(gw)
		if err != nil {
			fail("write-error", what+": "+err.Error())
			return false
		}
		if nn != cw.buf.Len()-before {
			fail("byte-count", fmt.Sprintf("gff %s returned n=%d but emitted %d bytes", what, nn, cw.buf.Len()-before))
			return false
		}
		r.Count("write_calls_counted", 1)
		return true
	}
	nontrivial := false
	wantSourceVersion := ""
	var wantDate *time.Time
	for k := 0; k < nitems; k++ {
		switch c := rng.Intn(10); {
		case c < 5:
			f := genGFF(rng)
			if n := len(items); n > 0 && items[n-1].kind == "feature" && len(items[n-1].f.FeatAttributes) > 0 && rng.Intn(3) == 0 {
				// the line before carries the very same attribute column (and, half of the time, the same comment)
				f.FeatAttributes = append(gff.Attributes(nil), items[n-1].f.FeatAttributes...)
				if rng.Intn(2) == 0 {
					f.Comments = items[n-1].f.Comments
				}
				r.Count("gff_features_repeating_the_attribute_column_of_the_line_before", 1)
			}
			f0 := c02CopyGFF(f)
			items = append(items, item{kind: "feature", f: f, f0: f0})
			desc = append(desc, "feature "+gffBrief(f))
			if !write("Write(feature)", func(gw *gff.Writer) (int, error) { return gw.Write(f) }) {
				return
			}
			if !reflect.DeepEqual(f, f0) {
				fail("caller-record-modified", fmt.Sprintf("after gff Write the caller's feature is %s, it was %s", gffBrief(f), gffBrief(f0)))
				return
			}
			r.Count("records_unchanged_after_write", 1)
			if f.FeatScore != nil || len(f.FeatAttributes) > 0 || f.Comments != "" {
				nontrivial = true
			}
			if f.FeatStart < 0 || f.FeatEnd > 1<<40 {
				r.Count("gff_negative_or_extreme_coords", 1)
			}
		case c < 7:
			if rng.Intn(2) == 0 {
				curType = feat.Moltype(rng.Intn(4) - 1)
				t := curType
				if rng.Intn(2) == 0 {
					if !write("WriteMetaData(moltype)", func(gw *gff.Writer) (int, error) { return gw.WriteMetaData(t) }) {
						return
					}
					desc = append(desc, "##Type "+t.String())
				} else {
					nm := genNoSpace(rng)
					if !write("WriteMetaData(Sequence)", func(gw *gff.Writer) (int, error) { return gw.WriteMetaData(gff.Sequence{SeqName: nm, Type: t}) }) {
						return
					}
					desc = append(desc, "##Type "+t.String()+" "+nm)
				}
			}
			s := genInt(rng)
			if s > 1<<62 {
				s = 1 << 62
			}
			reg := &gff.Region{Sequence: gff.Sequence{SeqName: genNoSpace(rng), Type: curType}, RegionStart: s, RegionEnd: s + 1 + rng.Intn(100000)}
			items = append(items, item{kind: "region", reg: reg, reg0: *reg})
			desc = append(desc, fmt.Sprintf("region %q type %v [%d,%d)", reg.SeqName, reg.Type, reg.RegionStart, reg.RegionEnd))
			// the same ##sequence-region line can be asked for in four ways
			how := rng.Intn(4)
			if !write([]string{"Write(region)", "WriteMetaData(region)", "WriteMetaData(feature)", "Write(some other feature)"}[how], func(gw *gff.Writer) (int, error) {
				switch how {
				case 1:
					return gw.WriteMetaData(reg)
				case 2:
					return gw.WriteMetaData(&gff.Feature{SeqName: reg.SeqName, Source: "s", Feature: "f", FeatStart: reg.RegionStart, FeatEnd: reg.RegionEnd})
				case 3:
					return gw.Write(c02Plain{reg.SeqName, reg.RegionStart, reg.RegionEnd})
				}
				return gw.Write(reg)
			}) {
				return
			}
			nontrivial = true
		case c < 9:
			al := []alphabet.Alphabet{alphabet.DNA, alphabet.RNA, alphabet.Protein, alphabet.DNAgapped, alphabet.DNAredundant, alphabet.RNAgapped, alphabet.RNAredundant}[rng.Intn(7)]
			sl := 1 + rng.Intn(300)
			if width > 1000 || rng.Intn(20) == 0 {
				sl = 3000 + rng.Intn(17000)
			}
			body := []byte(genLetters(rng, al, sl))
			if al == alphabet.Protein && width > 0 && sl > width+4 && rng.Intn(2) == 0 {
				// e, n, d and - are letters of the protein alphabet: a body line may begin with the first four bytes of
				// the "end-Protein" line that closes the block, and is a body line all the same
				at := width * (1 + rng.Intn((sl-4)/width))
				copy(body[at:], "end-")
				if at+11 <= len(body) && string(body[at:at+11]) == "end-Protein" {
					body[at+4] = 'a'
				}
				r.Count("inline_protein_sequences_with_a_line_beginning_end-", 1)
			}
			sq := linear.NewSeq(genNoSpace(rng), alphabet.BytesToLetters(body), al)
			if rng.Intn(3) == 0 {
				sq.Desc = genDesc(rng)
			}
			sq0 := c02SnapSeq(sq)
			items = append(items, item{kind: "sequence", sq: sq, sq0: sq0})
			desc = append(desc, fmt.Sprintf("sequence %q desc %q %d letters of %v", sq.ID, sq.Desc, sq.Len(), al.Moltype()))
			// an inline sequence can be asked for in two ways
			how := rng.Intn(2)
			if !write([]string{"Write(sequence)", "WriteMetaData(sequence)"}[how], func(gw *gff.Writer) (int, error) {
				if how == 1 {
					return gw.WriteMetaData(sq)
				}
				return gw.Write(sq)
			}) {
				return
			}
			if c02SnapSeq(sq) != sq0 {
				fail("caller-record-modified", fmt.Sprintf("after gff %s the caller's sequence %q is no longer what it was", []string{"Write", "WriteMetaData"}[how], sq0.id))
				return
			}
			r.Count("records_unchanged_after_write", 1)
			r.Count("gff_sequences_by_"+[]string{"Write", "WriteMetaData"}[how], 1)
			nontrivial = true
		default:
			c := genField(rng, true)
			desc = append(desc, "comment "+c)
			if !write("WriteComment", func(gw *gff.Writer) (int, error) { return gw.WriteComment(c) }) {
				return
			}
			// metadata lines that only update the reader's state: the reader goes on to the next item
			if rng.Intn(2) == 0 {
				sv := genNoSpace(rng) + " " + genNoSpace(rng)
				if !write("WriteMetaData(source-version)", func(gw *gff.Writer) (int, error) { return gw.WriteMetaData("source-version " + sv) }) {
					return
				}
				wantSourceVersion = sv
				desc = append(desc, "##source-version "+sv)
			}
			if rng.Intn(2) == 0 {
				d := time.Date(1+rng.Intn(9998), time.Month(1+rng.Intn(12)), 1+rng.Intn(28), 0, 0, 0, 0, time.UTC)
				if !write("WriteMetaData(date)", func(gw *gff.Writer) (int, error) { return gw.WriteMetaData(d) }) {
					return
				}
				wantDate = &d
				desc = append(desc, "##date "+d.Format("2006-1-02"))
			}
		}
	}
	data := append([]byte(nil), cw.buf.Bytes()...)
	w["format"] = "gff"
	w["header"] = header
	w["width"] = width
	w["items"] = desc
	w["emitted"] = string(data)

	// the same calls again through a writer that accepts only the first B bytes and then fails with a short write:
	// the counts returned, the failing call's included, must add up to what the writer accepted
	{
		var budgets []int
		if len(data) <= 200 {
			for b := 0; b < len(data); b++ {
				budgets = append(budgets, b)
			}
		} else {
			budgets = []int{0, 1, len(data) - 1}
			for k := 0; k < 9; k++ {
				budgets = append(budgets, rng.Intn(len(data)))
			}
			for k := 0; k < len(data)-1 && len(budgets) < 40; k++ { // around tabs and line ends: where one formatted piece ends
				if (data[k] == '\n' || data[k] == '\t') && rng.Intn(6) == 0 {
					budgets = append(budgets, k, k+1)
				}
			}
		}
		for _, b := range budgets {
			lw := &limitWriter{budget: b, eager: rng.Intn(2) == 0}
			fgw := gff.NewWriter(lw, width, header)
			sawErr := false
			for k, op := range ops {
				before := lw.got
				nn, err := op(fgw)
				if nn != lw.got-before {
					w["write_fault_after_bytes"] = b
					fail("byte-count", fmt.Sprintf("underlying writer fails after %d bytes: gff %s (call %d) returned n=%d, err=%v, but %d of its bytes were accepted", b, opNames[k], k, nn, err, lw.got-before))
					return
				}
				if err != nil {
					sawErr = true
					break
				}
			}
			if !sawErr {
				w["write_fault_after_bytes"] = b
				fail("write-error-hidden", fmt.Sprintf("underlying writer failed after %d of %d bytes and no gff write returned an error", b, len(data)))
				return
			}
			r.Count("write_fault_points", 1)
		}
	}

	// one call is refused outright by the underlying writer, the writer is used on: the output is what the other calls
	// wrote, nothing of the refused one
	if len(ops) > 0 {
		k := rng.Intn(len(ops))
		gtw := &gateWriter{}
		ggw := gff.NewWriter(gtw, width, header)
		for j, op := range ops {
			gtw.closed = j == k
			nn, err := op(ggw)
			if j == k && (err == nil || nn != 0) {
				fail("write-error-hidden", fmt.Sprintf("the underlying writer refused every byte of gff %s (call %d) and it returned n=%d, err=%v", opNames[j], j, nn, err))
				return
			}
			if j != k && err != nil {
				fail("write-error", fmt.Sprintf("gff %s (call %d) after call %d had been refused by the underlying writer: %v", opNames[j], j, k, err))
				return
			}
		}
		end := len(data)
		if k+1 < len(opStarts) {
			end = opStarts[k+1]
		}
		want := append(append([]byte(nil), data[:opStarts[k]]...), data[end:]...)
		if !bytes.Equal(gtw.buf.Bytes(), want) {
			w["refused_call"] = k
			w["emitted_with_refusal"] = gtw.buf.String()
			fail("record-differs", fmt.Sprintf("gff %s (call %d of %d) was refused by the underlying writer and returned its error, the other calls were accepted: the output is %q, want %q", opNames[k], k, len(ops), truncBytes(gtw.buf.Bytes(), 300), truncBytes(want, 300)))
			return
		}
		r.Count("writers_used_on_after_a_refused_record", 1)
	}

	// text-level coordinate convention, on my own split of the emitted lines
	fi := 0
	var feats []*gff.Feature
	for _, it := range items {
		if it.kind == "feature" {
			feats = append(feats, it.f0)
		}
	}
	for _, ln := range strings.Split(string(data), "\n") {
		if ln == "" || strings.HasPrefix(ln, "#") {
			continue
		}
		cols := strings.Split(ln, "\t")
		if fi >= len(feats) || len(cols) < 8 {
			fail("emitted-bytes", fmt.Sprintf("unexpected feature line %q", ln))
			return
		}
		f := feats[fi]
		fi++
		c4, e4 := strconv.ParseInt(cols[3], 10, 64)
		c5, e5 := strconv.ParseInt(cols[4], 10, 64)
		if e4 != nil || e5 != nil {
			fail("coordinate-convention", fmt.Sprintf("columns 4/5 of %q are not decimal integers", ln))
			return
		}
		want4 := int64(f.FeatStart)
		if f.FeatStart >= 0 {
			want4++
		}
		if c4 != want4 || c5 != int64(f.FeatEnd) {
			fail("coordinate-convention", fmt.Sprintf("text carries %d..%d for the zero-based half-open interval [%d,%d)", c4, c5, f.FeatStart, f.FeatEnd))
			return
		}
		r.Count("gff_coordinate_columns_checked", 1)
	}
	if fi != len(feats) {
		fail("emitted-bytes", fmt.Sprintf("%d feature lines emitted for %d features", fi, len(feats)))
		return
	}

	// the whole file is read before anything is compared: storage shared between the items of one reader shows
	gr := gff.NewReader(newSrc(rng, data))
	var got []feat.Feature
	for k, it := range items {
		f, err := gr.Read()
		if err != nil {
			fail("read-error", fmt.Sprintf("item %d (%s): reader returned %v", k, it.kind, err))
			return
		}
		got = append(got, f)
	}
	if f, err := gr.Read(); err != io.EOF {
		fail("record-count", fmt.Sprintf("reader returned (%v,%v) after the last item instead of io.EOF", f, err))
		return
	}
	for k, it := range items {
		f := got[k]
		switch it.kind {
		case "feature":
			g, ok := f.(*gff.Feature)
			if !ok {
				fail("record-differs", fmt.Sprintf("item %d: expected a feature, got %T", k, f))
				return
			}
			if !reflect.DeepEqual(gffNormalise(g), gffNormalise(it.f0)) {
				fail("record-differs", fmt.Sprintf("item %d: after the whole file was read (and the caller appended to the attribute lists of the items before it) the feature is %s, want %s", k, gffBrief(g), gffBrief(it.f0)))
				return
			}
			if g.Start() != it.f0.Start() || g.End() != it.f0.End() || g.Len() != it.f0.Len() {
				fail("record-differs", fmt.Sprintf("item %d: Start/End/Len not preserved", k))
				return
			}
			if len(g.FeatAttributes) > 0 { // the same for the attribute list of a feature
				_ = append(g.FeatAttributes, gff.Attribute{Tag: "appended", Value: "by the caller"})
				for a := range g.FeatAttributes {
					_ = append([]byte(g.FeatAttributes[a].Tag), 'x')
				}
				if !reflect.DeepEqual(gffNormalise(g), gffNormalise(it.f0)) {
					fail("record-differs", fmt.Sprintf("item %d: after the caller appended to its attribute list the feature reads %s, want %s", k, gffBrief(g), gffBrief(it.f0)))
					return
				}
			}
			r.Count("gff_features_compared", 1)
		case "region":
			g, ok := f.(*gff.Region)
			if !ok {
				fail("record-differs", fmt.Sprintf("item %d: expected a region, got %T", k, f))
				return
			}
			if g == nil || *g != it.reg0 {
				fail("record-differs", fmt.Sprintf("item %d: region reads back as %+v, want %+v", k, g, it.reg0))
				return
			}
			r.Count("gff_regions_compared", 1)
		case "sequence":
			g, ok := f.(seq.Sequence)
			if !ok {
				fail("record-differs", fmt.Sprintf("item %d: expected a sequence, got %T", k, f))
				return
			}
			rec := seqToRec(g, false)
			if rec.Name != it.sq0.id || rec.Letters != it.sq0.letters {
				fail("record-differs", fmt.Sprintf("item %d: inline sequence %q reads back as %q with %d letters (first difference at %d)", k, it.sq0.id, rec.Name, len(rec.Letters), firstDiff(rec.Letters, it.sq0.letters)))
				return
			}
			// the molecule type (not the alphabet: gapped and redundant DNA are written as ##DNA) belongs to the letters
			if mol := g.Alphabet().Moltype(); mol != it.sq0.mol {
				fail("record-differs", fmt.Sprintf("item %d: inline %v sequence %q reads back as a %v sequence", k, it.sq0.mol, it.sq0.id, mol))
				return
			}
			r.Count("gff_sequences_compared", 1)
		}
	}
	// the same bytes from a source that fails with an error of its own part-way: an item the reader hands out without an
	// error before that is an item that was written, never a shortened one
	if len(data) > 0 {
		fsrc := newSrc(rng, data)
		fsrc.failing, fsrc.failAt = true, rng.Intn(len(data)+1)
		fr := gff.NewReader(fsrc)
		for k := 0; k <= len(items); k++ {
			f, err := fr.Read()
			if err != nil {
				break
			}
			bad := k >= len(items)
			if !bad {
				switch it := items[k]; it.kind {
				case "feature":
					g, ok := f.(*gff.Feature)
					bad = !ok || !reflect.DeepEqual(gffNormalise(g), gffNormalise(it.f0))
				case "region":
					g, ok := f.(*gff.Region)
					bad = !ok || g == nil || *g != it.reg0
				case "sequence":
					g, ok := f.(seq.Sequence)
					if bad = !ok; !bad {
						rec := seqToRec(g, false)
						bad = rec.Name != it.sq0.id || rec.Letters != it.sq0.letters
					}
				}
			}
			if bad {
				w["source_fails_after_bytes"] = fsrc.failAt
				fail("record-differs", fmt.Sprintf("read from a source that fails after %d of %d bytes: item %d comes back without an error as %v", fsrc.failAt, len(data), k, f))
				return
			}
		}
		r.Count("gff_files_read_from_a_failing_source", 1)
	}
	// what was read is the caller's: it writes through the score pointer of one item, overwrites and extends its
	// attribute list or its letters; every other item stays what it was
	{
		cur := make([]interface{}, len(got))
		for k := range got {
			cur[k] = c02Snap(got[k])
		}
		for k := range got {
			if !c02Scribble(got[k]) {
				continue
			}
			for j := range got {
				if j != k && !c02SameAsSnap(got[j], cur[j]) {
					w["scribbled_item"], w["changed_item"] = k, j
					fail("record-differs", fmt.Sprintf("after the caller wrote on item %d (%s) it had read (score target, attribute list, letters), item %d (%s) of the same reader changed: it was %+v, it is %+v", k, items[k].kind, j, items[j].kind, cur[j], c02Snap(got[j])))
					return
				}
			}
			cur[k] = c02Snap(got[k])
			r.Count("gff_read_items_written_on_by_the_caller", 1)
		}
	}
	{
		sc := featio.NewScanner(gff.NewReader(newSrc(rng, data)))
		k := 0
		for sc.Next() {
			k++
		}
		if sc.Error() != nil || k != len(items) {
			fail("scanner", fmt.Sprintf("featio.Scanner over the gff file stopped after %d of %d items, Error()=%v", k, len(items), sc.Error()))
			return
		}
		r.Count("scanner_passes", 1)
	}
	if wantSourceVersion != "" && gr.SourceVersion != wantSourceVersion {
		fail("record-differs", fmt.Sprintf("reader's SourceVersion is %q after the file was read, the last ##source-version line says %q", gr.SourceVersion, wantSourceVersion))
		return
	}
	if wantDate != nil && !gr.Date.Equal(*wantDate) {
		fail("record-differs", fmt.Sprintf("reader's Date is %v after the file was read, the last ##date line says %v", gr.Date, *wantDate))
		return
	}
	if header && gr.Version != gff.Version {
		fail("record-differs", "header written but reader's Version not set")
		return
	}
	for k, it := range items { // after the failing and the refused writers and the readers were done, too
		switch {
		case it.kind == "feature" && !reflect.DeepEqual(it.f, it.f0):
			fail("caller-record-modified", fmt.Sprintf("after all writers and readers were done the caller's feature (item %d) is %s, it was %s", k, gffBrief(it.f), gffBrief(it.f0)))
			return
		case it.kind == "region" && *it.reg != it.reg0:
			fail("caller-record-modified", fmt.Sprintf("after all writers and readers were done the caller's region (item %d) is %+v, it was %+v", k, *it.reg, it.reg0))
			return
		case it.kind == "sequence" && c02SnapSeq(it.sq) != it.sq0:
			fail("caller-record-modified", fmt.Sprintf("after all writers and readers were done the caller's sequence %q (item %d) is no longer what it was", it.sq0.id, k))
			return
		}
	}
	r.Note("gff/"+string(data), nontrivial)
	if r.WantSample() && len(data) < 400 && i < 60 {
		r.Sample(w)
	}
}
