package main

import (
	"fmt"
	"io"
	"math/rand"
	"os"
	"sync"

	"github.com/biogo/biogo/align/pals/filter"
	"github.com/biogo/biogo/alphabet"
	"github.com/biogo/biogo/index/kmerindex"
	"github.com/biogo/biogo/morass"
	"github.com/biogo/biogo/seq/linear"

	"verif/harness/internal/obs"
)

// C14 — PALS q-gram filter reports every epsilon-match (no false negatives).

type c14Params struct {
	K      int  `json:"k"`
	N      int  `json:"n"`
	E      int  `json:"e"`
	Offset int  `json:"tube_offset"`
	Self   bool `json:"self_comparison"`
	// the query is said to be a complemented strand: in a comparison of two different sequences that changes nothing
	Complement bool `json:"complement_flag,omitempty"`
	// the chunk size of the sorter the caller supplies for the hits (0: 65536); small ones make the hits spill to run files
	MorassChunk int `json:"morass_chunk,omitempty"`
	// the caller reuses its Params value for something else once the filter has been made
	ReuseParams bool `json:"params_value_reused_after_new,omitempty"`
	// self comparison of the other strand, as pals.Align(true) does it: the query is the reverse complement of the
	// target (a sequence value of its own) and both the self and the complement flag are set
	SelfComplement bool `json:"self_comparison_with_the_reverse_complement,omitempty"`
	// linear.Seq.Offset of the target and of the query (the letters are the same; all positions below are letter indices)
	TargetOffset int `json:"target_seq_offset,omitempty"`
	QueryOffset  int `json:"query_seq_offset,omitempty"`
	// the target sequence is also the query but the self flag is NOT set: every match is demanded, the main diagonal included
	QueryIsTarget string `json:"query_is_the_target_without_self_flag,omitempty"`
	// every use of the one Filter value gets a new sorter (the earlier ones are still alive)
	FreshSorters bool `json:"new_sorter_for_every_use,omitempty"`
	// number of other Filters made from the same index that run at the same time on other goroutines
	Concurrent int `json:"other_filters_running_on_the_index,omitempty"`
}

const (
	c14SameValue = "the same *linear.Seq"
	c14Clone     = "a clone of it"
)

type c14Match struct{ T0, Q0, Mism int }

// c14Filter runs the filter. The Filter value is first run on every query of priors (those hits are discarded),
// the way pals.Align reuses one filter for the forward and the complement-strand search; with p.FreshSorters every
// use gets a sorter of its own. With p.Concurrent > 0 that many further Filters made from the same index are run
// at the same time on goroutines of their own (the first of them on a copy of the query: its hits come back in
// side; the others on scrambled queries).
func c14Filter(target, query []byte, p c14Params, dir string, priors [][]byte, sideQueries [][]byte) (hits, side []filter.Hit, err error) {
	mkSeq := func(id string, b []byte, off int) *linear.Seq {
		s := linear.NewSeq(id, alphabet.BytesToLetters(append([]byte(nil), b...)), alphabet.DNA)
		s.Offset = off
		return s
	}
	ts := mkSeq("t", target, p.TargetOffset)
	qs := ts
	switch {
	case p.QueryIsTarget == c14SameValue:
	case p.QueryIsTarget == c14Clone:
		qs = ts.Clone().(*linear.Seq)
	case !p.Self || p.SelfComplement:
		qs = mkSeq("q", query, p.QueryOffset)
	}
	ki, err := kmerindex.New(p.K, ts)
	if err != nil {
		return nil, nil, fmt.Errorf("kmerindex.New: %v", err)
	}
	ki.Build()
	chunk := 1 << 16
	if p.MorassChunk > 0 {
		chunk = p.MorassChunk
	}
	var sorters []*morass.Morass
	defer func() {
		for _, m := range sorters {
			m.CleanUp()
		}
	}()
	newSorter := func(chunk int) (*morass.Morass, error) {
		m, err := morass.New(filter.Hit{}, "c14", dir, chunk, false)
		if err != nil {
			return nil, fmt.Errorf("morass.New: %v", err)
		}
		sorters = append(sorters, m)
		return m, nil
	}
	drain := func(m *morass.Morass) ([]filter.Hit, error) {
		var hits []filter.Hit
		for {
			var h filter.Hit
			err := m.Pull(&h)
			if err == io.EOF {
				return hits, nil
			}
			if err != nil {
				return hits, fmt.Errorf("Pull: %v", err)
			}
			hits = append(hits, h)
		}
	}
	// only the sorter of the judged use is the small-chunk one when every use has its own
	first := chunk
	if p.FreshSorters && len(priors) > 0 {
		first = 1 << 16
	}
	m, err := newSorter(first)
	if err != nil {
		return nil, nil, err
	}
	prm := &filter.Params{WordSize: p.K, MinMatch: p.N, MaxError: p.E, TubeOffset: p.Offset}
	f := filter.New(ki, prm)
	// the filters that will run next to the judged one: made from the same index and the same Params value
	type sideRun struct {
		f   *filter.Filter
		q   *linear.Seq
		m   *morass.Morass
		err error
	}
	var sides []*sideRun
	for i := 0; i < p.Concurrent; i++ {
		sm, err := newSorter(1 << 16)
		if err != nil {
			return nil, nil, err
		}
		sides = append(sides, &sideRun{f: filter.New(ki, prm), q: mkSeq(fmt.Sprint("side", i), sideQueries[i], p.QueryOffset), m: sm})
	}
	if p.ReuseParams {
		*prm = filter.Params{WordSize: 31, MinMatch: 40 * p.N, MaxError: 0, TubeOffset: 1}
	}
	for i, prior := range priors {
		ps := mkSeq("prior", prior, p.QueryOffset)
		if p.Self { // the same self comparison run again on one Filter: the last answer is the one that is judged
			ps = qs
		}
		if err := f.Filter(ps, p.Self, p.Complement, m); err != nil {
			return nil, nil, fmt.Errorf("Filter (use %d): %v", i+1, err)
		}
		drain(m)            // the hits of the earlier uses are discarded
		if p.FreshSorters { // the earlier sorter stays with its owner; the next use gets a new one
			next := 1 << 16
			if i == len(priors)-1 {
				next = chunk
			}
			if m, err = newSorter(next); err != nil {
				return nil, nil, err
			}
			continue
		}
		if err := m.Clear(); err != nil {
			return nil, nil, fmt.Errorf("Clear between uses: %v", err)
		}
	}
	var wg sync.WaitGroup
	for _, sr := range sides {
		wg.Add(1)
		go func(sr *sideRun) {
			defer wg.Done()
			defer func() {
				if e := recover(); e != nil {
					sr.err = fmt.Errorf("panic: %v", e)
				}
			}()
			sr.err = sr.f.Filter(sr.q, p.Self, p.Complement, sr.m)
		}(sr)
	}
	func() {
		defer wg.Wait()
		err = f.Filter(qs, p.Self, p.Complement, m)
	}()
	if err != nil {
		return nil, nil, fmt.Errorf("Filter: %v", err)
	}
	for i, sr := range sides {
		if sr.err != nil {
			return nil, nil, fmt.Errorf("Filter (filter %d of %d running at the same time on the index): %v", i+2, len(sides)+1, sr.err)
		}
	}
	if len(sides) > 0 {
		if side, err = drain(sides[0].m); err != nil {
			return nil, nil, err
		}
	}
	hits, err = drain(m)
	return hits, side, err
}

// c14Matches enumerates every pair of length-n windows differing by at most e substitutions (diagonal-wise sliding count).
func c14Matches(t, q []byte, n, e int, self bool) []c14Match {
	var out []c14Match
	lt, lq := len(t), len(q)
	up := func(b byte) byte {
		if b >= 'a' {
			return b - 32
		}
		return b
	}
	for d := -(lt - n); d <= lq-n; d++ { // d = q0 - t0
		t0, q0 := 0, d
		if d < 0 {
			t0, q0 = -d, 0
		}
		l := minInt(lt-t0, lq-q0)
		if l < n {
			continue
		}
		mis := 0
		for i := 0; i < l; i++ {
			if up(t[t0+i]) != up(q[q0+i]) {
				mis++
			}
			if i >= n && up(t[t0+i-n]) != up(q[q0+i-n]) {
				mis--
			}
			if i >= n-1 && mis <= e {
				a, b := t0+i-n+1, q0+i-n+1
				if !self || b > a {
					out = append(out, c14Match{a, b, mis})
				}
			}
		}
	}
	return out
}

// c14Covered: dT and dQ are added to the letter indices of the match before it is compared with the hits (0, 0:
// hits speak of letter indices; the sequences' offsets: hits speak of sequence coordinates).
func c14Covered(m c14Match, hits []filter.Hit, p c14Params, dT, dQ int) bool {
	q0 := m.Q0 + dQ
	d := q0 - (m.T0 + dT)
	for _, h := range hits {
		lo := -h.Diagonal
		if d >= lo && d <= lo+p.Offset+p.E-1 && h.From < q0+p.N && h.To > q0 {
			return true
		}
	}
	return false
}

func c14Rand(rng *rand.Rand, n int) []byte {
	b := make([]byte, n)
	for i := range b {
		b[i] = "ACGT"[rng.Intn(4)]
	}
	return b
}

func c14Mutate(rng *rand.Rand, w []byte, e int) []byte {
	out := append([]byte(nil), w...)
	for k := 0; k < e; k++ {
		p := rng.Intn(len(out))
		for {
			c := "ACGT"[rng.Intn(4)]
			if c != out[p] {
				out[p] = c
				break
			}
		}
	}
	return out
}

func init() {
	register(&obs.Monitor{
		ID:    "C14",
		Level: "exploration",
		Rule: "one target/query pair per case over ACGT (length 100..1500, thorough ..5000) with parameters k 4..8, e 0..3, n such that n+1-k(e+1)>=1, tube offset max(e,1)..e+40, non-self and self comparison; windows of the target are planted into the query with <=e substitutions so that the case index sweeps every diagonal residue mod offset " +
			"and every query residue relative to the tube-recycling tick, at the start, middle and end of the target and query; all epsilon-matches are enumerated independently by a diagonal-wise sliding Hamming count and each must be covered by a hit (diagonal band contains the match diagonal, query interval overlaps). " +
			"Hits are read back from the caller's sorter. Added dimensions: (a) a third of the self comparisons are made with the reverse complement of the target and both the self and the complement flag (pals.Align(true)), hairpins with arms 0..2 letters apart planted; demanded are the matches with T0+Q0 >= Tlen (an inverted repeat with arms that do not overlap, seen from the right arm), covered themselves or through their mirror image; " +
			"(b) non-zero linear.Seq offsets (1 .. 2^33, negative too) on target and query in a quarter of the pairs, matches kept in letter indices; (c) 3..5 further Filters made from the same index running at the same time on other goroutines (one of them on the same query and judged as well); (d) the target value, or a clone of it, as the query WITHOUT the self flag: all matches demanded, main diagonal included; " +
			"(e) one Filter used up to four times with queries several times longer and shorter than the judged one, each use with a new sorter; (f) a family with k 9..11 (thorough ..12), e 4..24, n 100..400, offset e+32, and repeats of 270..1000 letters (also for k 4..8 and in self comparisons of either strand). " +
			"Non-trivial = >=1 epsilon-match enumerated; distinct = parameters + planted residues + sequence hash",
		Batches: func(t string) int {
			if t == "thorough" {
				return 16
			}
			return 8
		},
		Cases:       func(r *obs.Run) int { return r.Share(r.Pick(3000, 12000)) },
		Case:        c14Case,
		MinDistinct: func(t string) int { return 300 },
		Floors: func(string) map[string]int64 {
			return map[string]int64{"pairs": 800, "epsilon_matches_checked": 12000, "matches_at_target_end": 300, "matches_at_query_end": 300, "matches_with_errors": 3000, "self_comparison_pairs": 100, "diagonal_residues_covered": 20, "hits_reported": 1000, "ring_stress_pairs": 150, "filter_reused_for_second_query": 150,
				"self_comparisons_with_the_reverse_complement": 100, "matches_checked_on_the_other_strand_of_a_self_comparison": 3000, "hairpin_matches_with_arms_0_to_2_letters_apart": 200,
				"pairs_of_sequences_with_offsets": 300, "pairs_with_the_target_as_query_and_no_self_flag": 100, "filters_used_for_a_fourth_query_after_a_long_and_a_short_one": 150,
				"pairs_filtered_while_3_to_5_other_filters_ran_on_the_index": 100, "pairs_with_word_size_9_or_more_and_4_to_24_errors": 80, "repeats_of_270_to_1000_letters_planted": 150}
		},
		Assumptions: []string{"sequences contain only A,C,G,T (the tube-recycling tick counts visited k-mer positions)", "epsilon-match = two length-n windows differing by at most e substitutions (no indels)", "in a self comparison with the reverse complement strand the statement's 'strictly above the main diagonal' is read as 'all k-mers on or beyond the line t+q = Tlen' (what pals relies on); such a match or its mirror image must be covered; palindromes whose arms overlap in the target (Tlen-2n < T0+Q0 < Tlen) are not demanded",
			"hits may speak of letter indices or, throughout one hit list, of sequence coordinates (index + Seq.Offset)",
			"Filters made from one built index may run at the same time on different goroutines, each with its own query and sorter (pals.Share hands one index to several PALS values); the statement itself is silent on this", "a Filter value may be reused for further queries, of any length, after the sorter has been cleared (as pals.Align does) or with a new sorter"},
	})
}

func c14Case(r *obs.Run, i int) {
	rng := r.Rng
	idx := i*r.NBatch + r.Batch
	var p c14Params
	p.K = 4 + rng.Intn(5)
	p.E = rng.Intn(4)
	minN := p.K*(p.E+1) + rng.Intn(3) // threshold 1..3 at the low end
	p.N = minN + []int{0, 0, 1, 3, 8, 20}[rng.Intn(6)]
	p.Offset = maxInt(p.E, 1) + idx%41
	if rng.Intn(3) == 0 {
		p.Offset = maxInt(p.E, 1) + rng.Intn(8)
	}
	p.Self = idx%5 == 4
	p.SelfComplement = idx%15 == 9 // a third of the self comparisons look at the other strand
	maxLen := r.Pick(1500, 5000)
	tl := 100 + rng.Intn(maxLen-99)
	ql := 100 + rng.Intn(maxLen-99)
	if rng.Intn(4) == 0 {
		tl = maxInt(p.N+5, 100+rng.Intn(200))
	}
	// the region pals.Optimise chooses from (k 9 and more, tens of errors, match lengths of hundreds, offset e+32) ...
	big := idx%25 == 2
	// ... and repeats many times longer than n (their k-mers make runs of hundreds in one tube), also for small k
	long := big || idx%25 == 7 || idx%50 == 14
	// ring-stress family: errors allowed, small offsets (many recycling ticks), a short target whose length puts
	// the last diagonal in the top part of its tube, a long query, old matches at the target end and k-mers of
	// the target start sprinkled through the query: every slot of the circular tube list is reused many times
	stress := idx%4 == 3 && !p.Self && !long
	if stress {
		p.E = 1 + rng.Intn(3)
		minN = p.K*(p.E+1) + rng.Intn(3)
		p.N = minN + []int{0, 1, 3, 8}[rng.Intn(4)]
		p.Offset = p.E + 1 + rng.Intn(12)
		tl = maxInt(p.N+10, 80+rng.Intn(220))
		tl += ((p.Offset - 1 - rng.Intn(p.E)) - (tl-1)%p.Offset + p.Offset) % p.Offset // (tl-1)%offset in [offset-e, offset-1]
		ql = minInt(maxLen, tl*(4+rng.Intn(6)))
	}
	if big {
		p.K = 9 + rng.Intn(r.Pick(3, 4))
		p.E = 4 + rng.Intn(21)
		minN = p.K*(p.E+1) + rng.Intn(3)
		p.N = maxInt(minN, 100) + []int{0, 1, 8, 40, 100}[rng.Intn(5)]
		p.Offset = p.E + 32
		if rng.Intn(3) == 0 {
			p.Offset = p.E + rng.Intn(41)
		}
		r.Count("pairs_with_word_size_9_or_more_and_4_to_24_errors", 1)
	}
	// more errors allowed than a word has letters (e > k), and the query beginning with the words the target ends with:
	// the common words of the two corners lie in the lowest tube and, by the error allowance, in the one "before" it
	manyErr := idx%13 == 6 && !p.Self && !long && !stress
	if manyErr {
		p.K = 4 + rng.Intn(2)
		p.E = p.K + 1 + rng.Intn(3)
		minN = p.K*(p.E+1) + rng.Intn(3)
		p.N = minN + []int{0, 1, 3}[rng.Intn(3)]
		p.Offset = p.E + rng.Intn(6)
		r.Count("pairs_with_more_errors_allowed_than_a_word_has_letters", 1)
	}
	if long {
		top := minInt(maxLen, 2500)
		tl = 800 + rng.Intn(top-799)
		ql = 800 + rng.Intn(top-799)
	}
	if p.SelfComplement && !big && rng.Intn(2) == 0 { // no errors: every k-mer of a match is needed
		p.E = 0
		p.N = p.K + rng.Intn(3) + []int{0, 0, 1, 3, 8, 20}[rng.Intn(6)]
	}
	T := c14Rand(rng, tl)
	Q := c14Rand(rng, ql)
	if !p.Self && rng.Intn(3) == 0 {
		p.Complement = true
		r.Count("non_self_pairs_with_the_complement_flag", 1)
	}
	if p.SelfComplement {
		p.Complement = true
	}
	if stress {
		r.Count("ring_stress_pairs", 1)
	}
	if rng.Intn(3) == 0 { // hits spill to run files of the caller's sorter (the last run being a partial one, or not)
		p.MorassChunk = []int{1, 2, 3, 7, 16, 50, 200}[rng.Intn(7)]
		r.Count("filters_writing_to_a_small_chunk_sorter", 1)
	}
	if rng.Intn(3) == 0 {
		p.ReuseParams = true
		r.Count("params_values_reused_after_new", 1)
	}
	if idx%20 == 0 { // never a self, stress or long-repeat case
		p.QueryIsTarget = []string{c14SameValue, c14Clone}[(idx/20)%2]
		r.Count("pairs_with_the_target_as_query_and_no_self_flag", 1)
	}
	if p.Self || p.QueryIsTarget != "" {
		Q = T
		ql = tl
	} else if manyErr {
		tail := p.K + rng.Intn(p.E)
		copy(Q, T[tl-tail:])
	}
	if p.MorassChunk > 0 {
		// every run file of a sorter stays open until the sorter is cleaned up: keep the chunk large enough for the
		// expected number of hits (common k-mers of two random sequences, half as many again) to fit in 10000 files
		if est := tl*ql/(1<<uint(2*p.K))*3/2 + 1000; est/p.MorassChunk >= 10000 {
			p.MorassChunk = est/10000 + 1
		}
	}
	if rng.Intn(4) == 0 { // the sequences do not start at 0
		p.TargetOffset = c14SeqOffsets[rng.Intn(len(c14SeqOffsets))]
		p.QueryOffset = append(c14SeqOffsets, 0, p.TargetOffset)[rng.Intn(len(c14SeqOffsets)+2)]
		if (p.Self && !p.SelfComplement) || p.QueryIsTarget != "" {
			p.QueryOffset = p.TargetOffset
		}
		r.Count("pairs_of_sequences_with_offsets", 1)
	}
	if !p.Self && idx%12 == 5 {
		p.Concurrent = 3 + rng.Intn(3)
	}
	if tl < p.N+2 || ql < p.N+2 {
		return
	}
	// planted windows; residues swept by the case index
	rho := idx % p.Offset              // diagonal residue
	tau := (idx / p.Offset) % p.Offset // query residue relative to the tick
	type plant struct{ T0, Q0, Mism int }
	var plants []plant
	nplant := 2 + rng.Intn(4)
	for k := 0; k < nplant && !p.SelfComplement; k++ {
		var t0, q0 int
		switch k % 4 {
		case 0:
			t0 = tl - p.N // at the target end
			q0 = rng.Intn(ql - p.N + 1)
		case 1:
			t0 = rng.Intn(tl - p.N + 1)
			q0 = ql - p.N // at the query end
		case 2:
			t0 = 0
			q0 = rng.Intn(ql - p.N + 1)
		default:
			t0 = rng.Intn(tl - p.N + 1)
			q0 = rng.Intn(ql - p.N + 1)
		}
		// steer residues: q0 = tau (mod offset), (Tlen - t0 + q0) = rho (mod offset)
		if k%4 != 1 {
			q0 -= ((q0-tau)%p.Offset + p.Offset) % p.Offset
			if q0 < 0 {
				q0 += p.Offset
			}
		}
		if k%4 == 3 || k%4 == 1 {
			d := ((tl-t0+q0-rho)%p.Offset + p.Offset) % p.Offset
			t0 += d
		}
		if q0 < 0 || t0 < 0 || q0+p.N > ql || t0+p.N > tl {
			continue
		}
		if p.Self && q0 <= t0 {
			t0, q0 = q0, t0
			if q0 == t0 || q0+p.N > ql {
				continue
			}
		}
		mism := rng.Intn(p.E + 1)
		w := c14Mutate(rng, T[t0:t0+p.N], mism)
		copy(Q[q0:], w)
		plants = append(plants, plant{t0, q0, mism})
	}
	// the other strand of a self comparison: hairpins. The window at t0 is written, reverse complemented and with
	// <= e substitutions, gap letters to its left (gap 0, 1, 2: the match lies on or next to the line that takes
	// the place of the main diagonal), at the target end, at the query end (left arm at 0) and anywhere
	for k := 0; k < nplant+2 && p.SelfComplement; k++ {
		gap := []int{0, 0, 1, 2, 0}[k%5]
		if k%5 == 4 {
			gap = rng.Intn(tl)
		}
		if tl < 2*p.N+gap {
			continue
		}
		t0 := p.N + gap + rng.Intn(tl-2*p.N-gap+1)
		switch k % 3 {
		case 1:
			t0 = tl - p.N
		case 2:
			t0 = p.N + gap
		}
		f0 := t0 - p.N - gap
		mism := rng.Intn(p.E + 1)
		copy(T[f0:], c14RevComp(c14Mutate(rng, T[t0:t0+p.N], mism)))
		plants = append(plants, plant{t0, tl - p.N - f0, mism})
	}
	if stress && tl >= p.N+p.K+p.E+2 && ql > 4*p.N {
		// exact copies of the target end at several places of the query ...
		for k := 0; k < 3+rng.Intn(4); k++ {
			q0 := rng.Intn(ql - p.N + 1)
			copy(Q[q0:], T[tl-p.N-rng.Intn(3):][:p.N])
			plants = append(plants, plant{tl - p.N, q0, 0})
		}
		// ... and the first k-mers of the target at many places
		for k := 0; k < ql/(p.Offset+p.E)+2; k++ {
			q0 := rng.Intn(ql - p.K - p.E)
			copy(Q[q0:], T[:p.K+rng.Intn(p.E+1)])
		}
	}
	if long { // one repeat of 270..1000 letters, substitutions spread so that its windows stay epsilon-matches
		l := 270 + rng.Intn(731)
		var t0, q0 int
		switch {
		case p.Self: // two stretches of the target that do not overlap: a direct repeat, or an inverted one
			l = minInt(l, tl/2-1)
			a := rng.Intn(tl - 2*l + 1)
			b := a + l + rng.Intn(tl-2*l-a+1)
			if p.SelfComplement {
				copy(T[a:], c14RevComp(c14Spaced(rng, T[b:b+l], p.N, p.E)))
				t0, q0 = b, tl-l-a
			} else {
				copy(T[b:], c14Spaced(rng, T[a:a+l], p.N, p.E))
				t0, q0 = a, b
			}
		default:
			l = minInt(l, minInt(tl, ql)-1)
			t0, q0 = rng.Intn(tl-l+1), rng.Intn(ql-l+1)
			copy(Q[q0:], c14Spaced(rng, T[t0:t0+l], p.N, p.E))
		}
		plants = append(plants, plant{t0, q0, -l})
		r.Count("repeats_of_270_to_1000_letters_planted", 1)
	}
	if p.SelfComplement {
		Q = c14RevComp(T)
	}
	scratch := c11Scratch(r)
	defer os.RemoveAll(scratch)
	r.Crumb(fmt.Sprintf("%+v tlen=%d qlen=%d plants=%v T=%s Q=%s", p, tl, ql, plants, T, Q))
	w := map[string]interface{}{"params": p, "planted": plants, "target": string(T), "query": string(Q)}
	if p.Self && !p.SelfComplement {
		delete(w, "query")
	}
	var hits, side []filter.Hit
	var err error
	func() {
		defer func() {
			if e := recover(); e != nil {
				err = fmt.Errorf("panic: %v", e)
			}
		}()
		var priors, sideQs [][]byte
		if idx%3 == 1 && p.Self {
			priors = [][]byte{Q}
			r.Count("self_comparisons_run_twice_on_one_filter", 1)
		}
		if idx%3 == 1 && !p.Self {
			// a previous query of the same length sharing material with this one, so that tubes are left partly filled
			prior := append([]byte(nil), Q...)
			for k := 0; k < len(prior)/8+1; k++ {
				prior[rng.Intn(len(prior))] = "ACGT"[rng.Intn(4)]
			}
			copy(prior[rng.Intn(len(prior)/2+1):], c14Rand(rng, len(prior)/3))
			priors = [][]byte{prior}
			r.Count("filter_reused_for_second_query", 1)
			if rng.Intn(2) == 0 { // and before that a query several times longer than the target and a short one, in either order
				priors = [][]byte{c14Scramble(rng, T, Q, minInt(tl*(2+rng.Intn(3)), 2*maxLen)), c14Scramble(rng, T, Q, p.N+2+rng.Intn(ql/2)), prior}
				if rng.Intn(2) == 0 { // the short one first
					priors[0], priors[1] = priors[1], priors[0]
				}
			}
		}
		if len(priors) > 0 && (rng.Intn(2) == 0 || len(priors) == 3) {
			p.FreshSorters = true
			w["params"] = p
			r.Count("filters_used_again_with_a_new_sorter_each_time", 1)
		}
		if len(priors) == 3 {
			r.Count("filters_used_for_a_fourth_query_after_a_long_and_a_short_one", 1)
		}
		for k := 0; k < p.Concurrent; k++ {
			sideQs = append(sideQs, Q)
			if k > 0 {
				sideQs[k] = c14Scramble(rng, T, Q, maxInt(p.N+2, ql/2+rng.Intn(ql)))
			}
		}
		hits, side, err = c14Filter(T, Q, p, scratch, priors, sideQs)
	}()
	if err != nil {
		r.Violate("filter-error", fmt.Sprintf("params %+v tlen=%d qlen=%d: %v", p, tl, ql, err), w)
		return
	}
	ms := c14Matches(T, Q, p.N, p.E, p.Self && !p.SelfComplement)
	if p.SelfComplement {
		// Only the matches whose k-mers all lie on or beyond the line t+q = Tlen are demanded: in the target these are
		// an inverted repeat whose arms do not overlap, seen from its right arm. Its mirror image (seen from the
		// left arm) lies wholly on the other side; an answer that reports that one instead is accepted as well.
		kept := ms[:0]
		for _, m := range ms {
			if m.T0+m.Q0 >= tl {
				kept = append(kept, m)
				r.Count("hairpin_matches_with_arms_0_to_2_letters_apart", int64(boolInt(m.T0+m.Q0 <= tl+2)))
			}
		}
		ms = kept
		r.Count("self_comparisons_with_the_reverse_complement", 1)
		r.Count("matches_checked_on_the_other_strand_of_a_self_comparison", int64(len(ms)))
	}
	r.Count("pairs", 1)
	if p.Self {
		r.Count("self_comparison_pairs", 1)
	}
	r.Count("hits_reported", int64(len(hits)))
	r.Count("epsilon_matches_checked", int64(len(ms)))
	if p.K >= 9 {
		r.Count("epsilon_matches_checked_with_word_size_9_or_more", int64(len(ms)))
	}
	for _, m := range ms {
		if m.T0+p.N == tl {
			r.Count("matches_at_target_end", 1)
		}
		if m.Q0+p.N == ql {
			r.Count("matches_at_query_end", 1)
		}
		if m.Mism > 0 {
			r.Count("matches_with_errors", 1)
		}
		if p.QueryIsTarget != "" && m.Q0 <= m.T0 {
			r.Count("matches_on_or_below_the_main_diagonal_demanded_without_self_flag", 1)
		}
		if p.TargetOffset != 0 || p.QueryOffset != 0 {
			r.Count("matches_checked_in_sequences_with_offsets", 1)
		}
	}
	judge := func(hits []filter.Hit, who string) {
		missed := c14Missed(ms, hits, p, tl, 0, 0, p.SelfComplement)
		if len(missed) > 0 && (p.TargetOffset != 0 || p.QueryOffset != 0) &&
			len(c14Missed(ms, hits, p, tl, p.TargetOffset, p.QueryOffset, p.SelfComplement)) == 0 {
			// the hits make sense as sequence coordinates (letter index + offset) throughout: the statement does not say which
			r.Count("hit_lists_accepted_as_sequence_coordinates", 1)
			missed = nil
		}
		if len(missed) == 0 {
			return
		}
		m := missed[0]
		w["hits"] = hits
		w["missed_match"] = m
		r.Violate("epsilon-match-missed", fmt.Sprintf("params %+v tlen=%d qlen=%d: windows t[%d,%d) q[%d,%d) differ by %d <= %d substitutions (diagonal q-t=%d) but no hit%s covers them (%d hits)",
			p, tl, ql, m.T0, m.T0+p.N, m.Q0, m.Q0+p.N, m.Mism, p.E, m.Q0-m.T0, who, len(hits)), w)
		r.Count("epsilon_matches_missed", int64(len(missed)))
	}
	judge(hits, "")
	if p.Concurrent > 0 {
		r.Count("pairs_filtered_while_3_to_5_other_filters_ran_on_the_index", 1)
		judge(side, " of the filter that ran next to it on the same query")
	}
	r.Note(fmt.Sprintf("%+v/%d/%d/%x", p, rho, tau, hashBytes(append(append([]byte(nil), T...), Q...))), len(ms) > 0)
	r.Count("diagonal_residues_covered", int64(boolInt(len(ms) > 0 && idx < 41)))
	if r.WantSample() && tl < 160 && ql < 160 && len(ms) > 0 {
		r.Sample(map[string]interface{}{"params": p, "planted": plants, "epsilon_matches": len(ms), "hits": hits, "tlen": tl, "qlen": ql})
	}
}

func boolInt(b bool) int {
	if b {
		return 1
	}
	return 0
}
