package main

import (
	"fmt"
	"io"
	"math/rand"
	"os"

	"github.com/biogo/biogo/align/pals/filter"
	"github.com/biogo/biogo/alphabet"
	"github.com/biogo/biogo/index/kmerindex"
	"github.com/biogo/biogo/morass"
	"github.com/biogo/biogo/seq/linear"

	"verif/harness/internal/obs"
)

// C14 — PALS q-gram filter reports every epsilon-match (no false negatives).

type c14Params struct {
	K      int  `json:"k"`
	N      int  `json:"n"`
	E      int  `json:"e"`
	Offset int  `json:"tube_offset"`
	Self   bool `json:"self_comparison"`
	// the query is said to be a complemented strand: in a comparison of two different sequences that changes nothing
	Complement bool `json:"complement_flag,omitempty"`
	// the chunk size of the sorter the caller supplies for the hits (0: 65536); small ones make the hits spill to run files
	MorassChunk int `json:"morass_chunk,omitempty"`
	// the caller reuses its Params value for something else once the filter has been made
	ReuseParams bool `json:"params_value_reused_after_new,omitempty"`
}

type c14Match struct{ T0, Q0, Mism int }

// c14Filter runs the filter. If prior is non-nil the same Filter value is first run on prior (its hits are
// discarded), the way pals.Align reuses one filter for the forward and the complement-strand search.
func c14Filter(target, query []byte, p c14Params, dir string, prior []byte) ([]filter.Hit, error) {
	ts := linear.NewSeq("t", alphabet.BytesToLetters(append([]byte(nil), target...)), alphabet.DNA)
	qs := ts
	if !p.Self {
		qs = linear.NewSeq("q", alphabet.BytesToLetters(append([]byte(nil), query...)), alphabet.DNA)
	}
	ki, err := kmerindex.New(p.K, ts)
	if err != nil {
		return nil, fmt.Errorf("kmerindex.New: %v", err)
	}
	ki.Build()
	chunk := 1 << 16
	if p.MorassChunk > 0 {
		chunk = p.MorassChunk
	}
	m, err := morass.New(filter.Hit{}, "c14", dir, chunk, false)
	if err != nil {
		return nil, fmt.Errorf("morass.New: %v", err)
	}
	defer m.CleanUp()
	prm := &filter.Params{WordSize: p.K, MinMatch: p.N, MaxError: p.E, TubeOffset: p.Offset}
	f := filter.New(ki, prm)
	if p.ReuseParams {
		*prm = filter.Params{WordSize: 31, MinMatch: 40 * p.N, MaxError: 0, TubeOffset: 1}
	}
	if prior != nil {
		ps := linear.NewSeq("prior", alphabet.BytesToLetters(append([]byte(nil), prior...)), alphabet.DNA)
		if p.Self { // the same self comparison run twice on one Filter: the second answer is the one that is judged
			ps = ts
		}
		if err := f.Filter(ps, p.Self, p.Complement, m); err != nil {
			return nil, fmt.Errorf("Filter (first use): %v", err)
		}
		for {
			var h filter.Hit
			if err := m.Pull(&h); err != nil {
				break
			}
		}
		if err := m.Clear(); err != nil {
			return nil, fmt.Errorf("Clear between uses: %v", err)
		}
	}
	if err := f.Filter(qs, p.Self, p.Complement, m); err != nil {
		return nil, fmt.Errorf("Filter: %v", err)
	}
	var hits []filter.Hit
	for {
		var h filter.Hit
		err := m.Pull(&h)
		if err == io.EOF {
			break
		}
		if err != nil {
			return hits, fmt.Errorf("Pull: %v", err)
		}
		hits = append(hits, h)
	}
	return hits, nil
}

// c14Matches enumerates every pair of length-n windows differing by at most e substitutions (diagonal-wise sliding count).
func c14Matches(t, q []byte, n, e int, self bool) []c14Match {
	var out []c14Match
	lt, lq := len(t), len(q)
	up := func(b byte) byte {
		if b >= 'a' {
			return b - 32
		}
		return b
	}
	for d := -(lt - n); d <= lq-n; d++ { // d = q0 - t0
		t0, q0 := 0, d
		if d < 0 {
			t0, q0 = -d, 0
		}
		l := minInt(lt-t0, lq-q0)
		if l < n {
			continue
		}
		mis := 0
		for i := 0; i < l; i++ {
			if up(t[t0+i]) != up(q[q0+i]) {
				mis++
			}
			if i >= n && up(t[t0+i-n]) != up(q[q0+i-n]) {
				mis--
			}
			if i >= n-1 && mis <= e {
				a, b := t0+i-n+1, q0+i-n+1
				if !self || b > a {
					out = append(out, c14Match{a, b, mis})
				}
			}
		}
	}
	return out
}

func c14Covered(m c14Match, hits []filter.Hit, p c14Params) bool {
	d := m.Q0 - m.T0
	for _, h := range hits {
		lo := -h.Diagonal
		if d >= lo && d <= lo+p.Offset+p.E-1 && h.From < m.Q0+p.N && h.To > m.Q0 {
			return true
		}
	}
	return false
}

func c14Rand(rng *rand.Rand, n int) []byte {
	b := make([]byte, n)
	for i := range b {
		b[i] = "ACGT"[rng.Intn(4)]
	}
	return b
}

func c14Mutate(rng *rand.Rand, w []byte, e int) []byte {
	out := append([]byte(nil), w...)
	for k := 0; k < e; k++ {
		p := rng.Intn(len(out))
		for {
			c := "ACGT"[rng.Intn(4)]
			if c != out[p] {
				out[p] = c
				break
			}
		}
	}
	return out
}

func init() {
	register(&obs.Monitor{
		ID:    "C14",
		Level: "exploration",
		Rule: "one target/query pair per case over ACGT (length 100..1500, thorough ..5000) with parameters k 4..8, e 0..3, n such that n+1-k(e+1)>=1, tube offset max(e,1)..e+40, non-self and self comparison; windows of the target are planted into the query with <=e substitutions so that the case index sweeps every diagonal residue mod offset " +
			"and every query residue relative to the tube-recycling tick, at the start, middle and end of the target and query; all epsilon-matches are enumerated independently by a diagonal-wise sliding Hamming count and each must be covered by a hit (diagonal band contains the match diagonal, query interval overlaps). " +
			"Hits are read back from an in-memory sorter. Non-trivial = >=1 epsilon-match enumerated; distinct = parameters + planted residues + sequence hash",
		Batches: func(t string) int {
			if t == "thorough" {
				return 16
			}
			return 8
		},
		Cases:       func(r *obs.Run) int { return r.Share(r.Pick(3000, 12000)) },
		Case:        c14Case,
		MinDistinct: func(t string) int { return 300 },
		Floors: func(string) map[string]int64 {
			return map[string]int64{"pairs": 800, "epsilon_matches_checked": 12000, "matches_at_target_end": 300, "matches_at_query_end": 300, "matches_with_errors": 3000, "self_comparison_pairs": 100, "diagonal_residues_covered": 20, "hits_reported": 1000, "ring_stress_pairs": 150, "filter_reused_for_second_query": 150}
		},
		Assumptions: []string{"sequences contain only A,C,G,T (the tube-recycling tick counts visited k-mer positions)", "epsilon-match = two length-n windows differing by at most e substitutions (no indels)", "complement-strand filtering is not exercised", "a Filter value may be reused for a second query after the sorter has been cleared (as pals.Align does)"},
	})
}

func c14Case(r *obs.Run, i int) {
	rng := r.Rng
	idx := i*r.NBatch + r.Batch
	var p c14Params
	p.K = 4 + rng.Intn(5)
	p.E = rng.Intn(4)
	minN := p.K*(p.E+1) + rng.Intn(3) // threshold 1..3 at the low end
	p.N = minN + []int{0, 0, 1, 3, 8, 20}[rng.Intn(6)]
	p.Offset = maxInt(p.E, 1) + idx%41
	if rng.Intn(3) == 0 {
		p.Offset = maxInt(p.E, 1) + rng.Intn(8)
	}
	p.Self = idx%5 == 4
	maxLen := r.Pick(1500, 5000)
	tl := 100 + rng.Intn(maxLen-99)
	ql := 100 + rng.Intn(maxLen-99)
	if rng.Intn(4) == 0 {
		tl = maxInt(p.N+5, 100+rng.Intn(200))
	}
	// ring-stress family: errors allowed, small offsets (many recycling ticks), a short target whose length puts
	// the last diagonal in the top part of its tube, a long query, old matches at the target end and k-mers of
	// the target start sprinkled through the query: every slot of the circular tube list is reused many times
	stress := idx%4 == 3 && !p.Self
	if stress {
		p.E = 1 + rng.Intn(3)
		minN = p.K*(p.E+1) + rng.Intn(3)
		p.N = minN + []int{0, 1, 3, 8}[rng.Intn(4)]
		p.Offset = p.E + 1 + rng.Intn(12)
		tl = maxInt(p.N+10, 80+rng.Intn(220))
		tl += ((p.Offset - 1 - rng.Intn(p.E)) - (tl-1)%p.Offset + p.Offset) % p.Offset // (tl-1)%offset in [offset-e, offset-1]
		ql = minInt(maxLen, tl*(4+rng.Intn(6)))
	}
	T := c14Rand(rng, tl)
	Q := c14Rand(rng, ql)
	if !p.Self && rng.Intn(3) == 0 {
		p.Complement = true
		r.Count("non_self_pairs_with_the_complement_flag", 1)
	}
	if stress {
		r.Count("ring_stress_pairs", 1)
	}
	if rng.Intn(3) == 0 { // hits spill to run files of the caller's sorter (the last run being a partial one, or not)
		p.MorassChunk = []int{1, 2, 3, 7, 16, 50, 200}[rng.Intn(7)]
		r.Count("filters_writing_to_a_small_chunk_sorter", 1)
	}
	if rng.Intn(3) == 0 {
		p.ReuseParams = true
		r.Count("params_values_reused_after_new", 1)
	}
	if p.Self {
		Q = T
		ql = tl
	}
	if tl < p.N+2 || ql < p.N+2 {
		return
	}
	// planted windows; residues swept by the case index
	rho := idx % p.Offset              // diagonal residue
	tau := (idx / p.Offset) % p.Offset // query residue relative to the tick
	type plant struct{ T0, Q0, Mism int }
	var plants []plant
	nplant := 2 + rng.Intn(4)
	for k := 0; k < nplant; k++ {
		var t0, q0 int
		switch k % 4 {
		case 0:
			t0 = tl - p.N // at the target end
			q0 = rng.Intn(ql - p.N + 1)
		case 1:
			t0 = rng.Intn(tl - p.N + 1)
			q0 = ql - p.N // at the query end
		case 2:
			t0 = 0
			q0 = rng.Intn(ql - p.N + 1)
		default:
			t0 = rng.Intn(tl - p.N + 1)
			q0 = rng.Intn(ql - p.N + 1)
		}
		// steer residues: q0 = tau (mod offset), (Tlen - t0 + q0) = rho (mod offset)
		if k%4 != 1 {
			q0 -= ((q0-tau)%p.Offset + p.Offset) % p.Offset
			if q0 < 0 {
				q0 += p.Offset
			}
		}
		if k%4 == 3 || k%4 == 1 {
			d := ((tl-t0+q0-rho)%p.Offset + p.Offset) % p.Offset
			t0 += d
		}
		if q0 < 0 || t0 < 0 || q0+p.N > ql || t0+p.N > tl {
			continue
		}
		if p.Self && q0 <= t0 {
			t0, q0 = q0, t0
			if q0 == t0 || q0+p.N > ql {
				continue
			}
		}
		mism := rng.Intn(p.E + 1)
		w := c14Mutate(rng, T[t0:t0+p.N], mism)
		copy(Q[q0:], w)
		plants = append(plants, plant{t0, q0, mism})
	}
	if stress && tl >= p.N+p.K+p.E+2 && ql > 4*p.N {
		// exact copies of the target end at several places of the query ...
		for k := 0; k < 3+rng.Intn(4); k++ {
			q0 := rng.Intn(ql - p.N + 1)
			copy(Q[q0:], T[tl-p.N-rng.Intn(3):][:p.N])
			plants = append(plants, plant{tl - p.N, q0, 0})
		}
		// ... and the first k-mers of the target at many places
		for k := 0; k < ql/(p.Offset+p.E)+2; k++ {
			q0 := rng.Intn(ql - p.K - p.E)
			copy(Q[q0:], T[:p.K+rng.Intn(p.E+1)])
		}
	}
	scratch := c11Scratch(r)
	defer os.RemoveAll(scratch)
	r.Crumb(fmt.Sprintf("%+v tlen=%d qlen=%d plants=%v T=%s Q=%s", p, tl, ql, plants, T, Q))
	w := map[string]interface{}{"params": p, "planted": plants, "target": string(T), "query": string(Q)}
	if p.Self {
		delete(w, "query")
	}
	var hits []filter.Hit
	var err error
	func() {
		defer func() {
			if e := recover(); e != nil {
				err = fmt.Errorf("panic: %v", e)
			}
		}()
		var prior []byte
		if idx%3 == 1 && p.Self {
			prior = Q
			r.Count("self_comparisons_run_twice_on_one_filter", 1)
		}
		if idx%3 == 1 && !p.Self {
			// a previous query of the same length sharing material with this one, so that tubes are left partly filled
			prior = append([]byte(nil), Q...)
			for k := 0; k < len(prior)/8+1; k++ {
				prior[rng.Intn(len(prior))] = "ACGT"[rng.Intn(4)]
			}
			copy(prior[rng.Intn(len(prior)/2+1):], c14Rand(rng, len(prior)/3))
			r.Count("filter_reused_for_second_query", 1)
		}
		hits, err = c14Filter(T, Q, p, scratch, prior)
	}()
	if err != nil {
		r.Violate("filter-error", fmt.Sprintf("params %+v tlen=%d qlen=%d: %v", p, tl, ql, err), w)
		return
	}
	ms := c14Matches(T, Q, p.N, p.E, p.Self)
	r.Count("pairs", 1)
	if p.Self {
		r.Count("self_comparison_pairs", 1)
	}
	r.Count("hits_reported", int64(len(hits)))
	r.Count("epsilon_matches_checked", int64(len(ms)))
	missed := 0
	for _, m := range ms {
		if m.T0+p.N == tl {
			r.Count("matches_at_target_end", 1)
		}
		if m.Q0+p.N == ql {
			r.Count("matches_at_query_end", 1)
		}
		if m.Mism > 0 {
			r.Count("matches_with_errors", 1)
		}
		if !c14Covered(m, hits, p) {
			missed++
			if missed == 1 {
				w["hits"] = hits
				w["missed_match"] = m
				r.Violate("epsilon-match-missed", fmt.Sprintf("params %+v tlen=%d qlen=%d: windows t[%d,%d) q[%d,%d) differ by %d <= %d substitutions (diagonal q-t=%d) but no hit covers them (%d hits)",
					p, tl, ql, m.T0, m.T0+p.N, m.Q0, m.Q0+p.N, m.Mism, p.E, m.Q0-m.T0, len(hits)), w)
			}
		}
	}
	if missed > 0 {
		r.Count("epsilon_matches_missed", int64(missed))
	}
	r.Note(fmt.Sprintf("%+v/%d/%d/%x", p, rho, tau, hashBytes(append(append([]byte(nil), T...), Q...))), len(ms) > 0)
	r.Count("diagonal_residues_covered", int64(boolInt(len(ms) > 0 && idx < 41)))
	if r.WantSample() && tl < 160 && ql < 160 && len(ms) > 0 {
		r.Sample(map[string]interface{}{"params": p, "planted": plants, "epsilon_matches": len(ms), "hits": hits, "tlen": tl, "qlen": ql})
	}
}

func boolInt(b bool) int {
	if b {
		return 1
	}
	return 0
}
