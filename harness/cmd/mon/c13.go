//go:build verif

package main

import (
	"encoding/json"
	"errors"
	"fmt"
	"io"
	"os"
	"os/exec"
	"path/filepath"
	"sort"
	"strings"
	"sync"
	"syscall"
	"time"

	"github.com/biogo/biogo/morass"

	"verif/harness/internal/obs"
)

// C13 — external sort never hides I/O failures and leaves no temporary files behind.
//
// Fault enumeration: a census run counts every temp-file creation, write, sync, seek and read of a workload;
// then each single operation is made to fail in turn:
//   write/read  - through the verif run-file wrapper (the error travels through gob and biogo's own handling)
//   creation    - the sorter's directory is removed just before the writer creates its file (real failure)
//   sync / seek - the run file is closed behind the sorter's back just before the call (real failure)
//   syncx/seekx - transient failure of exactly one fsync/lseek: the descriptor is swapped (dup2) for a pipe end for the
//                 duration of that one call (fsync on a pipe: EINVAL, lseek: ESPIPE) and swapped back at the sorter's
//                 next step, so nothing else fails as a consequence and the only trace of the fault is the returned error
//   fsync/lseek - additionally injected by strace in a hook-free child process (thorough, and a few in quick)

type c13Fault struct {
	Kind string `json:"kind"` // none, create, write, sync, seek, read
	N    int    `json:"ordinal"`
}

type c13Plan struct {
	W          c12Workload `json:"workload"`
	Concurrent bool        `json:"concurrent"`
	AutoClear  bool        `json:"auto_clear"`
	AutoClean  bool        `json:"auto_clean,omitempty"`
	Fault      c13Fault    `json:"fault"`
	Hold       *c12Hold    `json:"hold,omitempty"`
}

type c13Inj struct {
	mu        sync.Mutex
	fault     c13Fault
	dir       string
	files     []*os.File
	byG       map[int64]*os.File
	counts    map[string]int
	fired     bool
	firedAt   string
	ctl       *c12Ctl
	restore   map[int64]func() // transient descriptor swaps to undo, by goroutine (0: caller side)
	cyc       int              // use cycle of the sorter (two-cycle runs)
	cycWrites int              // run-file writes in this cycle
	firedIn   map[int]bool     // cycles in which the per-cycle fault took effect
}

// swapFd makes the next fsync/lseek on f fail without touching the file: f's descriptor number is pointed at the write
// end of a pipe; the returned function points it back at the file.
func swapFd(f *os.File) func() {
	fd := int(f.Fd())
	saved, err := syscall.Dup(fd)
	if err != nil {
		return nil
	}
	var p [2]int
	if err := syscall.Pipe(p[:]); err != nil {
		syscall.Close(saved)
		return nil
	}
	if err := syscall.Dup2(p[1], fd); err != nil {
		syscall.Close(saved)
		syscall.Close(p[0])
		syscall.Close(p[1])
		return nil
	}
	return func() {
		syscall.Dup2(saved, fd)
		syscall.Close(saved)
		syscall.Close(p[0])
		syscall.Close(p[1])
	}
}

// undo reverts the descriptor swap made for goroutine g (and, for g == -1, every outstanding one). Called with in.mu held.
func (in *c13Inj) undo(g int64) {
	for k, f := range in.restore {
		if g == -1 || k == g {
			f()
			delete(in.restore, k)
		}
	}
}

var errInjected = errors.New("verif: injected I/O failure")

type c13File struct {
	inj *c13Inj
	f   *os.File
}

func (w *c13File) Write(p []byte) (int, error) {
	w.inj.mu.Lock()
	w.inj.counts["write"]++
	w.inj.cycWrites++
	hit := w.inj.fault.Kind == "write" && w.inj.counts["write"] == w.inj.fault.N
	if w.inj.fault.Kind == "write-each-cycle" && w.inj.cycWrites == w.inj.fault.N { // the N-th write of every use cycle fails
		hit = true
		w.inj.firedIn[w.inj.cyc] = true
	}
	if hit {
		w.inj.fired, w.inj.firedAt = true, fmt.Sprintf("write #%d (%d bytes)", w.inj.fault.N, len(p))
	}
	w.inj.mu.Unlock()
	if hit {
		return 0, errInjected
	}
	return w.f.Write(p)
}

func (w *c13File) Read(p []byte) (int, error) {
	w.inj.mu.Lock()
	w.inj.counts["read"]++
	hit := w.inj.fault.Kind == "read" && w.inj.counts["read"] == w.inj.fault.N
	if hit {
		w.inj.fired, w.inj.firedAt = true, fmt.Sprintf("read #%d", w.inj.fault.N)
	}
	// the same read failing with io.ErrUnexpectedEOF, the error a reader gives for a stream that ends inside a record:
	// it is a failure like any other and must not be taken for the end of the run
	ueof := w.inj.fault.Kind == "read-unexpected-eof" && w.inj.counts["read"] == w.inj.fault.N
	if ueof {
		w.inj.fired, w.inj.firedAt = true, fmt.Sprintf("read #%d (fails with io.ErrUnexpectedEOF)", w.inj.fault.N)
	}
	w.inj.mu.Unlock()
	if hit {
		return 0, errInjected
	}
	if ueof {
		return 0, io.ErrUnexpectedEOF
	}
	return w.f.Read(p)
}

func (in *c13Inj) wrap(f *os.File) (io.Writer, io.Reader) {
	g := curGID()
	in.mu.Lock()
	in.files = append(in.files, f)
	if in.byG == nil {
		in.byG = map[int64]*os.File{}
	}
	in.byG[g] = f
	in.mu.Unlock()
	w := &c13File{in, f}
	return w, w
}

func (in *c13Inj) step(name string) {
	g := curGID()
	in.mu.Lock()
	switch name {
	case "write.recv":
		in.counts["create"]++
		if in.fault.Kind == "create" && in.counts["create"] == in.fault.N {
			// another writer may be creating its file at this very moment: RemoveAll then gives up with "directory not
			// empty" and nothing has failed. The fault counts as reached only once the directory is really gone.
			for k := 0; k < 20; k++ {
				os.RemoveAll(in.dir)
				if _, err := os.Stat(in.dir); err != nil {
					in.fired, in.firedAt = true, fmt.Sprintf("temp file creation #%d (directory removed)", in.fault.N)
					break
				}
			}
		}
	case "write.sync":
		in.counts["sync"]++
		if in.fault.Kind == "sync" && in.counts["sync"] == in.fault.N && in.byG[g] != nil {
			in.fired, in.firedAt = true, fmt.Sprintf("sync #%d (file closed behind the sorter)", in.fault.N)
			in.byG[g].Close()
		}
		if in.fault.Kind == "syncx" && in.counts["sync"] == in.fault.N && in.byG[g] != nil {
			if undo := swapFd(in.byG[g]); undo != nil {
				in.fired, in.firedAt = true, fmt.Sprintf("sync #%d (this one fsync fails, the file stays intact)", in.fault.N)
				in.restore[g] = undo
			}
		}
	case "write.return":
		in.undo(g)
	case "finalise.done":
		in.undo(-1)
	case "finalise.seek":
		in.undo(-1)
		in.counts["seek"]++
		if in.fault.Kind == "seekx" && in.counts["seek"] == in.fault.N && in.fault.N <= len(in.files) {
			if undo := swapFd(in.files[in.fault.N-1]); undo != nil {
				in.fired, in.firedAt = true, fmt.Sprintf("seek on run file #%d (this one lseek fails, the file stays intact)", in.fault.N)
				in.restore[0] = undo
			}
		}
		if in.fault.Kind == "seek" && in.counts["seek"] == 1 && in.fault.N <= len(in.files) {
			in.fired, in.firedAt = true, fmt.Sprintf("seek on run file #%d (file closed behind the sorter)", in.fault.N)
			in.files[in.fault.N-1].Close()
		}
	}
	in.mu.Unlock()
	if in.ctl != nil {
		in.ctl.step(name)
	}
}

type c13Outcome struct {
	E                   bool     `json:"error_reported"`
	Errors              []string `json:"errors"`
	Got                 []int    `json:"pulled"`
	Correct             bool     `json:"correct"`
	Fired               bool     `json:"fault_reached"`
	FiredAt             string   `json:"fault"`
	Counts              map[string]int
	Panicked            string   `json:"panic,omitempty"`
	CleanUpErr          string   `json:"cleanup_error,omitempty"`
	DirLeftAfterCleanUp bool     `json:"directory_exists_after_cleanup,omitempty"`
	DrainedAfterError   bool     `json:"drained_to_eof_after_the_error,omitempty"`
	Residue             []string `json:"run_files_left_after_that_drain,omitempty"`
	DirLeftAfterDrain   bool     `json:"directory_exists_after_that_drain,omitempty"`
}

// c13Exec runs one workload with at most one injected fault.
func c13Exec(r *obs.Run, p c13Plan, vals []int) (out c13Outcome) {
	scratch := c11Scratch(r)
	defer os.RemoveAll(scratch)
	m, err := morass.New(c11Int(0), "c13", scratch, p.W.Chunk, p.Concurrent)
	if err != nil {
		out.Panicked = "harness: morass.New: " + err.Error()
		return
	}
	m.AutoClear, m.AutoClean = p.AutoClear, p.AutoClean
	ents, _ := os.ReadDir(scratch)
	inj := &c13Inj{fault: p.Fault, counts: map[string]int{}, restore: map[int64]func(){}, firedIn: map[int]bool{}}
	if len(ents) == 1 {
		inj.dir = filepath.Join(scratch, ents[0].Name())
	}
	if p.Hold != nil {
		inj.ctl = &c12Ctl{callerG: curGID(), writerOf: map[int64]int{}, encSeen: map[int]int{}, chunk: p.W.Chunk, hold: p.Hold, reachedY: make(chan struct{}), reachedX: make(chan struct{}), holdT: 20 * time.Millisecond}
	}
	morass.VerifSetStep(inj.step)
	morass.VerifSetWrap(inj.wrap)
	defer morass.VerifSetStep(nil)
	defer morass.VerifSetWrap(nil)
	defer m.CleanUp()
	defer func() {
		if e := recover(); e != nil {
			out.Panicked = fmt.Sprint(e)
		}
		inj.mu.Lock()
		inj.undo(-1)
		out.Fired, out.FiredAt, out.Counts = inj.fired, inj.firedAt, inj.counts
		inj.mu.Unlock()
	}()
	note := func(where string, err error) {
		if err != nil && err != io.EOF {
			out.E = true
			out.Errors = append(out.Errors, where+": "+err.Error())
		}
	}
	for k, v := range vals {
		if err := m.Push(c11Int(v)); err != nil {
			note(fmt.Sprintf("Push %d", k), err)
			break
		}
	}
	ferr := m.Finalise()
	inj.mu.Lock()
	inj.undo(-1)
	inj.mu.Unlock()
	note("Finalise", ferr)
	if inj.ctl != nil {
		inj.ctl.mu.Lock()
		inj.ctl.signalY("pull.first")
		inj.ctl.mu.Unlock()
	}
	if ferr == nil {
		for {
			var v c11Int
			err := m.Pull(&v)
			if err == io.EOF {
				break
			}
			if err != nil {
				note(fmt.Sprintf("Pull %d", len(out.Got)), err)
				if (p.AutoClear || p.AutoClean) && inj.dir != "" {
					// the caller drains on regardless: once io.EOF arrives the AutoClear promise (no run files left) applies,
					// and so does the AutoClean promise (the directory is gone)
					for k := 0; k < len(vals)+4; k++ {
						var x c11Int
						if e := m.Pull(&x); e == io.EOF {
							if p.AutoClean {
								out.DrainedAfterError = true
								_, e2 := os.Stat(inj.dir)
								out.DirLeftAfterDrain = e2 == nil
							} else if ents, e2 := os.ReadDir(inj.dir); e2 == nil {
								out.DrainedAfterError = true
								for _, en := range ents {
									out.Residue = append(out.Residue, en.Name())
								}
							}
							break
						}
					}
				}
				break
			}
			out.Got = append(out.Got, int(v))
			if len(out.Got) > len(vals)+2 {
				break
			}
		}
	}
	want := append([]int(nil), vals...)
	sort.Ints(want)
	out.Correct = len(out.Got) == len(want)
	for k := 0; out.Correct && k < len(want); k++ {
		out.Correct = out.Got[k] == want[k]
	}
	// whatever failed before: CleanUp removes the sorter's directory
	if inj.dir != "" {
		inj.mu.Lock()
		inj.undo(-1)
		inj.mu.Unlock()
		if err := m.CleanUp(); err != nil {
			out.CleanUpErr = err.Error()
		}
		if _, err := os.Stat(inj.dir); err == nil {
			out.DirLeftAfterCleanUp = true
		}
	}
	time.Sleep(500 * time.Microsecond)
	return
}

// c13TwoCycles: a fault that persists across uses of one sorter - the n-th run-file write fails in the first cycle (which
// must report it), the sorter is cleared and used again, and the n-th write of the second cycle fails too. The second
// failure must surface from some call of the second cycle just like the first.
func c13TwoCycles(r *obs.Run, wl c12Workload, conc bool, n int) {
	vals := c13Vals(wl)
	scratch := c11Scratch(r)
	defer os.RemoveAll(scratch)
	r.Crumb(fmt.Sprintf("two cycles %+v concurrent=%v write#%d of each cycle fails", wl, conc, n))
	m, err := morass.New(c11Int(0), "c13", scratch, wl.Chunk, conc)
	if err != nil {
		r.Inconclusive("harness: morass.New: " + err.Error())
		return
	}
	inj := &c13Inj{fault: c13Fault{"write-each-cycle", n}, counts: map[string]int{}, restore: map[int64]func(){}, firedIn: map[int]bool{}}
	morass.VerifSetStep(inj.step)
	morass.VerifSetWrap(inj.wrap)
	defer morass.VerifSetStep(nil)
	defer morass.VerifSetWrap(nil)
	defer m.CleanUp()
	type cyc struct {
		Errors []string `json:"errors"`
		Got    []int    `json:"pulled"`
		Fired  bool     `json:"fault_reached"`
	}
	var cycles []cyc
	w := map[string]interface{}{"workload": wl, "concurrent": conc, "failing_write_of_each_cycle": n, "values": vals}
	defer func() {
		if e := recover(); e != nil {
			w["cycles"] = cycles
			r.Violate("panic", fmt.Sprintf("two-cycle run (write #%d of each cycle failing): panic: %v", n, e), w)
		}
	}()
	for c := 0; c < 3; c++ {
		inj.mu.Lock()
		inj.cyc, inj.cycWrites = c, 0
		if c == 2 { // a third, healthy cycle drained with AutoClear set: nothing of the failed cycles may be left behind
			inj.fault.N = 1 << 40
			m.AutoClear = true
		}
		inj.mu.Unlock()
		var cy cyc
		note := func(where string, err error) {
			if err != nil && err != io.EOF {
				cy.Errors = append(cy.Errors, where+": "+err.Error())
			}
		}
		for k, v := range vals {
			if err := m.Push(c11Int(v)); err != nil {
				note(fmt.Sprintf("Push %d", k), err)
				break
			}
		}
		ferr := m.Finalise()
		note("Finalise", ferr)
		if ferr == nil {
			for len(cy.Got) <= len(vals)+2 {
				var v c11Int
				err := m.Pull(&v)
				if err == io.EOF {
					break
				}
				if err != nil {
					note(fmt.Sprintf("Pull %d", len(cy.Got)), err)
					break
				}
				cy.Got = append(cy.Got, int(v))
			}
		}
		inj.mu.Lock()
		cy.Fired = inj.firedIn[c]
		inj.mu.Unlock()
		cycles = append(cycles, cy)
		w["cycles"] = cycles
		want := append([]int(nil), vals...)
		sort.Ints(want)
		correct := len(cy.Got) == len(want)
		for k := 0; correct && k < len(want); k++ {
			correct = cy.Got[k] == want[k]
		}
		if c == 2 {
			if len(cy.Errors) == 0 && !correct {
				r.Violate("failure-hidden", fmt.Sprintf("healthy use cycle after two cycles whose write #%d failed (workload %+v, concurrent=%v): no error reported, %d of %d values delivered", n, wl, conc, len(cy.Got), len(vals)), w)
				return
			}
			if len(cy.Errors) == 0 {
				var left []string
				subs, _ := os.ReadDir(scratch)
				for _, d := range subs {
					ents, _ := os.ReadDir(filepath.Join(scratch, d.Name()))
					for _, e := range ents {
						left = append(left, e.Name())
					}
				}
				r.Count("healthy_cycles_drained_with_autoclear_after_failed_cycles", 1)
				if len(left) > 0 {
					w["files_left"] = left
					r.Violate("autoclear-residue", fmt.Sprintf("two cycles with write #%d failing, each abandoned with Clear, then a healthy cycle drained to io.EOF with AutoClear set (workload %+v, concurrent=%v): %d run file(s) remain: %v", n, wl, conc, len(left), left), w)
					return
				}
			}
			break
		}
		r.Count("two_cycle_fault_cycles", 1)
		if cy.Fired {
			r.Count("two_cycle_faults_reached", 1)
		}
		if len(cy.Errors) == 0 && (cy.Fired || !correct) {
			class := "failure-unreported"
			if !correct {
				class = "failure-hidden"
			}
			r.Violate(class, fmt.Sprintf("write #%d of use cycle %d failing (workload %+v, concurrent=%v, the same write failed and was reported in the cycle before: %v): no Push/Finalise/Pull of this cycle reported an error, %d of %d values delivered",
				n, c+1, wl, conc, c > 0, len(cy.Got), len(vals)), w)
			return
		}
		if c < 2 {
			if err := m.Clear(); err != nil {
				r.Count("two_cycle_clear_errors", 1)
				return
			}
		}
	}
	r.Note(fmt.Sprintf("twocycle/%+v/%v/%d", wl, conc, n), true)
}

var c13Workloads = []c12Workload{{3, 2, 1}, {4, 3, 0}, {2, 3, 1}, {5, 1, 4}, {3, 4, 2}, {7, 2, 3}, {2, 5, 0}, {6, 3, 1}}

// c13Census returns the number of operations of each kind for a workload.
func c13Census(r *obs.Run, w c12Workload, conc bool, vals []int) map[string]int {
	out := c13Exec(r, c13Plan{W: w, Concurrent: conc, Fault: c13Fault{Kind: "none"}}, vals)
	return out.Counts
}

func c13Vals(w c12Workload) []int {
	// a fixed permutation with duplicates-free values so that ordinals are stable between census and fault runs
	n := w.n()
	v := make([]int, n)
	for i := range v {
		v[i] = (i*7 + 3) % n
	}
	seen := map[int]bool{}
	for i, x := range v {
		for seen[x] {
			x = (x + 1) % n
		}
		seen[x] = true
		v[i] = x
	}
	return v
}

type c13Item struct {
	two    int // > 0: two-cycle run with this write ordinal failing in each cycle (plan.W, plan.Concurrent used)
	plan   c13Plan
	strace string // non-empty: strace injection spec
	resid  bool   // residue history
	early  *c13Early
}

func c13Items(r *obs.Run) []c13Item {
	var items []c13Item
	wl := c13Workloads
	for _, w := range wl {
		for _, conc := range []bool{false, true} {
			// upper bounds on the ordinals; the census in each child trims them (unreached ordinals are counted as such)
			nfiles := (w.n() + w.Chunk - 1) / w.Chunk
			bounds := map[string]int{"create": nfiles, "sync": nfiles, "seek": nfiles, "syncx": nfiles, "seekx": nfiles, "write": 0, "read": 0}
			for _, kind := range []string{"create", "sync", "seek", "syncx", "seekx"} {
				for n := 1; n <= bounds[kind]; n++ {
					items = append(items, c13Item{plan: c13Plan{W: w, Concurrent: conc, Fault: c13Fault{kind, n}}})
					items = append(items, c13Item{plan: c13Plan{W: w, Concurrent: conc, AutoClear: true, Fault: c13Fault{kind, n}}})
					if conc && n <= w.writers() {
						for _, y := range []string{"push.handoff.next", "finalise.enter"} {
							items = append(items, c13Item{plan: c13Plan{W: w, Concurrent: true, Fault: c13Fault{kind, n}, Hold: &c12Hold{Writer: n, X: "write.return", Y: y}}})
						}
						if kind == "create" {
							// the writer whose directory has just gone is parked before it tries to create its file until the
							// next chunk has been handed off: two writers then fail while both are in flight
							items = append(items, c13Item{plan: c13Plan{W: w, Concurrent: true, Fault: c13Fault{kind, n}, Hold: &c12Hold{Writer: n, X: "write.recv", Y: "push.handoff.next"}}})
						}
					}
				}
			}
			for _, n := range []int{1, 2, w.Chunk + 1} {
				items = append(items, c13Item{two: n, plan: c13Plan{W: w, Concurrent: conc}})
			}
			// writes and reads: ordinals are enumerated up to a generous bound; the census decides which exist
			items = append(items, c13Item{plan: c13Plan{W: w, Concurrent: conc, Fault: c13Fault{"write", -1}}})
			items = append(items, c13Item{plan: c13Plan{W: w, Concurrent: conc, Fault: c13Fault{"read", -1}}})
			items = append(items, c13Item{plan: c13Plan{W: w, Concurrent: conc, Fault: c13Fault{"read-unexpected-eof", -1}}})
		}
	}
	// large chunks: run files longer than gob's 4096-byte read buffer, so that reads also happen (and can fail) in the
	// middle of a run during Pull; every read ordinal, a sample of the write ordinals
	for _, w := range []c12Workload{{400, 2, 150}, {700, 1, 300}, {450, 3, 0}} {
		for _, conc := range []bool{false, true} {
			items = append(items, c13Item{plan: c13Plan{W: w, Concurrent: conc, Fault: c13Fault{"read", -1}}})
			items = append(items, c13Item{plan: c13Plan{W: w, Concurrent: conc, Fault: c13Fault{"read-unexpected-eof", -1}}})
			items = append(items, c13Item{plan: c13Plan{W: w, Concurrent: conc, Fault: c13Fault{"write", -2}}})
		}
	}
	// CleanUp called at once by a caller that gives up, while the last background writer is still at work
	for _, w := range []c12Workload{{3, 2, 1}, {4, 3, 0}, {2, 3, 1}} {
		for h := 1; h <= 2; h++ {
			for _, x := range []string{"write.recv", "write.register", "write.encode#1", "write.sync"} {
				items = append(items, c13Item{early: &c13Early{W: w, Handoffs: h, X: x}})
				items = append(items, c13Item{early: &c13Early{W: w, Handoffs: h, X: x, Wait: true}})
			}
		}
	}
	ns := r.Pick(6, 40)
	for k := 0; k < ns; k++ {
		sys := []string{"fsync", "lseek"}[k%2]
		items = append(items, c13Item{strace: fmt.Sprintf("%s:error=EIO:when=%d", sys, 1+k/2)})
	}
	nr := r.Pick(600, 20000)
	for k := 0; k < nr; k++ {
		items = append(items, c13Item{resid: true})
	}
	return items
}

func init() {
	extraCommands["c13worker"] = func(args []string) { c13Worker(args[0]) }
	register(&obs.Monitor{
		ID:    "C13",
		Level: "fault_enumeration",
		Rule: "census of every temp-file creation, run-file write, sync, seek and read of multi-chunk workloads (2..5 chunks, both writer modes), then one run per fault point with exactly that operation failing (writes/reads through the verif run-file wrapper, creation by removing the sorter's directory, sync/seek by closing the run file behind the sorter, and again as a transient failure of that one fsync/lseek with the file left intact (descriptor swapped for a pipe end during the call); " +
			"fsync/lseek also injected by strace into a hook-free child); in concurrent mode faults are combined with holds ordering the failing writer's return before/after the caller's next hand-off and Finalise. Oracle: no error reported by any Push/Finalise/Pull and (pulled != sorted input, or the fault is known to have taken effect) => violation. " +
			"Two-cycle runs: the n-th write fails in the first cycle and, after Clear, again in the second, where it must be reported again. Failing reads also on sorters with AutoClean (drained on to io.EOF after the error: directory gone). CleanUp called while a background writer is parked at recv/register/encode/sync: nil, directory gone then and after the writers have finished. Residue: random C11 histories with AutoClean/AutoClear (half of those with AutoClean set their flags only at the start of, or half-way through the pulls of, a later cycle, the earlier cycles having run without), checking the temporary directory after drain and after CleanUp. Non-trivial = the chosen operation was actually reached; distinct = (workload, mode, fault, hold) or history word",
		Batches: func(t string) int {
			if t == "thorough" {
				return 16
			}
			return 8
		},
		MaxPar:      16,
		Cases:       func(r *obs.Run) int { return r.Share(len(c13Items(r))) },
		Setup:       func(r *obs.Run) { r.WatchDeadlock(5*time.Second, 2*time.Minute) },
		Case:        c13Case,
		MinDistinct: func(t string) int { return 500 },
		Floors: func(string) map[string]int64 {
			return map[string]int64{"fault_runs": 800, "faults_reached": 700, "faults_create": 80, "faults_write": 200, "faults_sync": 80, "faults_seek": 80, "faults_syncx": 80, "faults_seekx": 80, "faults_read": 160, "errors_reported": 700, "faults_with_autoclear": 300, "faults_read_in_long_runs": 30,
				"strace_injections_hit": 3, "two_cycle_faults_reached": 60, "residue_histories": 500, "residue_autoclean_drains": 60, "residue_autoclear_drains": 100,
				"autoclean_drains_after_a_read_error": 100, "cleanups_with_a_background_writer_at_work": 40, "cleanups_while_the_writer_was_parked_at_its_step": 15}
		},
		Assumptions: []string{"exactly one operation is made to fail per run; later failures caused by it (a closed or removed file) are consequences, not additional injections",
			"if an error is reported nothing further is demanded of the delivered values", "strace counts the N-th matching syscall per thread; the (INJECTED) lines in its log are the evidence of what failed"},
		ChildTimeout: func(string) time.Duration { return 10 * time.Minute },
	})
}

func c13Case(r *obs.Run, i int) {
	items := c13Items(r)
	it := items[i*r.NBatch+r.Batch]
	switch {
	case it.two > 0:
		c13TwoCycles(r, it.plan.W, it.plan.Concurrent, it.two)
	case it.resid:
		c13Residue(r)
	case it.early != nil:
		c13EarlyCleanUp(r, *it.early)
	case it.strace != "":
		c13Strace(r, it.strace)
	case it.plan.Fault.N == -2:
		// a sample of the write ordinals of a large workload
		vals := c13Vals(it.plan.W)
		cen := c13Census(r, it.plan.W, it.plan.Concurrent, vals)
		total := cen[it.plan.Fault.Kind]
		for k := 0; k < 10 && total > 0; k++ {
			p := it.plan
			p.Fault.N = []int{1, total, total / 2}[k%3]
			if k >= 3 {
				p.Fault.N = 1 + r.Rng.Intn(total)
			}
			p.AutoClear = k%2 == 0
			c13One(r, p, vals)
		}
	case it.plan.Fault.N == -1:
		// enumerate every write (or read) ordinal of this workload
		vals := c13Vals(it.plan.W)
		cen := c13Census(r, it.plan.W, it.plan.Concurrent, vals)
		cen["read-unexpected-eof"] = cen["read"]
		for n := 1; n <= cen[it.plan.Fault.Kind]; n++ {
			for _, ac := range []bool{false, true} {
				p := it.plan
				p.Fault.N = n
				p.AutoClear = ac
				c13One(r, p, vals)
			}
			// reads that fail: also on a sorter with AutoClean (alone, and together with AutoClear), where the caller
			// drains on after the error and the directory must be gone at io.EOF (the long runs with both kinds of failure)
			if it.plan.Fault.Kind == "read" || (it.plan.Fault.Kind == "read-unexpected-eof" && it.plan.W.Chunk >= 400) {
				for _, ac := range []bool{false, true} {
					p := it.plan
					p.Fault.N = n
					p.AutoClear, p.AutoClean = ac, true
					c13One(r, p, vals)
				}
			}
		}
	default:
		c13One(r, it.plan, c13Vals(it.plan.W))
	}
}

func c13One(r *obs.Run, p c13Plan, vals []int) {
	r.Crumb(fmt.Sprintf("%+v hold=%+v", p, p.Hold))
	out := c13Exec(r, p, vals)
	r.Count("fault_runs", 1)
	sig := fmt.Sprintf("%+v/%v/%v/%+v/%+v", p.W, p.Concurrent, p.AutoClear, p.Fault, p.Hold)
	if p.AutoClean {
		sig += "/autoclean"
	}
	w := map[string]interface{}{"plan": p, "values": vals, "outcome": out}
	if strings.HasPrefix(out.Panicked, "harness:") {
		r.Inconclusive(out.Panicked)
		return
	}
	if out.Panicked != "" {
		r.Violate("panic", fmt.Sprintf("%s #%d failing (%s): panic: %s", p.Fault.Kind, p.Fault.N, out.FiredAt, out.Panicked), w)
	}
	if out.Fired && p.AutoClear {
		r.Count("faults_with_autoclear", 1)
	}
	if out.Fired && p.Fault.Kind == "read" && p.W.Chunk >= 400 {
		r.Count("faults_read_in_long_runs", 1)
	}
	if out.Fired {
		r.Count("faults_reached", 1)
		r.Count("faults_"+p.Fault.Kind, 1)
	} else {
		r.Count("fault_points_not_reached", 1)
	}
	if out.E {
		r.Count("errors_reported", 1)
	}
	if !out.E && !out.Correct && out.Panicked == "" {
		r.Violate("failure-hidden", fmt.Sprintf("%s (workload %+v, concurrent=%v): no Push/Finalise/Pull reported an error, yet %d of %d values were delivered: %v", out.FiredAt, p.W, p.Concurrent, len(out.Got), len(vals), out.Got), w)
	}
	if out.DirLeftAfterCleanUp || out.CleanUpErr != "" {
		r.Violate("cleanup-residue", fmt.Sprintf("%s (workload %+v, concurrent=%v): after the run CleanUp returned %q and the temporary directory exists: %v", out.FiredAt, p.W, p.Concurrent, out.CleanUpErr, out.DirLeftAfterCleanUp), w)
	} else {
		r.Count("cleanups_after_a_fault_run", 1)
	}
	if out.DrainedAfterError && p.AutoClean {
		r.Count("autoclean_drains_after_a_read_error", 1)
		if out.DirLeftAfterDrain {
			r.Violate("autoclean-residue", fmt.Sprintf("%s (workload %+v, concurrent=%v, AutoClean, AutoClear=%v): the error was reported, the caller drained on to io.EOF, and the temporary directory still exists", out.FiredAt, p.W, p.Concurrent, p.AutoClear), w)
		}
	} else if out.DrainedAfterError {
		r.Count("autoclear_drains_after_a_read_error", 1)
		if len(out.Residue) > 0 {
			r.Violate("autoclear-residue", fmt.Sprintf("%s (workload %+v, concurrent=%v, AutoClear): the error was reported, the caller drained on to io.EOF, and %d run file(s) remain: %v", out.FiredAt, p.W, p.Concurrent, len(out.Residue), out.Residue), w)
		}
	}
	// the first clause read literally: the failed operation must surface as an error from some call, also when every
	// value still comes back. Only for faults known to have taken effect: which file a seek ordinal refers to is exact
	// only when writers register their files serially (sequential mode).
	exact := !p.Concurrent || (p.Fault.Kind != "seek" && p.Fault.Kind != "seekx")
	if out.Fired && exact && !out.E && out.Correct && out.Panicked == "" {
		r.Violate("failure-unreported", fmt.Sprintf("%s (workload %+v, concurrent=%v): the operation failed, every Push, Finalise and Pull returned success (all %d values delivered)", out.FiredAt, p.W, p.Concurrent, len(vals)), w)
	}
	r.Note(sig, out.Fired)
	if r.WantSample() && out.Fired && len(vals) < 9 {
		r.Sample(w)
	}
}

func c13Residue(r *obs.Run) {
	h := c11GenHist(r.Rng, 4)
	h.AutoClean = r.Rng.Intn(3) == 0
	h.LateFlags = false
	c11LateFlags(r.Rng, &h)
	scratch := c11Scratch(r)
	defer os.RemoveAll(scratch)
	r.Crumb(fmt.Sprintf("residue %+v", h))
	var res c11Result
	func() {
		defer func() {
			if e := recover(); e != nil {
				res.class, res.what = "panic", fmt.Sprintf("panic: %v", e)
			}
		}()
		res = c11RunHist(r, h, scratch, true)
	}()
	r.Count("residue_histories", 1)
	r.Count("residue_histories_setting_the_flags_on_a_sorter_already_in_use", int64(res.lateFlagSets))
	drained := false
	for _, c := range h.Cycles {
		if c.Drain == "all" || c.Drain == "all+extra" {
			drained = true
			break
		}
	}
	if drained && h.AutoClean {
		r.Count("residue_autoclean_drains", 1)
	}
	if drained && h.AutoClear && !h.AutoClean {
		r.Count("residue_autoclear_drains", 1)
	}
	switch res.class {
	case "":
	case "harness":
		r.Inconclusive(res.what)
	case "autoclean-residue", "autoclear-residue", "cleanup-residue", "cleanup-error", "panic":
		r.Violate(res.class, res.what, map[string]interface{}{"history": h, "what": res.what})
	default:
		// value/order defects belong to C11; here only note them
		r.Count("residue_history_failed_for_other_reasons", 1)
	}
	r.Note("resid/"+h.word()+fmt.Sprint(h.AutoClean), drained && (h.AutoClean || h.AutoClear))
}

// ---- strace-injected runs ----

type c13WorkerOut struct {
	E       bool     `json:"e"`
	Errors  []string `json:"errors"`
	Correct bool     `json:"correct"`
	N       int      `json:"n"`
	Got     int      `json:"got"`
}

// c13Worker is run in a grandchild process under strace: plain workload, no hooks installed.
func c13Worker(dir string) {
	w := c12Workload{4, 3, 2}
	vals := c13Vals(w)
	var out c13WorkerOut
	out.N = len(vals)
	note := func(where string, err error) {
		if err != nil && err != io.EOF {
			out.E = true
			out.Errors = append(out.Errors, where+": "+err.Error())
		}
	}
	m, err := morass.New(c11Int(0), "c13w", dir, w.Chunk, false)
	if err != nil {
		fmt.Println(`{"harness":"morass.New failed"}`)
		return
	}
	defer m.CleanUp()
	for k, v := range vals {
		if err := m.Push(c11Int(v)); err != nil {
			note(fmt.Sprintf("Push %d", k), err)
			break
		}
	}
	ferr := m.Finalise()
	note("Finalise", ferr)
	var got []int
	if ferr == nil {
		for {
			var v c11Int
			err := m.Pull(&v)
			if err == io.EOF {
				break
			}
			if err != nil {
				note("Pull", err)
				break
			}
			got = append(got, int(v))
			if len(got) > len(vals)+2 {
				break
			}
		}
	}
	want := append([]int(nil), vals...)
	sort.Ints(want)
	out.Got = len(got)
	out.Correct = len(got) == len(want)
	for k := 0; out.Correct && k < len(want); k++ {
		out.Correct = got[k] == want[k]
	}
	b, _ := json.Marshal(out)
	fmt.Println("C13WORKER " + string(b))
}

func c13Strace(r *obs.Run, spec string) {
	self, err := os.Executable()
	if err != nil {
		r.Inconclusive("os.Executable: " + err.Error())
		return
	}
	if _, err := exec.LookPath("strace"); err != nil {
		r.Count("strace_unavailable", 1)
		return
	}
	scratch := c11Scratch(r)
	defer os.RemoveAll(scratch)
	logp := filepath.Join(scratch, "strace.log")
	sys := strings.SplitN(spec, ":", 2)[0]
	cmd := exec.Command("strace", "-f", "-qq", "-o", logp, "-e", "trace="+sys, "-e", "inject="+spec, self, "c13worker", scratch)
	cmd.Env = append(os.Environ(), "GORACE=halt_on_error=0")
	outb, err := cmd.CombinedOutput()
	logb, _ := os.ReadFile(logp)
	injected := strings.Count(string(logb), "(INJECTED)")
	r.Count("strace_runs", 1)
	var wo c13WorkerOut
	found := false
	for _, ln := range strings.Split(string(outb), "\n") {
		if strings.HasPrefix(ln, "C13WORKER ") {
			found = json.Unmarshal([]byte(strings.TrimPrefix(ln, "C13WORKER ")), &wo) == nil
		}
	}
	w := map[string]interface{}{"strace_inject": spec, "injected_calls": injected, "worker": wo, "worker_output_tail": lastLines(string(outb), 6)}
	if !found {
		if strings.Contains(string(outb), "panic:") && strings.Contains(string(outb), "biogo/morass") {
			r.Violate("panic", "worker under strace "+spec+" panicked", w)
		} else {
			r.Count("strace_worker_no_result", 1)
		}
		return
	}
	if injected > 0 {
		r.Count("strace_injections_hit", 1)
		if wo.E {
			r.Count("errors_reported", 1)
		}
	}
	if !wo.E && !wo.Correct {
		r.Violate("failure-hidden", fmt.Sprintf("strace %s (%d calls injected): no error reported, %d of %d values delivered", spec, injected, wo.Got, wo.N), w)
	}
	r.Note("strace/"+spec, injected > 0)
	if r.WantSample() && injected > 0 {
		r.Sample(w)
	}
}

func lastLines(s string, n int) string {
	l := strings.Split(strings.TrimSpace(s), "\n")
	if len(l) > n {
		l = l[len(l)-n:]
	}
	return strings.Join(l, " | ")
}
